import DSV.Lemmas.Outcome
import DSV.Lemmas.Tally
import DSV.Lemmas.History
import DSV.Lemmas.StepWF
import DSV.Props.C14Observe
/-!
# C05 — lifecycle is monotone; retirement freezes state; specimen marking is exact
-/
namespace DSV.Props.C05
open DSV DSV.LLO DSV.GoMap

/-- the order staging < production < retired on stage strings; any other string is only related
    to itself -/
def stageLe (a b : String) : Prop :=
  a = b ∨ (a = stageStaging ∧ b = stageProduction) ∨ (a = stageProduction ∧ b = stageRetired) ∨
    (a = stageStaging ∧ b = stageRetired)

theorem stageLe_trans (a b c : String) (h1 : stageLe a b) (h2 : stageLe b c) : stageLe a c := by
  have d1 : stageStaging ≠ stageProduction := by decide
  have d2 : stageStaging ≠ stageRetired := by decide
  have d3 : stageProduction ≠ stageRetired := by decide
  unfold stageLe at *
  rcases h1 with rfl | ⟨rfl, rfl⟩ | ⟨rfl, rfl⟩ | ⟨rfl, rfl⟩
  · exact h2
  · rcases h2 with rfl | ⟨h, _⟩ | ⟨_, rfl⟩ | ⟨h, _⟩
    · right; left; exact ⟨rfl, rfl⟩
    · exact absurd h.symm d1
    · right; right; right; exact ⟨rfl, rfl⟩
    · exact absurd h.symm d1
  · rcases h2 with rfl | ⟨h, _⟩ | ⟨h, _⟩ | ⟨h, _⟩
    · right; right; left; exact ⟨rfl, rfl⟩
    · exact absurd h.symm d2
    · exact absurd h d3.symm
    · exact absurd h.symm d2
  · rcases h2 with rfl | ⟨h, _⟩ | ⟨h, _⟩ | ⟨h, _⟩
    · right; right; right; exact ⟨rfl, rfl⟩
    · exact absurd h.symm d2
    · exact absurd h d3.symm
    · exact absurd h.symm d2

/-- an instance starts in production exactly when it has no predecessor, otherwise in staging -/
theorem initial_stage (cfg : Cfg) :
    (initialOutcome cfg).stage = (if cfg.hasPred then stageStaging else stageProduction) ∧
    (initialOutcome cfg).defs = [] ∧ (initialOutcome cfg).va = [] := ⟨rfl, rfl, rfl⟩

/-- one round: the stage stays or moves up -/
theorem stage_step (env : Env) (cfg : Cfg) (σ : Sched) (n : Nat) (prev o : Outcome) (obs : List Obs)
    (h : outcome env cfg σ n prev obs = .ok o) : stageLe prev.stage o.stage := by
  obtain ⟨_, t, _, _, hstage, _⟩ := outcome_ok h
  rw [hstage]
  unfold stageLe
  rcases stageOf_cases cfg prev t with h1 | ⟨h1, _, h2⟩ | ⟨h1, _, h2⟩ | ⟨h1, _, _, h2⟩
  · left; exact h1.symm
  · right; left; exact ⟨h1, h2⟩
  · right; right; left; exact ⟨h1, h2⟩
  · right; right; right; exact ⟨h1, h2⟩

theorem codecRoundTrip_stage {cfg : Cfg} {o o' : Outcome} (h : codecRoundTrip cfg o = .ok o') : o'.stage = o.stage := by
  unfold codecRoundTrip at h
  simp only at h
  split at h
  · split at h
    · cases h
    · split at h
      · cases h
      · cases h; rfl
  · cases h; rfl

/-- **monotone over any history**: for any two outcomes of a run, the later one's stage is not
    below the earlier one's (and the start's) -/
theorem stage_monotone (env : Env) (cfg : Cfg) (o0 : Outcome) (rs : List Round) :
    (o0 :: run env cfg o0 rs).Pairwise (fun a b => stageLe a.stage b.stage) := by
  apply run_pairwise env cfg (fun a b => stageLe a.stage b.stage)
  · intro a b c; exact stageLe_trans _ _ _
  · intro r o o' hs
    obtain ⟨o1, h1, h2⟩ := step_ok hs
    rw [codecRoundTrip_stage h2]
    exact stage_step env cfg r.σ r.nAos o o1 r.obs h1

/-- **retirement freezes state** (one round): stage stays retired, the channel definitions are
    unchanged and every existing validity start is unchanged -/
theorem retired_frozen_step (env : Env) (cfg : Cfg) (σ : Sched) (hσ : σ.IsSched) (n : Nat) (prev o : Outcome)
    (obs : List Obs) (hwf : WF prev.va) (h : outcome env cfg σ n prev obs = .ok o)
    (hp : prev.stage = stageRetired) :
    o.stage = stageRetired ∧ o.defs = prev.defs ∧ ∀ c v, prev.va.get? c = some v → o.va.get? c = some v := by
  obtain ⟨_, t, _, _, hstage, _, hdefs, hva, _⟩ := outcome_ok h
  have hs : stageOf cfg prev t = stageRetired := stageOf_retired cfg prev t hp
  have e1 : σ.rmVotes [] = [] := List.perm_nil.mp (hσ.1 [])
  have e2 : σ.updDefs [] = [] := List.perm_nil.mp (hσ.2.1 [])
  have hd : o.defs = prev.defs := by
    rw [hdefs, hs]; unfold defsOf removalsOf
    simp [e1, e2, applyRemovals, applyUpdates]
  refine ⟨by rw [hstage, hs], hd, ?_⟩
  intro c v hv
  have hnp : promotedBy prev t = false := by
    unfold promotedBy; rw [hp]; simp [stageRetired, stageStaging]
  have hrem : (removalsOf cfg σ (stageOf cfg prev t) prev t).1 = [] := by
    rw [hs]; unfold removalsOf; simp [e1, applyRemovals]
  rw [hva, hrem, vaOf_spec_carry cfg σ hσ prev t _ _ [] hwf (Or.inl hnp) c, hv]
  simp only [List.not_mem_nil, if_false]
  unfold carried isReportable
  simp [hp]

/-- **retirement is final over any history**: from a retired state, every later agreed outcome — whatever
    the observers vote, attach or report, for any number of rounds — is retired, defines exactly the same
    channels, and keeps every validity start it retired with (up to the whole-second truncation the
    version-0 codec applies once).  Hence every retirement report of a retired instance carries the same
    validity starts, whichever retired round it is taken from. -/
theorem retired_frozen_run (env : Env) (cfg : Cfg) (henv : EnvWF env) (o0 : Outcome) (hw : WFOutcome o0)
    (hr : o0.stage = stageRetired) (rs : List Round) (hrs : ∀ r ∈ rs, RoundOK env r) :
    ∀ o ∈ run env cfg o0 rs,
      o.stage = stageRetired ∧ (∀ k, o.defs.get? k = o0.defs.get? k) ∧
      ∀ c v, o0.va.get? c = some v → (o.va.get? c = some v ∨ o.va.get? c = some (truncVA cfg v)) := by
  have key := run_invariant_rounds env cfg (RoundOK env)
    (fun o => o.stage = stageRetired ∧ WFOutcome o ∧ (∀ k, o.defs.get? k = o0.defs.get? k) ∧
      ∀ c v, o0.va.get? c = some v → (o.va.get? c = some v ∨ o.va.get? c = some (truncVA cfg v)))
    (by
      intro r o o' hq ⟨hst, hwf, hdefs, hva⟩ hs
      obtain ⟨o1, h1, h2⟩ := step_ok hs
      obtain ⟨hst1, hd1, hv1⟩ := retired_frozen_step env cfg r.σ hq.1 r.nAos o o1 r.obs hwf.2 h1 hst
      have hwf1 := outcome_wf henv hq.2 hwf h1
      obtain ⟨hst', _, hwd', hwv', hgd, hgv, _⟩ := codecRoundTrip_ok h2 hwf1.1 hwf1.2
      refine ⟨by rw [hst', hst1], ⟨hwd', hwv'⟩, ?_, ?_⟩
      · intro k; rw [hgd k, hd1]; exact hdefs k
      · intro c v hv
        right
        rw [hgv c]
        rcases hva c v hv with h | h
        · rw [hv1 c v h]; rfl
        · rw [hv1 c _ h]; simp [truncVA_idem])
    o0 ⟨hr, hw, fun _ => rfl, fun c v hv => Or.inl hv⟩ rs hrs
  intro o ho
  obtain ⟨h1, _, h3, h4⟩ := key o ho
  exact ⟨h1, h3, h4⟩

/-- **a retired outcome yields exactly one retirement report carrying its validity starts and no
    channel report** -/
theorem retired_reports (cfg : Cfg) (σ : Sched) (encodes : Report → Nat → Bool) (seqNr : Nat) (o : Outcome)
    (hs : 1 < seqNr) (hr : o.stage = stageRetired) :
    reports cfg σ encodes seqNr o = [.retirement { version := cfg.version, va := o.va }] := by
  unfold reports
  rw [if_neg (by omega)]
  have hrc : reportableChannels σ cfg o = [] := by
    unfold reportableChannels
    have : (σ.defsRep o.defs).filterMap (reportableId cfg o) = [] := by
      rw [List.filterMap_eq_nil_iff]
      intro e _
      unfold reportableId isReportable
      simp [hr]
    rw [this]; simp
  simp [hr, hrc]

/-- **specimen marking is exact** and a live instance emits no retirement report: every channel
    report is marked specimen exactly when the stage is not production, and carries the stage -/
theorem specimen_exact (cfg : Cfg) (σ : Sched) (encodes : Report → Nat → Bool) (seqNr : Nat) (o : Outcome) :
    ∀ r ∈ reports cfg σ encodes seqNr o,
      match r with
      | .channel rep _ stage => rep.specimen = (o.stage != stageProduction) ∧ stage = o.stage ∧ rep.obsTs = o.ts
      | .retirement rr => o.stage = stageRetired ∧ rr.va = o.va := by
  intro r hr
  unfold reports at hr
  split at hr
  · cases hr
  · simp only [List.mem_append] at hr
    rcases hr with hr | hr
    · split at hr
      · rename_i hst
        simp only [List.mem_singleton] at hr
        subst hr
        exact ⟨by simpa using hst, rfl⟩
      · cases hr
    · simp only [List.mem_filterMap] at hr
      obtain ⟨cid, _, hcid⟩ := hr
      unfold channelReport at hcid
      split at hcid
      · cases hcid
      · simp only at hcid
        split at hcid
        · cases hcid; exact ⟨rfl, rfl, rfl⟩
        · cases hcid

/-- **a retired instance observes nothing**: its observation carries the clock reading and no
    vote, attestation or stream value -/
theorem retired_observes_nothing (env : Env) (cfg : Cfg) (seqNr : Nat) (prev : Outcome) (nd : Node) (o : Obs)
    (h : observation env cfg seqNr prev nd = .ok (some o)) (hr : prev.stage = stageRetired) :
    o = emptyObs o.ts :=
  (C14.honest_observation_shape env cfg seqNr prev nd o h).2.2.1 hr

end DSV.Props.C05
