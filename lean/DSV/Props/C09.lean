import DSV.Mercury.LemmasHistory
import DSV.Props.C08
/-!
# C09 — Mercury consecutive reports chain without overlap or gap

Property theorems only.  Hypotheses about the injected codec are exactly its Go types and its
contract: `U32Codec` / `I64Codec` — `ObservationTimestampFromReport` returns a `uint32`,
`CurrentBlockNumFromReport` an `int64`; `RoundTrip` — reading the end back from a report the same
codec built returns the end that was put in.  `σ` are map iteration orders.
-/
namespace DSV.Props.C09
open DSV DSV.Mercury

def U32Codec (prevEnd : Bytes → GoRes Int) : Prop := ∀ r t, prevEnd r = .ok t → 0 ≤ t ∧ t ≤ maxUint32
def I64Codec (prevEnd : Bytes → GoRes Int) : Prop :=
  ∀ r m, prevEnd r = .ok m → -(2 : Int) ^ 63 ≤ m ∧ m < (2 : Int) ^ 63

/-- the window `[validFrom, end]` of an emitted report -/
def win1 (rf : V1.RF) : Int × Int := (rf.validFrom, rf.curNum)
def win2 (rf : V2.RF) : Int × Int := (rf.validFrom, rf.ts)
def win3 (rf : V3.RF) : Int × Int := (rf.validFrom, rf.ts)
def win4 (rf : V4.RF) : Int × Int := (rf.validFrom, rf.ts)

/-! ## v2 -/

/-- previous report present: the validity start is exactly one past its observation timestamp -/
theorem v2_validFrom_prev (cfg : Cfg) (codec : Codec V2.RF) (σ : Sched (Int × Nat)) (r : Bytes)
    (aos : List (Option V2.Obs)) (rf : V2.RF) (b : Bytes) (hty : U32Codec codec.prevEnd)
    (h : V2.report cfg codec σ (some r) aos = .ok (some (rf, b))) :
    ∃ t, codec.prevEnd r = .ok t ∧ (rf.validFrom : Int) = t + 1 ∧ rf.validFrom ≤ rf.ts := by
  obtain ⟨_, hb, hov, _⟩ := reportCore_some h
  have hvf := (V2.build_ok hb).2.1
  obtain ⟨t, ht, hv, _⟩ := validFromTs_prev (hty r) hvf
  exact ⟨t, ht, hv, by simpa using hov⟩

/-- the plugin declines — `(false, nil, nil)`, no error — when the new end precedes the start -/
theorem v2_decline_on_overlap (cfg : Cfg) (codec : Codec V2.RF) (σ : Sched (Int × Nat)) (prev : Option Bytes)
    (aos : List (Option V2.Obs)) (rf : V2.RF) (hn : cfg.f + 1 ≤ (V2.parseAll aos).length)
    (hb : V2.buildReportFields cfg codec σ prev (V2.parseAll aos) = .ok (rf, []))
    (hov : rf.ts < rf.validFrom) : V2.report cfg codec σ prev aos = .ok none :=
  reportCore_none.mpr ⟨by omega, hn, rf, hb, by simpa using hov⟩

/-- … and only then -/
theorem v2_decline_only_on_overlap (cfg : Cfg) (codec : Codec V2.RF) (σ : Sched (Int × Nat)) (prev : Option Bytes)
    (aos : List (Option V2.Obs)) (h : V2.report cfg codec σ prev aos = .ok none) :
    ∃ rf, V2.buildReportFields cfg codec σ prev (V2.parseAll aos) = .ok (rf, []) ∧ rf.ts < rf.validFrom := by
  obtain ⟨_, _, rf, hb, hov⟩ := reportCore_none.mp h
  exact ⟨rf, hb, by simpa using hov⟩

/-- bootstrap: with no previous report the start is one past the max finalized timestamp agreed by
    `f+1` observers, or the observation timestamp when they agree that none exists (`-1`); an
    agreed value at or above `MaxUint32` (in particular `MaxInt64`) is an error, never a wrap -/
theorem v2_bootstrap (cfg : Cfg) (codec : Codec V2.RF) (σ : Sched (Int × Nat)) (hσ : IsSched σ) 
    (aos : List (Option V2.Obs)) (rf : V2.RF) (b : Bytes)
    (h : V2.report cfg codec σ none aos = .ok (some (rf, b))) :
    ∃ m, consensusMaxFinalizedTimestamp σ ((V2.parseAll aos).map V2.PAO.getMFT) cfg.f = .ok m ∧
      cfg.f + 1 ≤ (validVals ((V2.parseAll aos).map V2.PAO.getMFT)).count m ∧
      ((m = -1 ∧ rf.validFrom = rf.ts) ∨ (0 ≤ m ∧ m < maxUint32 ∧ (rf.validFrom : Int) = m + 1)) := by
  obtain ⟨_, hb, _⟩ := reportCore_some h
  have hvf := (V2.build_ok hb).2.1
  obtain ⟨m, hm, hcase⟩ := validFromTs_bootstrap hvf
  obtain ⟨hcount, hge⟩ := C08.max_finalized_ts_agreed _ hσ _ cfg.f m hm
  refine ⟨m, hm, hcount, ?_⟩
  rcases hcase with ⟨hneg, hv⟩ | ⟨hnn, hlt, hv⟩
  · exact Or.inl ⟨by omega, hv⟩
  · exact Or.inr ⟨hnn, hlt, hv⟩

/-- over any history in which every emitted report becomes the next round's previous report, the
    windows `[validFrom, observation timestamp]` are adjacent (each starts one past the previous
    end; the first one past the initial previous report's end), non-empty and pairwise disjoint -/
theorem v2_chain (cfg : Cfg) (codec : Codec V2.RF) (σ : Sched (Int × Nat)) (hty : U32Codec codec.prevEnd)
    (hrt : ∀ rf b, codec.build rf = .ok b → codec.prevEnd b = .ok rf.ts)
    (prev : Option Bytes) (rounds : List (List (Option V2.Obs))) :
    let ws := (emitted (runHistory (fun p x => V2.report cfg codec σ p x) prev rounds)).map fun e => win2 e.1
    ChainedFrom (prev.bind (endOf codec.prevEnd)) ws ∧ (∀ w ∈ ws, w.1 ≤ w.2) ∧
      ws.Pairwise (fun a b => a.2 < b.1) := by
  intro ws
  have hchain : ChainedFrom (prev.bind (endOf codec.prevEnd)) ws := by
    apply runHistory_chained (fun p x => V2.report cfg codec σ p x) win2 (endOf codec.prevEnd)
    · intro r x rf b h
      obtain ⟨t, ht, hv, _⟩ := v2_validFrom_prev cfg codec σ r x rf b hty h
      exact ⟨t, by simp [endOf, ht], hv⟩
    · intro p x rf b h
      obtain ⟨_, _, _, _, hbuild, _⟩ := reportCore_some h
      simp [endOf, hrt rf b hbuild, win2]
  have hne : ∀ w ∈ ws, w.1 ≤ w.2 := by
    intro w hw
    obtain ⟨e, he, rfl⟩ := List.mem_map.mp hw
    obtain ⟨p, x, _, hs⟩ := mem_emitted_runHistory he
    obtain ⟨_, _, hov, _⟩ := reportCore_some hs
    simp only [win2]
    have : ¬ e.1.ts < e.1.validFrom := by simpa using hov
    omega
  exact ⟨hchain, hne, chainedFrom_disjoint hne hchain⟩

/-! ## v3 -/

/-- previous report present: the validity start is exactly one past its observation timestamp -/
theorem v3_validFrom_prev (cfg : Cfg) (codec : Codec V3.RF) (σ : Sched (Int × Nat)) (r : Bytes)
    (aos : List (Option V3.Obs)) (rf : V3.RF) (b : Bytes) (hty : U32Codec codec.prevEnd)
    (h : V3.report cfg codec σ (some r) aos = .ok (some (rf, b))) :
    ∃ t, codec.prevEnd r = .ok t ∧ (rf.validFrom : Int) = t + 1 ∧ rf.validFrom ≤ rf.ts := by
  obtain ⟨_, hb, hov, _⟩ := reportCore_some h
  have hvf := (V3.build_ok hb).2.1
  obtain ⟨t, ht, hv, _⟩ := validFromTs_prev (hty r) hvf
  exact ⟨t, ht, hv, by simpa using hov⟩

/-- the plugin declines — `(false, nil, nil)`, no error — when the new end precedes the start -/
theorem v3_decline_on_overlap (cfg : Cfg) (codec : Codec V3.RF) (σ : Sched (Int × Nat)) (prev : Option Bytes)
    (aos : List (Option V3.Obs)) (rf : V3.RF) (hn : cfg.f + 1 ≤ (V3.parseAll aos).length)
    (hb : V3.buildReportFields cfg codec σ prev (V3.parseAll aos) = .ok (rf, []))
    (hov : rf.ts < rf.validFrom) : V3.report cfg codec σ prev aos = .ok none :=
  reportCore_none.mpr ⟨by omega, hn, rf, hb, by simpa using hov⟩

/-- … and only then -/
theorem v3_decline_only_on_overlap (cfg : Cfg) (codec : Codec V3.RF) (σ : Sched (Int × Nat)) (prev : Option Bytes)
    (aos : List (Option V3.Obs)) (h : V3.report cfg codec σ prev aos = .ok none) :
    ∃ rf, V3.buildReportFields cfg codec σ prev (V3.parseAll aos) = .ok (rf, []) ∧ rf.ts < rf.validFrom := by
  obtain ⟨_, _, rf, hb, hov⟩ := reportCore_none.mp h
  exact ⟨rf, hb, by simpa using hov⟩

/-- bootstrap: with no previous report the start is one past the max finalized timestamp agreed by
    `f+1` observers, or the observation timestamp when they agree that none exists (`-1`); an
    agreed value at or above `MaxUint32` (in particular `MaxInt64`) is an error, never a wrap -/
theorem v3_bootstrap (cfg : Cfg) (codec : Codec V3.RF) (σ : Sched (Int × Nat)) (hσ : IsSched σ) 
    (aos : List (Option V3.Obs)) (rf : V3.RF) (b : Bytes)
    (h : V3.report cfg codec σ none aos = .ok (some (rf, b))) :
    ∃ m, consensusMaxFinalizedTimestamp σ ((V3.parseAll aos).map V3.PAO.getMFT) cfg.f = .ok m ∧
      cfg.f + 1 ≤ (validVals ((V3.parseAll aos).map V3.PAO.getMFT)).count m ∧
      ((m = -1 ∧ rf.validFrom = rf.ts) ∨ (0 ≤ m ∧ m < maxUint32 ∧ (rf.validFrom : Int) = m + 1)) := by
  obtain ⟨_, hb, _⟩ := reportCore_some h
  have hvf := (V3.build_ok hb).2.1
  obtain ⟨m, hm, hcase⟩ := validFromTs_bootstrap hvf
  obtain ⟨hcount, hge⟩ := C08.max_finalized_ts_agreed _ hσ _ cfg.f m hm
  refine ⟨m, hm, hcount, ?_⟩
  rcases hcase with ⟨hneg, hv⟩ | ⟨hnn, hlt, hv⟩
  · exact Or.inl ⟨by omega, hv⟩
  · exact Or.inr ⟨hnn, hlt, hv⟩

/-- over any history in which every emitted report becomes the next round's previous report, the
    windows `[validFrom, observation timestamp]` are adjacent (each starts one past the previous
    end; the first one past the initial previous report's end), non-empty and pairwise disjoint -/
theorem v3_chain (cfg : Cfg) (codec : Codec V3.RF) (σ : Sched (Int × Nat)) (hty : U32Codec codec.prevEnd)
    (hrt : ∀ rf b, codec.build rf = .ok b → codec.prevEnd b = .ok rf.ts)
    (prev : Option Bytes) (rounds : List (List (Option V3.Obs))) :
    let ws := (emitted (runHistory (fun p x => V3.report cfg codec σ p x) prev rounds)).map fun e => win3 e.1
    ChainedFrom (prev.bind (endOf codec.prevEnd)) ws ∧ (∀ w ∈ ws, w.1 ≤ w.2) ∧
      ws.Pairwise (fun a b => a.2 < b.1) := by
  intro ws
  have hchain : ChainedFrom (prev.bind (endOf codec.prevEnd)) ws := by
    apply runHistory_chained (fun p x => V3.report cfg codec σ p x) win3 (endOf codec.prevEnd)
    · intro r x rf b h
      obtain ⟨t, ht, hv, _⟩ := v3_validFrom_prev cfg codec σ r x rf b hty h
      exact ⟨t, by simp [endOf, ht], hv⟩
    · intro p x rf b h
      obtain ⟨_, _, _, _, hbuild, _⟩ := reportCore_some h
      simp [endOf, hrt rf b hbuild, win3]
  have hne : ∀ w ∈ ws, w.1 ≤ w.2 := by
    intro w hw
    obtain ⟨e, he, rfl⟩ := List.mem_map.mp hw
    obtain ⟨p, x, _, hs⟩ := mem_emitted_runHistory he
    obtain ⟨_, _, hov, _⟩ := reportCore_some hs
    simp only [win3]
    have : ¬ e.1.ts < e.1.validFrom := by simpa using hov
    omega
  exact ⟨hchain, hne, chainedFrom_disjoint hne hchain⟩

/-! ## v4 -/

/-- previous report present: the validity start is exactly one past its observation timestamp -/
theorem v4_validFrom_prev (cfg : Cfg) (codec : Codec V4.RF) (σ : V4.Scheds) (r : Bytes)
    (aos : List (Option V4.Obs)) (rf : V4.RF) (b : Bytes) (hty : U32Codec codec.prevEnd)
    (h : V4.report cfg codec σ (some r) aos = .ok (some (rf, b))) :
    ∃ t, codec.prevEnd r = .ok t ∧ (rf.validFrom : Int) = t + 1 ∧ rf.validFrom ≤ rf.ts := by
  obtain ⟨_, hb, hov, _⟩ := reportCore_some h
  have hvf := (V4.build_ok hb).2.1
  obtain ⟨t, ht, hv, _⟩ := validFromTs_prev (hty r) hvf
  exact ⟨t, ht, hv, by simpa using hov⟩

/-- the plugin declines — `(false, nil, nil)`, no error — when the new end precedes the start -/
theorem v4_decline_on_overlap (cfg : Cfg) (codec : Codec V4.RF) (σ : V4.Scheds) (prev : Option Bytes)
    (aos : List (Option V4.Obs)) (rf : V4.RF) (hn : cfg.f + 1 ≤ (V4.parseAll aos).length)
    (hb : V4.buildReportFields cfg codec σ prev (V4.parseAll aos) = .ok (rf, []))
    (hov : rf.ts < rf.validFrom) : V4.report cfg codec σ prev aos = .ok none :=
  reportCore_none.mpr ⟨by omega, hn, rf, hb, by simpa using hov⟩

/-- … and only then -/
theorem v4_decline_only_on_overlap (cfg : Cfg) (codec : Codec V4.RF) (σ : V4.Scheds) (prev : Option Bytes)
    (aos : List (Option V4.Obs)) (h : V4.report cfg codec σ prev aos = .ok none) :
    ∃ rf, V4.buildReportFields cfg codec σ prev (V4.parseAll aos) = .ok (rf, []) ∧ rf.ts < rf.validFrom := by
  obtain ⟨_, _, rf, hb, hov⟩ := reportCore_none.mp h
  exact ⟨rf, hb, by simpa using hov⟩

/-- bootstrap: with no previous report the start is one past the max finalized timestamp agreed by
    `f+1` observers, or the observation timestamp when they agree that none exists (`-1`); an
    agreed value at or above `MaxUint32` (in particular `MaxInt64`) is an error, never a wrap -/
theorem v4_bootstrap (cfg : Cfg) (codec : Codec V4.RF) (σ : V4.Scheds) (hσ : σ.IsSched) 
    (aos : List (Option V4.Obs)) (rf : V4.RF) (b : Bytes)
    (h : V4.report cfg codec σ none aos = .ok (some (rf, b))) :
    ∃ m, consensusMaxFinalizedTimestamp σ.mft ((V4.parseAll aos).map V4.PAO.getMFT) cfg.f = .ok m ∧
      cfg.f + 1 ≤ (validVals ((V4.parseAll aos).map V4.PAO.getMFT)).count m ∧
      ((m = -1 ∧ rf.validFrom = rf.ts) ∨ (0 ≤ m ∧ m < maxUint32 ∧ (rf.validFrom : Int) = m + 1)) := by
  obtain ⟨_, hb, _⟩ := reportCore_some h
  have hvf := (V4.build_ok hb).2.1
  obtain ⟨m, hm, hcase⟩ := validFromTs_bootstrap hvf
  obtain ⟨hcount, hge⟩ := C08.max_finalized_ts_agreed _ hσ.1 _ cfg.f m hm
  refine ⟨m, hm, hcount, ?_⟩
  rcases hcase with ⟨hneg, hv⟩ | ⟨hnn, hlt, hv⟩
  · exact Or.inl ⟨by omega, hv⟩
  · exact Or.inr ⟨hnn, hlt, hv⟩

/-- over any history in which every emitted report becomes the next round's previous report, the
    windows `[validFrom, observation timestamp]` are adjacent (each starts one past the previous
    end; the first one past the initial previous report's end), non-empty and pairwise disjoint -/
theorem v4_chain (cfg : Cfg) (codec : Codec V4.RF) (σ : V4.Scheds) (hty : U32Codec codec.prevEnd)
    (hrt : ∀ rf b, codec.build rf = .ok b → codec.prevEnd b = .ok rf.ts)
    (prev : Option Bytes) (rounds : List (List (Option V4.Obs))) :
    let ws := (emitted (runHistory (fun p x => V4.report cfg codec σ p x) prev rounds)).map fun e => win4 e.1
    ChainedFrom (prev.bind (endOf codec.prevEnd)) ws ∧ (∀ w ∈ ws, w.1 ≤ w.2) ∧
      ws.Pairwise (fun a b => a.2 < b.1) := by
  intro ws
  have hchain : ChainedFrom (prev.bind (endOf codec.prevEnd)) ws := by
    apply runHistory_chained (fun p x => V4.report cfg codec σ p x) win4 (endOf codec.prevEnd)
    · intro r x rf b h
      obtain ⟨t, ht, hv, _⟩ := v4_validFrom_prev cfg codec σ r x rf b hty h
      exact ⟨t, by simp [endOf, ht], hv⟩
    · intro p x rf b h
      obtain ⟨_, _, _, _, hbuild, _⟩ := reportCore_some h
      simp [endOf, hrt rf b hbuild, win4]
  have hne : ∀ w ∈ ws, w.1 ≤ w.2 := by
    intro w hw
    obtain ⟨e, he, rfl⟩ := List.mem_map.mp hw
    obtain ⟨p, x, _, hs⟩ := mem_emitted_runHistory he
    obtain ⟨_, _, hov, _⟩ := reportCore_some hs
    simp only [win4]
    have : ¬ e.1.ts < e.1.validFrom := by simpa using hov
    omega
  exact ⟨hchain, hne, chainedFrom_disjoint hne hchain⟩

/-! ## v1 (block numbers, `int64`) -/

/-- previous report present: the start is exactly one past its current block number.  The `int64`
    addition cannot have wrapped in an emitted report: a wrapped value is negative and
    `ValidateCurrentBlock` rejects it. -/
theorem v1_validFrom_prev (cfg : Cfg) (codec : Codec V1.RF) (σ : V1.Scheds) (r : Bytes)
    (aos : List (Option V1.Obs)) (rf : V1.RF) (b : Bytes) (hty : I64Codec codec.prevEnd)
    (h : V1.report cfg codec σ (some r) aos = .ok (some (rf, b))) :
    ∃ m, codec.prevEnd r = .ok m ∧ rf.validFrom = m + 1 ∧ rf.validFrom ≤ rf.curNum := by
  obtain ⟨_, hb, hov, hv, _⟩ := reportCore_some h
  have hvf := (V1.build_ok hb).1
  simp only [V1.validFromBlock] at hvf
  have hval : 0 ≤ rf.validFrom := by
    simp only [V1.validateReport] at hv
    have h4 := (tags_nil2 hv).2
    simp only [tagIf_nil, Bool.not_eq_false'] at h4
    unfold V1.validateCurrentBlock at h4
    split at h4
    · cases h4
    · omega
  split at hvf
  · rename_i m hm
    injection hvf with hvf
    injection hvf with hvf _
    obtain ⟨h0, h1⟩ := hty r m hm
    refine ⟨m, hm, ?_, by simpa using hov⟩
    by_cases hmax : m + 1 < (2 : Int) ^ 63
    · rw [← hvf]; exact wrapInt64_of_range (by omega) hmax
    · exfalso
      have : m + 1 = (2 : Int) ^ 63 := by omega
      rw [this] at hvf
      have : wrapInt64 ((2 : Int) ^ 63) = -(2 : Int) ^ 63 := by decide
      omega
  · simp at hvf
  · simp at hvf

theorem v1_decline_on_overlap (cfg : Cfg) (codec : Codec V1.RF) (σ : V1.Scheds) (prev : Option Bytes)
    (aos : List (Option V1.Obs)) (rf : V1.RF) (hn : cfg.f + 1 ≤ (V1.parseAll aos).length)
    (hb : V1.buildReportFields cfg codec σ prev (V1.parseAll aos) = .ok (rf, []))
    (hov : rf.curNum < rf.validFrom) : V1.report cfg codec σ prev aos = .ok none :=
  reportCore_none.mpr ⟨by omega, hn, rf, hb, by simpa using hov⟩

theorem v1_decline_only_on_overlap (cfg : Cfg) (codec : Codec V1.RF) (σ : V1.Scheds) (prev : Option Bytes)
    (aos : List (Option V1.Obs)) (h : V1.report cfg codec σ prev aos = .ok none) :
    ∃ rf, V1.buildReportFields cfg codec σ prev (V1.parseAll aos) = .ok (rf, []) ∧ rf.curNum < rf.validFrom := by
  obtain ⟨_, _, rf, hb, hov⟩ := reportCore_none.mp h
  exact ⟨rf, hb, by simpa using hov⟩

/-- bootstrap: the start is one past the max finalized block number agreed by `f+1` observers
    (`-1` = none, giving start 0); holds for every `int64` input -/
theorem v1_bootstrap (cfg : Cfg) (codec : Codec V1.RF) (σ : V1.Scheds) (hσ : σ.IsSched)
    (aos : List (Option V1.Obs)) (rf : V1.RF) (b : Bytes)
    (hint : ∀ p ∈ V1.parseAll aos, -(2 : Int) ^ 63 ≤ p.mfbn ∧ p.mfbn < (2 : Int) ^ 63)
    (h : V1.report cfg codec σ none aos = .ok (some (rf, b))) :
    ∃ m, V1.consensusMaxFinalizedBlockNum σ.mfbn ((V1.parseAll aos).map fun p => (p.mfbn, p.mfbnValid)) cfg.f = .ok m ∧
      cfg.f + 1 ≤ (validVals ((V1.parseAll aos).map fun p => (p.mfbn, p.mfbnValid))).count m ∧
      rf.validFrom = m + 1 := by
  obtain ⟨_, hb, _, hv, _⟩ := reportCore_some h
  have hvf := (V1.build_ok hb).1
  have hval : 0 ≤ rf.validFrom := by
    simp only [V1.validateReport] at hv
    have h4 := (tags_nil2 hv).2
    simp only [tagIf_nil, Bool.not_eq_false'] at h4
    unfold V1.validateCurrentBlock at h4
    split at h4
    · cases h4
    · omega
  cases hm : V1.consensusMaxFinalizedBlockNum σ.mfbn ((V1.parseAll aos).map fun p => (p.mfbn, p.mfbnValid)) cfg.f with
  | ok m =>
    rw [hm] at hvf
    simp only [V1.validFromBlock] at hvf
    injection hvf with hvf
    injection hvf with hvf _
    have hcount := C08.max_finalized_blocknum_agreed _ hσ.1 _ cfg.f m hm
    refine ⟨m, rfl, hcount, ?_⟩
    have hmem : m ∈ validVals ((V1.parseAll aos).map fun p => (p.mfbn, p.mfbnValid)) :=
      List.count_pos_iff.mp (by omega)
    obtain ⟨p, hp, heq⟩ := List.mem_map.mp (mem_validVals.mp hmem)
    simp only [Prod.mk.injEq] at heq
    obtain ⟨h0, h1⟩ := hint p hp
    rw [heq.1] at h0 h1
    by_cases hmax : m + 1 < (2 : Int) ^ 63
    · rw [← hvf]; exact wrapInt64_of_range (by omega) hmax
    · exfalso
      have : m + 1 = (2 : Int) ^ 63 := by omega
      rw [this] at hvf
      have : wrapInt64 ((2 : Int) ^ 63) = -(2 : Int) ^ 63 := by decide
      omega
  | err c => rw [hm] at hvf; simp [V1.validFromBlock] at hvf
  | panic => rw [hm] at hvf; simp [V1.validFromBlock] at hvf

theorem v1_chain (cfg : Cfg) (codec : Codec V1.RF) (σ : V1.Scheds) (hty : I64Codec codec.prevEnd)
    (hrt : ∀ rf b, codec.build rf = .ok b → codec.prevEnd b = .ok rf.curNum)
    (prev : Option Bytes) (rounds : List (List (Option V1.Obs))) :
    let ws := (emitted (runHistory (fun p x => V1.report cfg codec σ p x) prev rounds)).map fun e => win1 e.1
    ChainedFrom (prev.bind (endOf codec.prevEnd)) ws ∧ (∀ w ∈ ws, w.1 ≤ w.2) ∧
      ws.Pairwise (fun a b => a.2 < b.1) := by
  intro ws
  have hchain : ChainedFrom (prev.bind (endOf codec.prevEnd)) ws := by
    apply runHistory_chained (fun p x => V1.report cfg codec σ p x) win1 (endOf codec.prevEnd)
    · intro r x rf b h
      obtain ⟨m, hm, hv, _⟩ := v1_validFrom_prev cfg codec σ r x rf b hty h
      exact ⟨m, by simp [endOf, hm], hv⟩
    · intro p x rf b h
      obtain ⟨_, _, _, _, hbuild, _⟩ := reportCore_some h
      simp [endOf, hrt rf b hbuild, win1]
  have hne : ∀ w ∈ ws, w.1 ≤ w.2 := by
    intro w hw
    obtain ⟨e, he, rfl⟩ := List.mem_map.mp hw
    obtain ⟨p, x, _, hs⟩ := mem_emitted_runHistory he
    obtain ⟨_, _, hov, _⟩ := reportCore_some hs
    simp only [win1]
    have : ¬ e.1.curNum < e.1.validFrom := by simpa using hov
    omega
  exact ⟨hchain, hne, chainedFrom_disjoint hne hchain⟩

/-! ## the type-maximum boundaries are errors, and non-vacuity -/

/-- K5 (repaired in the tree, commit 489eb6c; v2–v4 share `validFromTs`): when the agreed max
    finalized timestamp is `MaxInt64` — or anything at or above `MaxUint32` — an error is joined;
    the former `maxFinalizedTimestamp + 1` no longer wraps to `validFrom = 0` -/
theorem bootstrap_too_large_is_error (codec : Bytes → GoRes Int) (ts : Nat) (m : Int) (h : maxUint32 ≤ m) :
    validFromTs codec none ts (.ok m) = .ok (0, true) := by
  have h0 : ¬ m < 0 := by simp only [maxUint32] at h; omega
  simp only [validFromTs]
  rw [if_neg h0, if_pos (by exact h)]

theorem bootstrap_max_int64_is_error (codec : Bytes → GoRes Int) (ts : Nat) :
    validFromTs codec none ts (.ok ((2 : Int) ^ 63 - 1)) = .ok (0, true) :=
  bootstrap_too_large_is_error codec ts _ (by simp [maxUint32])

/-- with the previous timestamp at `MaxUint32` the plugin returns an error (it used to wrap to 0) -/
theorem prev_max_uint32_is_error (codec : Bytes → GoRes Int) (r : Bytes) (ts : Nat) (mft : GoRes Int)
    (h : codec r = .ok maxUint32) : validFromTs codec (some r) ts mft = .ok (0, true) := by
  simp [validFromTs, h]

/-- non-vacuity of the codec hypotheses of `vN_chain`: a codec that writes the timestamp as the
    length of the report (and refuses timestamps beyond uint32) satisfies both -/
def lenCodec2 : Codec V2.RF :=
  ⟨fun rf => if rf.ts ≤ maxUint32 then .ok (List.replicate (rf.ts + 1) 0) else .err "codec",
   fun b => if b.length - 1 ≤ maxUint32 then .ok ((b.length - 1 : Nat) : Int) else .err "codec-prev", 5000000000⟩

example : U32Codec lenCodec2.prevEnd ∧ (∀ rf b, lenCodec2.build rf = .ok b → lenCodec2.prevEnd b = .ok rf.ts) := by
  constructor
  · intro r t h
    simp only [lenCodec2] at h
    split at h
    · cases h; omega
    · cases h
  · intro rf b h
    simp only [lenCodec2] at h ⊢
    split at h
    · rename_i hle
      cases h
      simp only [List.length_replicate, Nat.add_sub_cancel]
      rw [if_pos hle]
    · cases h

/-- non-vacuity: adjacent windows exist and `ChainedFrom` / disjointness are not trivially true -/
example : ChainedFrom (some 9) [(10, 12), (13, 13), (14, 20)] := by simp [ChainedFrom]
example : ¬ ChainedFrom (some 9) [(10, 12), (14, 15)] := by simp [ChainedFrom]

end DSV.Props.C09
