import DSV.Cost.Wire
import DSV.Cost.Decimal
import DSV.Cost.Validate
import DSV.Lemmas.CostWire
import DSV.Lemmas.CostDecimal
import DSV.Lemmas.CostValidate
import DSV.Cost.Errors
import DSV.Lemmas.CostErrors
import DSV.Cost.AggLoop
import DSV.Lemmas.CostAggLoop
/-!
# C19 — work per round is bounded by input size, even for adversarial values  (*partial*)

Property theorems only, about the **cost semantics** of `DSV/Cost/*`:
`Out.cost` counts bytes scanned, copied or formatted by the byte-level decoders of stream values;
`rescaleCost` / `cmpCost` / `bigIntCost` count decimal digits of the big integers that
`shopspring/decimal` reads or writes.

What a model cannot exhibit — real CPU time, the allocator, the garbage collector — is *measured*
by the harness around the real calls (`harness/cost*.go`); the verdict there is taken from the
property text (> 2 s CPU or > 1 GiB allocated for an input ≤ 1 MiB is a violation).

Full statement of the property (kept here, **not** proved as such): for every observation byte
string ≤ 1 MiB, `ValidateObservation` costs at most `a·|b| + c` *CPU time and memory*, and so do
`Outcome` / `Reports` on validated observations.  Proved below: the linear bound for the cost
model of decoding/validation (with the nesting limit), why the limit is needed, and the bound
`g(E, digits)` for decimal comparison — which is linear only in the *magnitude of the exponents*,
not in the input size: `F2_witness` is the known finding that a 6-byte decimal costs ≥ 2^31.
-/
namespace DSV.Props.C19
open DSV DSV.Cost DSV.LLO

/-! ## decoding -/

/-- **With the nesting limit `L`, decoding any stream value costs at most `(2L+9)·|b| + 3`**
    (`UnmarshalProtoStreamValue` of type `typ` on *any* byte string `b`, well-formed or not). -/
theorem decode_cost_linear (L typ : Nat) (b : Bytes) :
    (svDecode (some L) typ b).cost ≤ (2 * L + 9) * b.length + 3 :=
  svDecode_cost L typ b

/-- the same for the recursive entry point at any depth and with any fuel -/
theorem tsv_decode_cost_linear (L fuel depth : Nat) (b : Bytes) :
    (tsvDecode (some L) fuel depth b).cost ≤ (2 * (L - depth) + 9) * b.length + 3 :=
  tsvDecode_cost L fuel depth b

/-- **Why the limit matters (D7).**  Without it, the `d`-fold nested timestamped value
    `nestBytes d` (at most `12 + 24·d` bytes) costs at least `(d+1)²`: every level re-scans the
    remainder.  (`12 + 24·d < 2^63` only says that lengths fit the 9-byte varints of the model.) -/
theorem decode_cost_quadratic_without_limit (d : Nat) (h : 12 + 24 * d < 128 ^ 9) :
    (nestBytes d).length ≤ 12 + 24 * d ∧
    (d + 1) * (d + 1) ≤ (svDecode none 2 (nestBytes d)).cost := by
  have hl := nestBytes_length d h
  refine ⟨hl.2, ?_⟩
  have := tsvDecode_nest_scan d ((nestBytes d).length + 1) 0 h (by omega)
  simp only [svDecode, if_true, Out.cost]
  omega

/-- hence no linear bound holds without the limit: for all coefficients `a`, `c` (below the
    varint range of the model) some input costs more than `a·|b| + c` -/
theorem decode_cost_superlinear_without_limit (a c : Nat) (h : 12 + 24 * (24 * a + c) < 128 ^ 9) :
    ∃ b : Bytes, a * b.length + c < (svDecode none 2 b).cost := by
  refine ⟨nestBytes (24 * a + c), ?_⟩
  obtain ⟨hlen, hcost⟩ := decode_cost_quadratic_without_limit (24 * a + c) h
  have h1 : a * (nestBytes (24 * a + c)).length ≤ a * (12 + 24 * (24 * a + c)) := Nat.mul_le_mul_left _ hlen
  -- (D)·(D) with D = 24a + c + 1 dominates a·(12 + 24(D−1)) + c
  have e : (24 * a + c + 1) * (24 * a + c + 1)
      = a * (12 + 24 * (24 * a + c)) + 12 * a + (c + 1) * (24 * a + c) + c + 1 := by
    simp only [Nat.add_mul, Nat.mul_add, Nat.mul_one, Nat.one_mul]
    have x1 : a * (24 * (24 * a)) = 24 * a * (24 * a) := by
      simp only [Nat.mul_comm, Nat.mul_left_comm]
    have x2 : a * (24 * c) = 24 * a * c := by
      simp only [Nat.mul_comm, Nat.mul_left_comm]
    have x3 : c * (24 * a) = 24 * a * c := by
      simp only [Nat.mul_comm, Nat.mul_left_comm]
    have x4 : a * 12 = 12 * a := Nat.mul_comm _ _
    omega
  omega

/-- with the limit, the same family is cheap: the decoder stops at level `L + 1` -/
theorem nested_family_linear_with_limit (L d : Nat) :
    (svDecode (some L) 2 (nestBytes d)).cost ≤ (2 * L + 9) * (nestBytes d).length + 3 :=
  decode_cost_linear L 2 _

/-! ## validation -/

/-- **`ValidateObservation` over any number of stream values costs at most `(2L+16)·|b| + 1`**
    in the cost model: the count limits come after decoding and are not needed for the bound. -/
theorem validate_cost_linear (L : Nat) (o : ObsShape) (h : o.WF) :
    validateCost (some L) o ≤ (2 * L + 16) * o.total + 1 := by
  have hs := entries_cost_le L o.entries
  have hm : (2 * L + 10) * (o.entries.map (fun e => e.length + 4)).sum ≤ (2 * L + 10) * o.total :=
    Nat.mul_le_mul_left _ h
  have e : (2 * L + 16) * o.total = (2 * L + 10) * o.total + 6 * o.total := by
    rw [show 2 * L + 16 = (2 * L + 10) + 6 by omega, Nat.add_mul]
  unfold validateCost
  omega

/-- without the limit one stream value makes validation super-linear as well -/
theorem validate_cost_quadratic_without_limit (d : Nat) (h : 36 + 24 * (d + 1) < 128 ^ 9) :
    (singleEntry (wrapSV (nestBytes d))).WF ∧
    (d + 1) * (d + 1) ≤ validateCost none (singleEntry (wrapSV (nestBytes d))) := by
  constructor
  · simp [ObsShape.WF, singleEntry]
  · have hl := nestBytes_length d (by omega)
    have hq := (decode_cost_quadratic_without_limit d (by omega)).2
    have hp := parseSVInto_wrapSV (nestBytes d) (by omega)
    simp only [validateCost, singleEntry, List.map_cons, List.map_nil, List.sum_cons, List.sum_nil, entryCost, hp]
    omega

/-! ## errors joined in a loop and then formatted (K6) -/

/-- **Joined once** (the repaired `VerifyChannelDefinitions`): formatting costs exactly the total
    text plus one separator per error — at most `(M+1)·n` for `n` errors of at most `M` bytes. -/
theorem verify_error_cost_linear (M : Nat) (ls : List Nat) (h : ∀ l ∈ ls, l ≤ M) :
    formatOnce ls = ls.sum + ls.length ∧ formatOnce ls ≤ (M + 1) * ls.length :=
  ⟨formatOnce_eq ls, formatOnce_le M ls h⟩

/-- **Joined one by one** (the old shape, and `buildPayload` of the EVM codec): `n` errors, however
    short, cost at least `n²/2` — every level re-copies the text of all earlier levels. -/
theorem verify_error_cost_quadratic_nested_witness (n l : Nat) :
    n * n ≤ 2 * formatNested (List.replicate n l) := by
  have := nested_replicate l n 0 0
  simp only [Nat.mul_zero, Nat.add_zero, Nat.zero_add] at this
  exact this

/-- the two shapes produce the same text; only the cost differs: for `n ≥ 2·(M+1)` errors of `M`
    bytes the nested shape is strictly more expensive -/
theorem nested_dearer_than_once (n M : Nat) (h : 2 * (M + 1) < n) :
    formatOnce (List.replicate n M) < formatNested (List.replicate n M) := by
  have h1 := (verify_error_cost_linear M (List.replicate n M) (by intro l hl; rw [List.eq_of_mem_replicate hl]; omega)).2
  have h2 := verify_error_cost_quadratic_nested_witness n M
  rw [List.length_replicate] at h1
  have h3 : 2 * ((M + 1) * n) < n * n := by
    rw [← Nat.mul_assoc]; exact Nat.mul_lt_mul_of_pos_right h (by omega)
  omega

/-! ## the stream-aggregation loop of `outcome()` (K8) -/

/-- **With the attempted set** (the repaired `outcome()`): over any list of mentions the loop costs one
    lookup per mention plus ONE aggregator run per distinct pair it ran — `tried` has no duplicates and
    holds only mentioned pairs — whether or not the aggregations succeed.  With every run costing at
    most `C` and `k` distinct pairs mentioned that is at most `|mentions| + k·C`: a sum, not a product. -/
theorem agg_loop_cost_linear (e : AggLoop.Env) (ms : List Nat) :
    (AggLoop.run true e ms).tried.Nodup
    ∧ (∀ p ∈ (AggLoop.run true e ms).tried, p ∈ ms)
    ∧ (AggLoop.run true e ms).cost = ms.length + ((AggLoop.run true e ms).tried.map e.c).sum :=
  let h := AggLoop.run_inv e ms
  ⟨h.nodup, h.sub, h.cost_eq⟩

/-- **Without it** (defect K8): `n` mentions of one pair whose aggregation fails cost `n·(1 + c)` —
    the cost of one run (set by the longest value a single observer sent) times the number of
    mentions (set by the channel definitions): a product of two input sizes. -/
theorem agg_loop_cost_product_without_memo (e : AggLoop.Env) (p n : Nat) (hf : e.succ p = false) :
    (AggLoop.run false e (List.replicate n p)).cost = n * (1 + e.c p) := by
  have := (AggLoop.foldl_replicate_failing e p n hf {} (by simp)).1
  simpa [AggLoop.run] using this

/-- the same mentions with the attempted set: `n + c` -/
theorem agg_loop_cost_sum_with_memo (e : AggLoop.Env) (p n : Nat) (hn : 0 < n) :
    (AggLoop.run true e (List.replicate n p)).cost = n + e.c p := by
  obtain ⟨hnd, hsub, hc⟩ := agg_loop_cost_linear e (List.replicate n p)
  have hall : ∀ q ∈ (AggLoop.run true e (List.replicate n p)).tried, q = p :=
    fun q hq => List.eq_of_mem_replicate (hsub q hq)
  -- the first mention runs the aggregator, so `tried` is exactly `[p]`
  have hne : (AggLoop.run true e (List.replicate n p)).tried ≠ [] := by
    obtain ⟨m, rfl⟩ : ∃ m, n = m + 1 := ⟨n - 1, by omega⟩
    have hfirst : ∀ (ms : List Nat) (s : AggLoop.St), s.tried ≠ [] → (ms.foldl (AggLoop.step true e) s).tried ≠ [] := by
      intro ms
      induction ms with
      | nil => intro s h; exact h
      | cons q ms ih =>
        intro s h
        apply ih
        unfold AggLoop.step
        split
        · exact h
        · split
          · exact h
          · simp
    rw [AggLoop.run, List.replicate_succ, List.foldl_cons]
    apply hfirst
    rw [AggLoop.step_run true e {} p (by simp) (Or.inr (by simp))]
    simp
  have htr : (AggLoop.run true e (List.replicate n p)).tried = [p] := by
    match hm : (AggLoop.run true e (List.replicate n p)).tried, hne with
    | [q], _ => rw [hall q (by rw [hm]; simp)]
    | q :: r :: t, _ =>
      rw [hm] at hnd hall
      have h1 := hall q (by simp)
      have h2 := hall r (by simp)
      rw [h1, h2] at hnd
      simp at hnd
  rw [hc, htr]
  simp

/-- the repair changes no result: both loops store exactly the same aggregates, in the same order -/
theorem agg_loop_same_aggregates (e : AggLoop.Env) (ms : List Nat) :
    (AggLoop.run true e ms).stored = (AggLoop.run false e ms).stored :=
  (AggLoop.foldl_sim e ms {} {} ⟨rfl, by simp⟩).stored_eq

/-- the K8 witness in numbers: 2 000 mentions of a pair whose aggregation fails at 900 000 units a
    run cost 1.8·10⁹ units without the attempted set and 902 000 with it -/
example : (AggLoop.run false ⟨fun _ => false, fun _ => 900000⟩ (List.replicate 2000 7)).cost = 2000 * 900001
    ∧ (AggLoop.run true ⟨fun _ => false, fun _ => 900000⟩ (List.replicate 2000 7)).cost = 902000 :=
  ⟨agg_loop_cost_product_without_memo _ 7 2000 rfl, agg_loop_cost_sum_with_memo _ 7 2000 (by decide)⟩

/-! ## decimal comparison and conversion -/

/-- the cost really counts the materialised power: `rescale` to a different exponent costs at
    least the digits of `10^|Δexp|` -/
theorem rescale_counts_power (d : Dec) (e : Int) (h : e ≠ d.exp) :
    numDigits (10 ^ (e - d.exp).natAbs) ≤ rescaleCost d e := by
  rw [numDigits_pow10]
  unfold rescaleCost
  rw [if_neg h]
  omega

/-- `rescale` is linear in the exponent gap and the digits of the coefficient -/
theorem rescale_cost_bound (d : Dec) (e : Int) :
    rescaleCost d e ≤ 2 * digitsOf d.coef + 2 * (e - d.exp).natAbs + 1 := by
  have := digitsOf_rescale_le d e
  unfold rescaleCost
  split <;> omega

/-- **`Cmp` is bounded by `g(E, digits) = 4·E + 1 + 2·(digits a + digits b)`** when both exponents
    are within `±E` — linear in the exponent *magnitude*, which the wire format allows to be 2^31
    for a 6-byte value. -/
theorem cmp_cost_bound (E : Nat) (a b : Dec) (ha : a.exp.natAbs ≤ E) (hb : b.exp.natAbs ≤ E) :
    cmpCost a b ≤ 4 * E + 1 + 2 * (digitsOf a.coef + digitsOf b.coef) := by
  have i1 : ∀ x y : Int, intCmpCost x y ≤ digitsOf x := fun x y => Nat.min_le_left _ _
  have i2 : ∀ x y : Int, intCmpCost x y ≤ digitsOf y := fun x y => Nat.min_le_right _ _
  unfold cmpCost
  split
  · have := i1 a.coef b.coef; omega
  · split
    · have r := rescale_cost_bound b a.exp
      have c := i1 a.coef (b.rescale a.exp).coef
      omega
    · have r := rescale_cost_bound a b.exp
      have c := i2 (a.rescale b.exp).coef b.coef
      omega

/-- `BigInt()` (used by every EVM encoder through `applyMultiplier`) -/
theorem bigInt_cost_bound (E : Nat) (d : Dec) (hd : d.exp.natAbs ≤ E) :
    bigIntCost d ≤ 2 * digitsOf d.coef + 2 * E + 1 := by
  have := rescale_cost_bound d 0
  unfold bigIntCost
  omega

/-- **F2 (known finding).**  The decimal with coefficient 1 and exponent 2^31 − 1 is 6 bytes on
    the wire, and comparing it with `1` — or converting it to an integer — costs at least 2^31
    digit operations: the input size does not bound the work. -/
theorem F2_witness :
    (Dec.marshalBinary f2Witness).length = 6
    ∧ 2 ^ 31 ≤ cmpCost f2Witness ⟨1, 0⟩
    ∧ 2 ^ 31 ≤ cmpCost ⟨1, 0⟩ f2Witness
    ∧ 2 ^ 31 ≤ bigIntCost f2Witness := by
  have hexp : f2Witness.exp = 2147483647 := rfl
  have hne : (0 : Int) ≠ f2Witness.exp := by rw [hexp]; omega
  have hp := rescale_counts_power f2Witness 0 hne
  rw [numDigits_pow10] at hp
  have hk : ((0 : Int) - f2Witness.exp).natAbs = 2147483647 := by rw [hexp]; omega
  rw [hk] at hp
  have h0 : (⟨1, 0⟩ : Dec).exp = 0 := rfl
  refine ⟨?_, ?_, ?_, ?_⟩
  · have hn : (Dec.natBytesBE 1).length = 1 := by
      rw [Dec.natBytesBE]; simp; rw [Dec.natBytesBE]; simp
    simp [Dec.marshalBinary, Dec.expBytes, Dec.gobInt, f2Witness, hn]
  · unfold cmpCost
    rw [if_neg (by rw [hexp, h0]; omega), if_neg (by rw [hexp, h0]; omega), h0]
    omega
  · unfold cmpCost
    rw [if_neg (by rw [hexp, h0]; omega), if_pos (by rw [hexp, h0]; omega), h0]
    omega
  · exact hp

/-! ## non-vacuity -/

/-- the linear bound is met by real decodes, not only by rejected inputs: one nested level decodes -/
example : let b : Bytes := [8, 1, 18, 16, 8, 2, 18, 12, 8, 1, 18, 8, 18, 6, 0, 0, 0, 0, 2, 1]   -- = nestBytes 1
    (svDecode (some 1) 2 b).isOk = true ∧ (svDecode (some 1) 2 b).cost = 56 := by
  decide
/-- … and two nested levels are refused by the limit after two levels -/
example : let b : Bytes := [8, 1, 18, 24, 8, 2, 18, 20, 8, 1, 18, 16, 8, 2, 18, 12, 8, 1, 18, 8, 18, 6, 0, 0, 0, 0, 2, 1]   -- = nestBytes 2
    (svDecode (some 1) 2 b).isOk = false ∧ (svDecode (some 1) 2 b).levels = 2 ∧ (svDecode none 2 b).isOk = true := by
  decide
/-- the hypothesis of `validate_cost_linear` is satisfiable with a non-empty observation -/
example : (singleEntry (wrapSV (nestBytes 0))).WF := by simp [ObsShape.WF, singleEntry]
/-- the bound of `cmp_cost_bound` is attained up to a constant: gap 4 costs at least 5 -/
example : 5 ≤ cmpCost ⟨1, 4⟩ ⟨1, 0⟩ := by
  have := rescale_counts_power ⟨1, 4⟩ 0 (by decide)
  rw [numDigits_pow10] at this
  unfold cmpCost
  rw [if_neg (by decide), if_neg (by decide)]
  have hk : ((0 : Int) - (4 : Int)).natAbs = 4 := by decide
  simp only [hk] at this
  show 5 ≤ rescaleCost ⟨1, 4⟩ 0 + _
  omega

end DSV.Props.C19
