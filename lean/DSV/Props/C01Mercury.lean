import DSV.Mercury.LemmasSched
/-!
# C01 (Mercury part) — the v1–v4 report is a pure function of (previous report, observations)

Property theorems only.  A Lean function is deterministic by construction; what could make the Go
code non-deterministic is the iteration order of its map ranges, which the model takes as explicit
schedule arguments (`σ`, any permutation of the map's entries at each range site).  The theorems
state that the complete result of `Report` — error class, or the decline, or `shouldReport = true`
with the fields handed to `BuildReport` and the report bytes — is the same for any two schedules,
for every configuration, codec, previous report and ordered observation list; likewise for every
exported consensus selector that ranges over a map.  The plugin structs hold no mutable round
state (the model's `report` has no state argument), which the harness checks by re-evaluating
every case on fresh plugin instances (Sig `C01/mercury-nondeterministic`).
-/
namespace DSV.Props.C01.Mercury
open DSV DSV.Mercury

/-! ## exported selectors that range over a map -/

theorem max_finalized_ts_sched_indep (σ σ' : Sched (Int × Nat)) (hσ : IsSched σ) (hσ' : IsSched σ')
    (vs : List (Int × Bool)) (f : Nat) :
    consensusMaxFinalizedTimestamp σ vs f = consensusMaxFinalizedTimestamp σ' vs f :=
  mft_sched_indep hσ hσ' vs f

theorem max_finalized_blocknum_sched_indep (σ σ' : Sched (Int × Nat)) (hσ : IsSched σ) (hσ' : IsSched σ')
    (vs : List (Int × Bool)) (f : Nat) :
    V1.consensusMaxFinalizedBlockNum σ vs f = V1.consensusMaxFinalizedBlockNum σ' vs f :=
  mfbn_sched_indep hσ hσ' vs f

theorem market_status_sched_indep (σ σ' : Sched (Nat × Nat)) (hσ : IsSched σ) (hσ' : IsSched σ')
    (vs : List (Nat × Bool)) (f : Nat) :
    V4.consensusMarketStatus σ vs f = V4.consensusMarketStatus σ' vs f :=
  ms_sched_indep hσ hσ' vs f

/-- two range sites: the groups by block number and the per-group block counts -/
theorem latest_block_sched_indep (σ σ' : V1.SchedsLB) (hσ : σ.IsSched) (hσ' : σ'.IsSched)
    (paos : List V1.PAO) (f : Nat) :
    V1.consensusLatestBlock σ paos f = V1.consensusLatestBlock σ' paos f :=
  lb_sched_indep hσ hσ' paos f

/-! ## `Report` -/

theorem v1_report_sched_indep (σ σ' : V1.Scheds) (hσ : σ.IsSched) (hσ' : σ'.IsSched) (cfg : Cfg)
    (codec : Codec V1.RF) (prev : Option Bytes) (aos : List (Option V1.Obs)) :
    V1.report cfg codec σ prev aos = V1.report cfg codec σ' prev aos := by
  unfold V1.report
  simp only []
  rw [V1.build_sched_indep cfg codec hσ hσ']

theorem v2_report_sched_indep (σ σ' : Sched (Int × Nat)) (hσ : IsSched σ) (hσ' : IsSched σ') (cfg : Cfg)
    (codec : Codec V2.RF) (prev : Option Bytes) (aos : List (Option V2.Obs)) :
    V2.report cfg codec σ prev aos = V2.report cfg codec σ' prev aos := by
  unfold V2.report
  simp only []
  rw [V2.build_sched_indep cfg codec hσ hσ']

theorem v3_report_sched_indep (σ σ' : Sched (Int × Nat)) (hσ : IsSched σ) (hσ' : IsSched σ') (cfg : Cfg)
    (codec : Codec V3.RF) (prev : Option Bytes) (aos : List (Option V3.Obs)) :
    V3.report cfg codec σ prev aos = V3.report cfg codec σ' prev aos := by
  unfold V3.report
  simp only []
  rw [V3.build_sched_indep cfg codec hσ hσ']

theorem v4_report_sched_indep (σ σ' : V4.Scheds) (hσ : σ.IsSched) (hσ' : σ'.IsSched) (cfg : Cfg)
    (codec : Codec V4.RF) (prev : Option Bytes) (aos : List (Option V4.Obs)) :
    V4.report cfg codec σ prev aos = V4.report cfg codec σ' prev aos := by
  unfold V4.report
  simp only []
  rw [V4.build_sched_indep cfg codec hσ hσ']

/-- hence whole threaded histories do not depend on the schedules either (v2; the schedule may
    even change from call to call, as Go's map order does) -/
theorem v2_history_sched_indep (σ σ' : Sched (Int × Nat)) (hσ : IsSched σ) (hσ' : IsSched σ') (cfg : Cfg)
    (codec : Codec V2.RF) (prev : Option Bytes) (rounds : List (List (Option V2.Obs))) :
    runHistory (fun p x => V2.report cfg codec σ p x) prev rounds =
      runHistory (fun p x => V2.report cfg codec σ' p x) prev rounds := by
  have : (fun p x => V2.report cfg codec σ p x) = (fun p x => V2.report cfg codec σ' p x) := by
    funext p x; exact v2_report_sched_indep σ σ' hσ hσ' cfg codec p x
  rw [this]

/-! ## non-vacuity: a schedule that is not the identity -/

/-- reversing the map entries is a legal schedule and differs from the identity -/
example : IsSched (fun l : List (Int × Nat) => l.reverse) ∧
    (fun l : List (Int × Nat) => l.reverse) [(1, 1), (2, 1)] ≠ id [(1, 1), (2, 1)] :=
  ⟨isSched_reverse, by decide⟩

/-- the v1 / v4 schedule bundles built from it are legal, so the theorems apply to them -/
example : (⟨fun l => l.reverse, ⟨fun l => l.reverse, fun l => l.reverse⟩⟩ : V1.Scheds).IsSched :=
  ⟨isSched_reverse, isSched_reverse, isSched_reverse⟩
example : (⟨fun l => l.reverse, fun l => l.reverse⟩ : V4.Scheds).IsSched := ⟨isSched_reverse, isSched_reverse⟩

/-- the identity and the reversing schedule visit a two-entry frequency map in different orders
    and still agree (a tie between two timestamps with f+1 votes each: the larger one wins) -/
example : consensusMaxFinalizedTimestamp id [(7, true), (9, true), (7, true), (9, true)] 1 = .ok 9 ∧
    consensusMaxFinalizedTimestamp (fun l => l.reverse) [(7, true), (9, true), (7, true), (9, true)] 1 = .ok 9 := by
  decide

end DSV.Props.C01.Mercury
