import DSV.Lemmas.Aggs
import DSV.Lemmas.StepWF
import DSV.Lemmas.AggMemo
/-!
# C18 — timestamped stream aggregates never go back in time and are carried forward

`(sid, agg)` is *referenced* by an outcome when some channel definition lists the stream with that
aggregator.  `aggFailed` says the aggregation attempt of the round failed (too few values, …).
-/
namespace DSV.Props.C18
open DSV DSV.LLO DSV.GoMap

/-- some channel definition of `defs` lists stream `k.1` with aggregator `k.2` -/
def Referenced (defs : GoMap Nat ChanDef) (k : Nat × Nat) : Prop :=
  ∃ e ∈ defs, (⟨k.1, k.2⟩ : Stream) ∈ e.2.streams

theorem referenced_iff (σ : Sched) (hσ : σ.IsSched) (defs : GoMap Nat ChanDef) (k : Nat × Nat) :
    k ∈ ((σ.defsAgg defs).flatMap (·.2.streams)).map (fun s => (s.sid, s.agg)) ↔ Referenced defs k := by
  unfold Referenced
  simp only [List.mem_map, List.mem_flatMap]
  constructor
  · rintro ⟨s, ⟨e, he, hs⟩, rfl⟩
    exact ⟨e, (hσ.2.2.2.2.1 defs).mem_iff.mp he, by simpa using hs⟩
  · rintro ⟨e, he, hs⟩
    exact ⟨⟨k.1, k.2⟩, ⟨e, (hσ.2.2.2.2.1 defs).mem_iff.mpr he, hs⟩, rfl⟩

/-- **one round**: for a referenced (stream, aggregator) pair whose previous aggregate is
    timestamped, the new outcome still has an aggregate; if it is timestamped its observed-at is not
    earlier; and if aggregation failed this round it is exactly the previous aggregate -/
theorem tsv_step (env : Env) (cfg : Cfg) (σ : Sched) (hσ : σ.IsSched) (n : Nat) (prev o : Outcome)
    (obs : List Obs) (h : outcome env cfg σ n prev obs = .ok o) (k : Nat × Nat) (pt : Nat) (pv : SV)
    (href : Referenced o.defs k) (hprev : prev.aggs.get? k = some (.tsv pt pv)) :
    ∃ v', o.aggs.get? k = some v' ∧ (isTsv v' = true → pt ≤ tsvAt v') ∧
      (∀ t, tally env cfg obs = .ok t → aggFailed cfg t.streamObs k → v' = .tsv pt pv) := by
  obtain ⟨_, t, ht, _, _, _, _, _, hagg⟩ := outcome_ok h
  have hinv := aggregateAll_spec cfg prev t.streamObs (σ.defsAgg o.defs) o.aggs hagg
  obtain ⟨v', h1, h2, h3⟩ := hinv.tsv k ((referenced_iff σ hσ o.defs k).mpr href) pt pv hprev
  refine ⟨v', h1, h2, ?_⟩
  intro t' ht' hf
  rw [ht] at ht'; cases ht'
  exact h3 hf

/-- **aggregates of streams no longer referenced by any channel are dropped** -/
theorem unreferenced_dropped (env : Env) (cfg : Cfg) (σ : Sched) (hσ : σ.IsSched) (n : Nat) (prev o : Outcome)
    (obs : List Obs) (h : outcome env cfg σ n prev obs = .ok o) (k : Nat × Nat)
    (hk : o.aggs.contains k = true) : Referenced o.defs k := by
  obtain ⟨_, t, _, _, _, _, _, _, hagg⟩ := outcome_ok h
  have hinv := aggregateAll_spec cfg prev t.streamObs (σ.defsAgg o.defs) o.aggs hagg
  exact (referenced_iff σ hσ o.defs k).mp (hinv.keys k hk)

/-- the aggregate map of an outcome has distinct keys -/
theorem outcome_aggs_wf (env : Env) (cfg : Cfg) (σ : Sched) (n : Nat) (prev o : Outcome) (obs : List Obs)
    (h : outcome env cfg σ n prev obs = .ok o) : WF o.aggs := by
  obtain ⟨_, t, _, _, _, _, _, _, hagg⟩ := outcome_ok h
  exact (aggregateAll_spec cfg prev t.streamObs (σ.defsAgg o.defs) o.aggs hagg).wf

/-- the relation between consecutive states of a history -/
def TsvNext (a b : Outcome) : Prop :=
  ∀ k pt pv, Referenced b.defs k → a.aggs.get? k = some (.tsv pt pv) →
    ∃ v', b.aggs.get? k = some v' ∧ (isTsv v' = true → pt ≤ tsvAt v')

theorem codecRoundTrip_defs_aggs {cfg : Cfg} {o o' : Outcome} (h : codecRoundTrip cfg o = .ok o') :
    o'.defs.Perm o.defs ∧ o'.aggs.Perm o.aggs := by
  unfold codecRoundTrip at h
  simp only at h
  split at h
  · split at h
    · cases h
    · split at h
      · cases h
      · cases h; exact ⟨List.mergeSort_perm _ _, List.mergeSort_perm _ _⟩
  · cases h; exact ⟨List.mergeSort_perm _ _, List.mergeSort_perm _ _⟩

/-- one full round (with the codec round trip) -/
theorem tsv_step_round (env : Env) (cfg : Cfg) (r : Round) (hσ : r.σ.IsSched) (prev o' : Outcome)
    (h : step env cfg r prev = .ok o') : TsvNext prev o' := by
  obtain ⟨o, h1, h2⟩ := step_ok h
  obtain ⟨hd, ha⟩ := codecRoundTrip_defs_aggs h2
  have hwa := outcome_aggs_wf env cfg r.σ r.nAos prev o r.obs h1
  intro k pt pv href hprev
  have href' : Referenced o.defs k := by
    obtain ⟨e, he, hs⟩ := href
    exact ⟨e, hd.mem_iff.mp he, hs⟩
  obtain ⟨v', hv, hmono, _⟩ := tsv_step env cfg r.σ hσ r.nAos prev o r.obs h1 k pt pv href' hprev
  refine ⟨v', ?_, hmono⟩
  rw [← hv]
  exact (get?_perm hwa ha.symm k).symm

/-- **over any history**: between consecutive agreed outcomes a referenced timestamped aggregate
    never disappears and its observed-at never decreases -/
theorem tsv_monotone (env : Env) (cfg : Cfg) (o0 : Outcome) (rs : List Round) (hrs : ∀ r ∈ rs, r.σ.IsSched) :
    Consecutive TsvNext (o0 :: run env cfg o0 rs) := by
  apply run_consecutive env cfg (fun r => r.σ.IsSched) (fun _ => True) TsvNext
  · intros; trivial
  · intro r o o' hq _ hs; exact tsv_step_round env cfg r hq o o' hs
  · trivial
  · exact hrs

/-! ## the loop of the working tree (with the `attempted` set of repair K8) -/

/-- **The `attempted` set changes no result.**  The aggregation loop as it stands in the working tree
    (`aggregateAllMemo`: a pair is skipped when an aggregate is stored for it *or* when it has been tried
    in this round) returns exactly what the loop without that set returns — the same aggregate map,
    entry for entry and in the same order, the same error, the same panic — for every previous outcome,
    every set of observations and every list of definitions.  All theorems about `aggregateAll`
    (`tsv_step`, C01's schedule independence, C02/C15's closed form) therefore speak about the
    repaired code. -/
theorem attempted_set_changes_nothing (cfg : Cfg) (prev : Outcome) (so : GoMap Nat (List (Option SV)))
    (defs : List (Nat × ChanDef)) :
    (aggregateAllMemo cfg prev so defs).bind (fun st => .ok st.1) = aggregateAll cfg prev so defs := by
  have h := aggregateAllMemo_rel cfg prev so defs
  cases hm : aggregateAllMemo cfg prev so defs with
  | ok st =>
    obtain ⟨a, att⟩ := st
    cases hp : aggregateAll cfg prev so defs with
    | ok a' => rw [hm, hp] at h; exact congrArg GoRes.ok h.1
    | err e => rw [hm, hp] at h; exact absurd h (by simp [MemoRel])
    | panic => rw [hm, hp] at h; exact absurd h (by simp [MemoRel])
  | err e =>
    cases hp : aggregateAll cfg prev so defs with
    | ok a' => rw [hm, hp] at h; exact absurd h (by simp [MemoRel])
    | err e' => rw [hm, hp] at h; simp only [MemoRel] at h; rw [h]; rfl
    | panic => rw [hm, hp] at h; exact absurd h (by simp [MemoRel])
  | panic =>
    cases hp : aggregateAll cfg prev so defs with
    | ok a' => rw [hm, hp] at h; exact absurd h (by simp [MemoRel])
    | err e' => rw [hm, hp] at h; exact absurd h (by simp [MemoRel])
    | panic => rfl

/-- every pair in the `attempted` set of a finished loop either has an aggregate or is a pair whose
    aggregation stores nothing (no timestamped predecessor, aggregator returned an error / nothing) -/
theorem attempted_pairs_stored_or_failing (cfg : Cfg) (prev : Outcome) (so : GoMap Nat (List (Option SV)))
    (defs : List (Nat × ChanDef)) (a : GoMap (Nat × Nat) SV) (att : List (Nat × Nat))
    (h : aggregateAllMemo cfg prev so defs = .ok (a, att)) :
    ∀ k ∈ att, a.contains k = true ∨ Fails cfg prev so k := by
  have hr := aggregateAllMemo_rel cfg prev so defs
  rw [h] at hr
  cases hp : aggregateAll cfg prev so defs with
  | ok a' => rw [hp] at hr; exact hr.2
  | err e => rw [hp] at hr; exact absurd hr (by simp [MemoRel])
  | panic => rw [hp] at hr; exact absurd hr (by simp [MemoRel])

/-- non-vacuity: two channels mention the median of stream 7, nobody reported a value — the pair fails,
    is tried once and the second mention is skipped by the `attempted` set -/
example : aggregateAllMemo ⟨1, 1, 1, false⟩ { stage := stageProduction, ts := 0, defs := [], va := [], aggs := [] } []
    [(1, ⟨2, [⟨7, aggMedian⟩], []⟩), (2, ⟨2, [⟨7, aggMedian⟩], []⟩)] = .ok ([], [(7, aggMedian)]) := by decide

end DSV.Props.C18
