import DSV.Mercury.LemmasReport
import DSV.Props.C08
/-!
# C07 — Mercury v1–v4: every emitted report satisfies the validity invariants

Property theorems only.  `report cfg codec σ prev aos = .ok (some (rf, bytes))` is
`Report` returning `(true, bytes, nil)` after handing `rf` to `BuildReport`; the codec, the map
iteration orders `σ`, the previous report and the observation list are arbitrary.  The
contrapositive is the second half of the property: if an invariant cannot be met, `Report` returns
an error or declines.
-/
namespace DSV.Props.C07
open DSV DSV.Mercury

/-- v2: price in `[min,max]`, fees in `[0, MaxInt192]`, `validFrom ≤ ts ≤ expiresAt = ts + window`
    without 32-bit overflow, non-empty report within the declared maximum length -/
def Inv2 (cfg : Cfg) (maxLen : Nat) (rf : V2.RF) (b : Bytes) : Prop :=
  (∃ bp, rf.bp = some bp ∧ cfg.min ≤ bp ∧ bp ≤ cfg.max) ∧
  0 ≤ rf.linkFee ∧ rf.linkFee ≤ maxInt192 ∧ 0 ≤ rf.nativeFee ∧ rf.nativeFee ≤ maxInt192 ∧
  rf.validFrom ≤ rf.ts ∧ rf.ts ≤ rf.expiresAt ∧ rf.expiresAt = rf.ts + cfg.window ∧ rf.expiresAt ≤ maxUint32 ∧
  0 < b.length ∧ b.length ≤ maxLen

/-- v3 adds bid / ask in `[min,max]` and `bid ≤ benchmark ≤ ask` -/
def Inv3 (cfg : Cfg) (maxLen : Nat) (rf : V3.RF) (b : Bytes) : Prop :=
  (∃ bp bid ask, rf.bp = some bp ∧ rf.bid = some bid ∧ rf.ask = some ask ∧
    cfg.min ≤ bid ∧ bid ≤ bp ∧ bp ≤ ask ∧ ask ≤ cfg.max) ∧
  0 ≤ rf.linkFee ∧ rf.linkFee ≤ maxInt192 ∧ 0 ≤ rf.nativeFee ∧ rf.nativeFee ≤ maxInt192 ∧
  rf.validFrom ≤ rf.ts ∧ rf.ts ≤ rf.expiresAt ∧ rf.expiresAt = rf.ts + cfg.window ∧ rf.expiresAt ≤ maxUint32 ∧
  0 < b.length ∧ b.length ≤ maxLen

/-- v4 adds: the market status was reported by at least `f+1` of the parsed observations -/
def Inv4 (cfg : Cfg) (maxLen : Nat) (paos : List V4.PAO) (rf : V4.RF) (b : Bytes) : Prop :=
  (∃ bp, rf.bp = some bp ∧ cfg.min ≤ bp ∧ bp ≤ cfg.max) ∧
  0 ≤ rf.linkFee ∧ rf.linkFee ≤ maxInt192 ∧ 0 ≤ rf.nativeFee ∧ rf.nativeFee ≤ maxInt192 ∧
  rf.validFrom ≤ rf.ts ∧ rf.ts ≤ rf.expiresAt ∧ rf.expiresAt = rf.ts + cfg.window ∧ rf.expiresAt ≤ maxUint32 ∧
  cfg.f + 1 ≤ (paos.filter fun p => p.marketStatusValid && p.marketStatus == rf.marketStatus).length ∧
  0 < b.length ∧ b.length ≤ maxLen

/-- v1: prices in `[min,max]`, `0 ≤ validFromBlock ≤ currentBlock`, 32-byte block hash -/
def Inv1 (cfg : Cfg) (maxLen : Nat) (rf : V1.RF) (b : Bytes) : Prop :=
  (∃ bp bid ask, rf.bp = some bp ∧ rf.bid = some bid ∧ rf.ask = some ask ∧
    cfg.min ≤ bp ∧ bp ≤ cfg.max ∧ cfg.min ≤ bid ∧ bid ≤ cfg.max ∧ cfg.min ≤ ask ∧ ask ≤ cfg.max) ∧
  0 ≤ rf.validFrom ∧ rf.validFrom ≤ rf.curNum ∧ rf.curHash.length = 32 ∧
  0 < b.length ∧ b.length ≤ maxLen

theorem v2_report_valid (cfg : Cfg) (codec : Codec V2.RF) (σ : Sched (Int × Nat)) (prev : Option Bytes)
    (aos : List (Option V2.Obs)) (rf : V2.RF) (b : Bytes)
    (h : V2.report cfg codec σ prev aos = .ok (some (rf, b))) : Inv2 cfg codec.maxLen rf b := by
  obtain ⟨_, hb, _, hv, _, hlen, hpos⟩ := reportCore_some h
  obtain ⟨_, _, _, _, _, hexp, hexp2⟩ := V2.build_ok hb
  simp only [V2.validateReport] at hv
  obtain ⟨h1234, h5⟩ := tags_nil2 hv
  obtain ⟨h123, h4⟩ := tags_nil2 h1234
  obtain ⟨h12, h3⟩ := tags_nil2 h123
  obtain ⟨h1, h2⟩ := tags_nil2 h12
  simp only [tagIf_nil, Bool.not_eq_false'] at h1 h2 h3 h4 h5
  obtain ⟨bp, hbp, hmin, hmax⟩ := validateBetween_true h1
  obtain ⟨hl0, hl1⟩ := validateFee_true h2
  obtain ⟨hn0, hn1⟩ := validateFee_true h3
  simp only [validateValidFromTimestamp, validateExpiresAt, Bool.not_eq_true', decide_eq_false_iff_not] at h4 h5
  exact ⟨⟨bp, hbp, hmin, hmax⟩, hl0, hl1, hn0, hn1, by omega, by omega, hexp, by omega, hpos, hlen⟩

theorem v3_report_valid (cfg : Cfg) (codec : Codec V3.RF) (σ : Sched (Int × Nat)) (prev : Option Bytes)
    (aos : List (Option V3.Obs)) (rf : V3.RF) (b : Bytes)
    (h : V3.report cfg codec σ prev aos = .ok (some (rf, b))) : Inv3 cfg codec.maxLen rf b := by
  obtain ⟨_, hb, _, hv, _, hlen, hpos⟩ := reportCore_some h
  obtain ⟨_, _, _, _, _, _, _, hexp, hexp2⟩ := V3.build_ok hb
  simp only [V3.validateReport] at hv
  obtain ⟨h18, h9⟩ := tags_nil2 hv
  obtain ⟨h17, h8⟩ := tags_nil2 h18
  obtain ⟨h16, h7⟩ := tags_nil2 h17
  obtain ⟨h15, h6⟩ := tags_nil2 h16
  obtain ⟨h14, h5⟩ := tags_nil2 h15
  obtain ⟨h13, h4⟩ := tags_nil2 h14
  obtain ⟨h12, h3⟩ := tags_nil2 h13
  obtain ⟨h1, h2⟩ := tags_nil2 h12
  simp only [tagIf_nil, Bool.not_eq_false'] at h1 h2 h3 h4 h5 h6 h7 h8 h9
  obtain ⟨bp, hbp, hmin, hmax⟩ := validateBetween_true h1
  obtain ⟨bid, hbid, hbmin, hbinv⟩ := validateBetween_true h2
  obtain ⟨ask, hask, hainv, hamax⟩ := validateBetween_true h3
  rw [hbp] at hbinv hainv
  simp only [Option.getD_some] at hbinv hainv
  obtain ⟨hl0, hl1⟩ := validateFee_true h6
  obtain ⟨hn0, hn1⟩ := validateFee_true h7
  simp only [validateValidFromTimestamp, validateExpiresAt, Bool.not_eq_true', decide_eq_false_iff_not] at h8 h9
  exact ⟨⟨bp, bid, ask, hbp, hbid, hask, hbmin, hbinv, hainv, hamax⟩, hl0, hl1, hn0, hn1,
    by omega, by omega, hexp, by omega, hpos, hlen⟩

theorem v4_report_valid (cfg : Cfg) (codec : Codec V4.RF) (σ : V4.Scheds) (hσ : σ.IsSched)
    (prev : Option Bytes) (aos : List (Option V4.Obs)) (rf : V4.RF) (b : Bytes)
    (h : V4.report cfg codec σ prev aos = .ok (some (rf, b))) :
    Inv4 cfg codec.maxLen (V4.parseAll aos) rf b := by
  obtain ⟨_, hb, _, hv, _, hlen, hpos⟩ := reportCore_some h
  obtain ⟨_, _, _, _, _, hms, hexp, hexp2⟩ := V4.build_ok hb
  simp only [V4.validateReport] at hv
  obtain ⟨h1234, h5⟩ := tags_nil2 hv
  obtain ⟨h123, h4⟩ := tags_nil2 h1234
  obtain ⟨h12, h3⟩ := tags_nil2 h123
  obtain ⟨h1, h2⟩ := tags_nil2 h12
  simp only [tagIf_nil, Bool.not_eq_false'] at h1 h2 h3 h4 h5
  obtain ⟨bp, hbp, hmin, hmax⟩ := validateBetween_true h1
  obtain ⟨hl0, hl1⟩ := validateFee_true h2
  obtain ⟨hn0, hn1⟩ := validateFee_true h3
  simp only [validateValidFromTimestamp, validateExpiresAt, Bool.not_eq_true', decide_eq_false_iff_not] at h4 h5
  have hcount := C08.market_status_agreed σ.ms hσ.2 _ cfg.f rf.marketStatus hms
  refine ⟨⟨bp, hbp, hmin, hmax⟩, hl0, hl1, hn0, hn1, by omega, by omega, hexp, by omega, ?_, hpos, hlen⟩
  -- the count over the valid values is the number of parsed observations voting for the status
  have hcnt : (validVals ((V4.parseAll aos).map fun p => (p.marketStatus, p.marketStatusValid))).count rf.marketStatus =
      ((V4.parseAll aos).filter fun p => p.marketStatusValid && p.marketStatus == rf.marketStatus).length := by
    generalize V4.parseAll aos = ps
    induction ps with
    | nil => rfl
    | cons p ps ih =>
      simp only [List.map_cons, validVals, List.filterMap_cons, List.filter_cons] at ih ⊢
      cases hpv : p.marketStatusValid
      · simp only [Bool.false_and]; exact ih
      · by_cases heq : p.marketStatus = rf.marketStatus
        · simp only [if_true, heq, List.count_cons_self, Bool.true_and, beq_self_eq_true, List.length_cons, ih]
        · simp only [if_true, Bool.true_and]
          rw [List.count_cons_of_ne (by intro hc; exact heq hc)]
          have : (p.marketStatus == rf.marketStatus) = false := by simpa using heq
          simp only [this]; exact ih
  omega

theorem v1_report_valid (cfg : Cfg) (codec : Codec V1.RF) (σ : V1.Scheds) (prev : Option Bytes)
    (aos : List (Option V1.Obs)) (rf : V1.RF) (b : Bytes)
    (h : V1.report cfg codec σ prev aos = .ok (some (rf, b))) : Inv1 cfg codec.maxLen rf b := by
  obtain ⟨_, _, _, hv, _, hlen, hpos⟩ := reportCore_some h
  simp only [V1.validateReport] at hv
  obtain ⟨h123, h4⟩ := tags_nil2 hv
  obtain ⟨h12, h3⟩ := tags_nil2 h123
  obtain ⟨h1, h2⟩ := tags_nil2 h12
  simp only [tagIf_nil, Bool.not_eq_false'] at h1 h2 h3 h4
  obtain ⟨bp, hbp, h1a, h1b⟩ := validateBetween_true h1
  obtain ⟨bid, hbid, h2a, h2b⟩ := validateBetween_true h2
  obtain ⟨ask, hask, h3a, h3b⟩ := validateBetween_true h3
  unfold V1.validateCurrentBlock at h4
  split at h4
  · cases h4
  · split at h4
    · cases h4
    · split at h4
      · cases h4
      · split at h4
        · cases h4
        · rename_i a1 a2 a3 a4
          simp only [evmHashLen, ne_eq, Decidable.not_not] at a4
          exact ⟨⟨bp, bid, ask, hbp, hbid, hask, h1a, h1b, h2a, h2b, h3a, h3b⟩, by omega, by omega, a4, hpos, hlen⟩

/-! ## v3: the mechanism behind `bid ≤ benchmark ≤ ask` -/

/-- an observation that claims valid prices with `bid > mid` or `mid > ask` is dropped by parsing -/
theorem v3_parse_orders_prices (o : V3.Obs) (p : V3.PAO) (h : V3.parse o = some p)
    (hv : p.pricesValid = true) : p.bid ≤ p.bp ∧ p.bp ≤ p.ask := by
  unfold V3.parse at h
  simp only [Option.bind_eq_some_iff] at h
  obtain ⟨p1, hp1, p2, hp2, hp3⟩ := h
  have key : p1.pricesValid = true → p1.bid ≤ p1.bp ∧ p1.bp ≤ p1.ask := by
    unfold V3.parsePrices at hp1
    split at hp1
    · split at hp1
      · split at hp1
        · rename_i hvp
          cases hp1
          intro _
          simp only [V3.validatePrices, Bool.not_eq_true', Bool.or_eq_false_iff, decide_eq_false_iff_not] at hvp
          simp only []; omega
        · cases hp1
      · cases hp1
    · cases hp1; intro hc; simp at hc
  have e2 : p2.pricesValid = p1.pricesValid ∧ p2.bid = p1.bid ∧ p2.bp = p1.bp ∧ p2.ask = p1.ask := by
    unfold V3.parseLink V3.parseMft at hp2
    split at hp2
    · simp only [Option.map_eq_some_iff] at hp2
      obtain ⟨v, _, rfl⟩ := hp2
      split <;> simp
    · cases hp2; split <;> simp
  have e3 : p.pricesValid = p2.pricesValid ∧ p.bid = p2.bid ∧ p.bp = p2.bp ∧ p.ask = p2.ask := by
    unfold V3.parseNative at hp3
    split at hp3
    · simp only [Option.map_eq_some_iff] at hp3
      obtain ⟨v, _, rfl⟩ := hp3
      simp
    · cases hp3; simp
  obtain ⟨a1, a2, a3, a4⟩ := e2
  obtain ⟨b1, b2, b3, b4⟩ := e3
  rw [b2, b3, b4, a2, a3, a4]
  exact key (by rw [← a1, ← b1]; exact hv)

/-- hence (monotonicity of order statistics) the three medians `Report` computes are ordered
    already before `validateReport`; its two "invariant" checks can only fire on the bounds -/
theorem v3_consensus_prices_ordered (aos : List (Option V3.Obs)) (f : Nat) (vb v va : Int)
    (hb : consensusBid ((V3.parseAll aos).map fun p => (p.bid, p.pricesValid)) f = .ok vb)
    (hm : consensusBenchmarkPrice ((V3.parseAll aos).map fun p => (p.bp, p.pricesValid)) f = .ok v)
    (ha : consensusAsk ((V3.parseAll aos).map fun p => (p.ask, p.pricesValid)) f = .ok va) :
    vb ≤ v ∧ v ≤ va := by
  have hord : ∀ p ∈ V3.parseAll aos, p.pricesValid = true → p.bid ≤ p.bp ∧ p.bp ≤ p.ask := by
    intro p hp hv
    simp only [V3.parseAll, List.mem_filterMap] at hp
    obtain ⟨o, _, ho⟩ := hp
    cases o with
    | none => simp at ho
    | some o => exact v3_parse_orders_prices o p ho hv
  exact ⟨consensusPrice_mono (V3.parseAll aos) (fun p => p.pricesValid) (fun p => p.bid) (fun p => p.bp) f
           (fun p hp hv => (hord p hp hv).1) hb hm,
         consensusPrice_mono (V3.parseAll aos) (fun p => p.pricesValid) (fun p => p.bp) (fun p => p.ask) f
           (fun p hp hv => (hord p hp hv).2) hm ha⟩

/-! ## non-vacuity: reports are emitted, and refused when an invariant cannot be met -/

section examples
def toyCodec2 : Codec V2.RF := ⟨fun _ => .ok [1], fun _ => .ok 99, 10⟩
def toyObs2 (bp : Int) : V2.Obs :=
  { ts := 100, bp := some bp, pricesValid := true, mft := 49, mftValid := true, linkFee := some 1,
    linkFeeValid := true, nativeFee := some 2, nativeFeeValid := true }

/-- a report is emitted (f = 0, one observation, bootstrap from mft = 49) -/
example : V2.report ⟨0, 1, 10, 7⟩ toyCodec2 id none [some (toyObs2 5)] =
    .ok (some ({ validFrom := 50, ts := 100, nativeFee := 2, linkFee := 1, expiresAt := 107, bp := some 5 }, [1])) := by
  simp [V2.report, reportCore, V2.parseAll, V2.parse, V2.parsePrices, V2.parseMft, V2.parseLink, V2.parseNative,
    toyObs2, toyCodec2, V2.buildReportFields, consensusTimestamp, GoRes.bind, validFromTs,
    consensusMaxFinalizedTimestamp, validVals, V2.PAO.getMFT, freq, dedup, mftStep, priceOrErr, consensusBenchmarkPrice,
    consensusPrice, medianInt, feeOrZero, consensusLinkFee, consensusNativeFee, consensusFee, validFees, expiresAtOf,
    maxUint32, tagIf, V2.validateReport, validateBetween, validateFee, maxInt192, validateValidFromTimestamp,
    validateExpiresAt, checkLen, wrapInt64, toUint32]

/-- the same observation with a price above `max` is refused by validation -/
example : V2.report ⟨0, 1, 10, 7⟩ toyCodec2 id none [some (toyObs2 11)] = .err "validate:bp" := by
  simp [V2.report, reportCore, V2.parseAll, V2.parse, V2.parsePrices, V2.parseMft, V2.parseLink, V2.parseNative,
    toyObs2, V2.buildReportFields, consensusTimestamp, GoRes.bind, validFromTs,
    consensusMaxFinalizedTimestamp, validVals, V2.PAO.getMFT, freq, dedup, mftStep, priceOrErr, consensusBenchmarkPrice,
    consensusPrice, medianInt, feeOrZero, consensusLinkFee, consensusNativeFee, consensusFee, validFees, expiresAtOf,
    maxUint32, tagIf, V2.validateReport, validateBetween, validateFee, maxInt192, validateValidFromTimestamp,
    validateExpiresAt, wrapInt64, toUint32, errClass]

/-- a window that would overflow uint32 is refused while building the fields -/
example : V2.report ⟨0, 1, 10, 4294967200⟩ toyCodec2 id none [some (toyObs2 5)] = .err "build:exp" := by
  simp [V2.report, reportCore, V2.parseAll, V2.parse, V2.parsePrices, V2.parseMft, V2.parseLink, V2.parseNative,
    toyObs2, V2.buildReportFields, consensusTimestamp, GoRes.bind, validFromTs,
    consensusMaxFinalizedTimestamp, validVals, V2.PAO.getMFT, freq, dedup, mftStep, priceOrErr, consensusBenchmarkPrice,
    consensusPrice, medianInt, feeOrZero, consensusLinkFee, consensusNativeFee, consensusFee, validFees, expiresAtOf,
    maxUint32, tagIf, wrapInt64, toUint32, errClass]
end examples

end DSV.Props.C07
