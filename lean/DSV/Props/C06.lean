import DSV.Lemmas.Outcome
import DSV.Lemmas.Tally
/-!
# C06 — LLO state changes need more than f votes or a verified attestation

Votes are counted over `counted env obs`: the decoded observations minus those dropped because
they carried an attestation that did not verify (see `DSV/Lemmas/Tally.lean`).  `votesFor p l` is
the number of observations in `l` satisfying `p`; one observation contributes at most one vote per
item (`ObsWF`: removal ids and update entries of an observation are Go map keys, hence distinct).
-/
namespace DSV.Props.C06
open DSV DSV.LLO DSV.GoMap

/-- **channel set**: a channel whose definition differs between the previous and the new outcome
    was either set to a definition for which more than `f` contributing observers voted (votes are
    identified by the definition hash), or removed with more than `f` removal votes -/
theorem defs_change (env : Env) (cfg : Cfg) (σ : Sched) (hσ : σ.IsSched) (n : Nat) (prev o : Outcome)
    (obs : List Obs) (hwf : ∀ x ∈ obs, ObsWF env x) (h : outcome env cfg σ n prev obs = .ok o)
    (c : Nat) (hne : o.defs.get? c ≠ prev.defs.get? c) :
    (∃ d, o.defs.get? c = some d ∧ cfg.f < votesFor (votesUpdate env (env.hashOf c d)) (counted env obs)) ∨
    (o.defs.get? c = none ∧ cfg.f < votesFor (votesRemove c) (counted env obs)) := by
  obtain ⟨_, t, ht, _, hstage, _, hdefs, _, _⟩ := outcome_ok h
  obtain ⟨hinv, _⟩ := tally_spec env cfg obs t hwf ht
  rw [hdefs] at hne ⊢
  unfold defsOf at hne ⊢
  rcases applyUpdates_changed env cfg t.updVotes
      ((σ.updDefs (if stageOf cfg prev t == stageRetired then [] else t.updDefs)).mergeSort candLe)
      (removalsOf cfg σ (stageOf cfg prev t) prev t).2 c with hsame | ⟨cand, hcand, hc1, hc2, hc3⟩
  · -- unchanged by the update loop: the difference comes from the removal loop
    right
    rw [hsame] at hne ⊢
    unfold removalsOf at hne ⊢
    obtain ⟨_, hget⟩ := applyRemovals_spec cfg
      (σ.rmVotes (if stageOf cfg prev t == stageRetired then [] else t.rmVotes)) prev.defs
    rw [hget c] at hne ⊢
    by_cases hrm : c ∈ removedIds cfg (σ.rmVotes (if stageOf cfg prev t == stageRetired then [] else t.rmVotes))
    · simp only [hrm, if_true]
      refine ⟨trivial, ?_⟩
      obtain ⟨v, hv, hfv⟩ := (mem_removedIds cfg _ c).mp hrm
      have hv' := (hσ.1 _).mem_iff.mp hv
      by_cases hret : (stageOf cfg prev t == stageRetired) = true
      · simp [hret] at hv'
      · simp only [hret, Bool.false_eq_true, if_false] at hv'
        have := get?_eq_some_of_mem t.rmVotes hinv.wfRm (c, v) hv'
        have hcount := hinv.rm c
        rw [this] at hcount
        simp only [Option.getD_some] at hcount
        show cfg.f < votesFor (votesRemove c) (countedAcc env obs).2
        omega
    · rw [if_neg hrm] at hne; exact absurd rfl hne
  · left
    refine ⟨cand.2.2, hc3, ?_⟩
    have hmem : cand ∈ σ.updDefs (if stageOf cfg prev t == stageRetired then [] else t.updDefs) :=
      (List.mergeSort_perm _ _).mem_iff.mp hcand
    have hmem' := (hσ.2.1 _).mem_iff.mp hmem
    by_cases hret : (stageOf cfg prev t == stageRetired) = true
    · simp [hret] at hmem'
    · simp only [hret, Bool.false_eq_true, if_false] at hmem'
      have hg := get?_eq_some_of_mem t.updDefs hinv.wfUpd cand hmem'
      obtain ⟨hhash, _⟩ := hinv.defsFrom cand.1 cand.2 hg
      have hcount := hinv.upd cand.1
      rw [← hc1, hhash]
      show cfg.f < votesFor (votesUpdate env cand.1) (countedAcc env obs).2
      omega

/-- with an injective channel hash a vote for hash `hashOf c d` is a vote for exactly `(c, d)` -/
theorem votesUpdate_exact (env : Env) (hinj : ∀ c d c' d', env.hashOf c d = env.hashOf c' d' → c = c' ∧ d = d')
    (c : Nat) (d : ChanDef) (x : Obs) : votesUpdate env (env.hashOf c d) x = List.contains x.updates (c, d) := by
  unfold votesUpdate
  rw [List.contains_eq_any_beq]
  congr 1; funext e
  by_cases he : e = (c, d)
  · subst he; simp
  · have : ¬ env.hashOf e.1 e.2 = env.hashOf c d := by
      intro hh; obtain ⟨h1, h2⟩ := hinj _ _ _ _ hh
      exact he (by cases e; simp_all)
    have h1 : (env.hashOf e.1 e.2 == env.hashOf c d) = false := by simp [this]
    have h2 : ((c, d) == e) = false := by
      simp only [beq_eq_false_iff_ne, ne_eq]; exact fun h => he h.symm
    rw [h1, h2]

/-- **retirement** needs more than `f` retire votes -/
theorem retire_needs_votes (env : Env) (cfg : Cfg) (σ : Sched) (n : Nat) (prev o : Outcome) (obs : List Obs)
    (hwf : ∀ x ∈ obs, ObsWF env x) (h : outcome env cfg σ n prev obs = .ok o)
    (hr : o.stage = stageRetired) (hp : prev.stage ≠ stageRetired) :
    cfg.f < votesFor (·.shouldRetire) (counted env obs) := by
  obtain ⟨_, t, ht, _, hstage, _⟩ := outcome_ok h
  obtain ⟨hinv, _⟩ := tally_spec env cfg obs t hwf ht
  have hret := hinv.retire
  rw [hstage] at hr
  rcases stageOf_cases cfg prev t with h1 | ⟨_, _, h1⟩ | ⟨_, hv, _⟩ | ⟨_, _, hv, _⟩
  · rw [h1] at hr; exact absurd hr hp
  · rw [h1] at hr; exact absurd hr (by decide)
  · show cfg.f < votesFor (·.shouldRetire) (countedAcc env obs).2; omega
  · show cfg.f < votesFor (·.shouldRetire) (countedAcc env obs).2; omega

/-- **promotion** (leaving staging) needs an observation whose attestation verifies against the
    configured predecessor -/
theorem promote_needs_attestation (env : Env) (cfg : Cfg) (σ : Sched) (n : Nat) (prev o : Outcome) (obs : List Obs)
    (hwf : ∀ x ∈ obs, ObsWF env x) (h : outcome env cfg σ n prev obs = .ok o)
    (hp : prev.stage = stageStaging) (hs : o.stage ≠ stageStaging) :
    ∃ x ∈ obs, ∃ rr, env.check x.attested = some rr := by
  obtain ⟨_, t, ht, _, hstage, _⟩ := outcome_ok h
  obtain ⟨_, horig⟩ := tally_spec env cfg obs t hwf ht
  rw [hstage] at hs
  have hsome : t.validRR.isSome = true := by
    rcases stageOf_cases cfg prev t with h1 | ⟨_, hv, _⟩ | ⟨h1, _⟩ | ⟨_, hv, _⟩
    · rw [h1, hp] at hs; exact absurd rfl hs
    · exact hv
    · rw [hp] at h1; exact absurd h1 (by decide)
    · exact hv
  cases hrr : t.validRR with
  | none => rw [hrr] at hsome; cases hsome
  | some rr =>
    obtain ⟨x, hx, hc⟩ := horig rr hrr
    exact ⟨x, mem_counted env obs x hx, rr, hc⟩

/-- **a retired instance ignores every vote**: stage and channel definitions are unchanged -/
theorem retired_ignores_votes (env : Env) (cfg : Cfg) (σ : Sched) (hσ : σ.IsSched) (n : Nat) (prev o : Outcome)
    (obs : List Obs) (h : outcome env cfg σ n prev obs = .ok o) (hp : prev.stage = stageRetired) :
    o.stage = stageRetired ∧ o.defs = prev.defs := by
  obtain ⟨_, t, _, _, hstage, _, hdefs, _, _⟩ := outcome_ok h
  have hs : stageOf cfg prev t = stageRetired := stageOf_retired cfg prev t hp
  refine ⟨by rw [hstage, hs], ?_⟩
  rw [hdefs, hs]
  unfold defsOf removalsOf
  have e1 : σ.rmVotes [] = [] := List.perm_nil.mp (hσ.1 [])
  have e2 : σ.updDefs [] = [] := List.perm_nil.mp (hσ.2.1 [])
  simp [e1, e2, applyRemovals, applyUpdates]

/-- **up to f voters alone cannot change the channel set**: if at most `f` observations vote to
    remove `c` and at most `f` vote for any single definition of `c`, its definition is unchanged -/
theorem faulty_alone_cannot (env : Env) (cfg : Cfg) (σ : Sched) (hσ : σ.IsSched) (n : Nat) (prev o : Outcome)
    (obs : List Obs) (hwf : ∀ x ∈ obs, ObsWF env x) (h : outcome env cfg σ n prev obs = .ok o) (c : Nat)
    (hrm : votesFor (votesRemove c) obs ≤ cfg.f)
    (hupd : ∀ d, votesFor (votesUpdate env (env.hashOf c d)) obs ≤ cfg.f) :
    o.defs.get? c = prev.defs.get? c := by
  apply Classical.byContradiction
  intro hne
  rcases defs_change env cfg σ hσ n prev o obs hwf h c hne with ⟨d, _, hv⟩ | ⟨_, hv⟩
  · have := votesFor_counted_le env obs (votesUpdate env (env.hashOf c d)); have := hupd d; omega
  · have := votesFor_counted_le env obs (votesRemove c); omega

/-- non-vacuity: the schedule that iterates every map in list order is a schedule -/
example : ({} : Sched).IsSched := ⟨fun _ => .refl _, fun _ => .refl _, fun _ => .refl _, fun _ => .refl _, fun _ => .refl _, fun _ => .refl _⟩

end DSV.Props.C06
