import DSV.LLO.CodecOutcome
import DSV.Lemmas.CodecOutcome
/-!
# C10 — the LLO outcome codec is canonical and loss-free

Property theorems only, for both codec versions, at message level (`OutcomeMsg` = the generated
protobuf struct; bytes ↔ message is protobuf-go with `Deterministic: true`, trusted: marshal is
an injective function of the message, so "same message" is "same bytes").  Stream values inside
the message are byte-level (`marshalSV` / `unmarshalProtoSV`).

Hypotheses that appear below and what they mean on the Go side:
* `o.WF` — the three Go maps have distinct keys (true of every Go map);
* `σ.IsSched` — every `range` over a map visits each entry once, in any order;
* `valuesInRange` — decimal exponents are `int32`, observation times `uint64` (Go types) and
  every encoded value is shorter than 2^64 bytes;
* `valuesShallow` — no timestamped value is nested more than one level inside another one
  (`maxTimestampedStreamValueNesting`; deeper nesting is never valid and is refused on decode).
-/
namespace DSV.Props.C10
open DSV DSV.LLO

/-- an outcome with its maps listed in key order (what a decoder builds from a canonical message) -/
def sorted (o : Outcome) : Outcome :=
  { o with defs := o.defs.mergeSort leKey, va := o.va.mergeSort leKey, aggs := o.aggs.mergeSort leAggKey }

/-- validity starts floored to whole seconds (all that version 0 keeps) -/
def floorVA (o : Outcome) : Outcome := { o with va := o.va.map floorSeconds }

/-- what version 0 can represent: timestamp within `int64`, validity starts within `uint32` seconds -/
def fitsV0 (o : Outcome) : Prop :=
  o.ts ≤ maxInt64 ∧ ∀ e ∈ o.va, e.2 / 1000000000 ≤ maxUint32

theorem sorted_equiv (o : Outcome) : (sorted o).Equiv o :=
  ⟨rfl, rfl, List.mergeSort_perm _ _, List.mergeSort_perm _ _, List.mergeSort_perm _ _⟩

/-- flooring keeps the channels and changes every validity start by less than a second -/
theorem floorVA_spec (o : Outcome) :
    (floorVA o).va.map (·.1) = o.va.map (·.1) ∧
    ∀ e ∈ o.va, (floorSeconds e).2 ≤ e.2 ∧ e.2 < (floorSeconds e).2 + 1000000000 ∧ (floorSeconds e).2 % 1000000000 = 0 := by
  refine ⟨by simp [floorVA, floorSeconds, List.map_map, Function.comp_def], ?_⟩
  intro e _
  simp only [floorSeconds]
  omega

/-! ## decode ∘ encode -/

/-- v1: decoding an encoded outcome returns the same stage, timestamp, definitions, validity
    starts and aggregates (as maps), whatever the iteration order was -/
theorem decode_encode_v1 (σ : CodecSched) (hσ : σ.IsSched) (o : Outcome) (hwf : o.WF)
    (hr : valuesInRange o.aggs) (hd : valuesShallow o.aggs) :
    ∃ m o', toMsgV1 σ o = .ok m ∧ fromMsgV1 m = .ok o' ∧ o'.Equiv o ∧ o' = sorted o := by
  have hdefs : (σ.defs o.defs).mergeSort leKey = o.defs.mergeSort leKey :=
    mergeSort_leKey_perm _ _ (hσ.defs _) (nodup_keys_of_perm (hσ.defs _).symm hwf.defs)
  have hva : (σ.va o.va).mergeSort leKey = o.va.mergeSort leKey :=
    mergeSort_leKey_perm _ _ (hσ.va _) (nodup_keys_of_perm (hσ.va _).symm hwf.va)
  have haggs : (σ.aggs o.aggs).mergeSort leAggKey = o.aggs.mergeSort leAggKey :=
    mergeSort_leAggKey_perm _ _ (hσ.aggs _) (nodup_keys_of_perm (hσ.aggs _).symm hwf.aggs)
  refine ⟨_, sorted o, rfl, ?_, sorted_equiv o, rfl⟩
  simp only [fromMsgV1, defsFromMsg_defsToMsg σ hσ o.defs hwf.defs,
    aggsFromMsg_aggsToMsg σ hσ o.aggs hwf.aggs hr hd, vaFromMsgV1_vaToMsgV1 σ hσ o.va hwf.va,
    hdefs, hva, haggs, sorted, Int.toNat_natCast]

/-- v0 encodes exactly the outcomes it can represent; anything else is an error, never a panic -/
theorem encode_v0_ok_iff (σ : CodecSched) (hσ : σ.IsSched) (o : Outcome) :
    (∃ m, toMsgV0 σ o = .ok m) ↔ fitsV0 o := by
  unfold toMsgV0 fitsV0
  rw [vaToMsgV0_eq]
  have hany : (σ.va o.va).any (fun e => decide (e.2 / 1000000000 > maxUint32)) = true ↔
      ∃ e ∈ o.va, e.2 / 1000000000 > maxUint32 := by
    rw [List.any_eq_true]
    constructor
    · rintro ⟨e, he, h⟩; exact ⟨e, (hσ.va _).mem_iff.mp he, by simpa using h⟩
    · rintro ⟨e, he, h⟩; exact ⟨e, (hσ.va _).mem_iff.mpr he, by simpa using h⟩
  by_cases hq : (σ.va o.va).any (fun e => decide (e.2 / 1000000000 > maxUint32)) = true
  · rw [if_pos hq]
    obtain ⟨e, he, h⟩ := hany.mp hq
    constructor
    · rintro ⟨m, hm⟩; cases hm
    · rintro ⟨_, hall⟩; have := hall e he; omega
  · rw [if_neg hq]
    have hall : ∀ e ∈ o.va, e.2 / 1000000000 ≤ maxUint32 := by
      intro e he
      apply Classical.byContradiction
      intro hgt
      exact hq (hany.mpr ⟨e, he, by omega⟩)
    by_cases hts : o.ts > maxInt64
    · simp only [hts, if_true]
      constructor
      · rintro ⟨m, hm⟩; cases hm
      · rintro ⟨h1, _⟩; omega
    · simp only [hts, if_false]
      exact ⟨fun _ => ⟨by omega, hall⟩, fun _ => ⟨_, rfl⟩⟩

theorem encode_v0_err_of_not_fits (σ : CodecSched) (hσ : σ.IsSched) (o : Outcome) (h : ¬ fitsV0 o) :
    ∃ c, toMsgV0 σ o = .err c := by
  have hno : ¬ ∃ m, toMsgV0 σ o = .ok m := fun hex => h ((encode_v0_ok_iff σ hσ o).mp hex)
  unfold toMsgV0 at hno ⊢
  rw [vaToMsgV0_eq] at hno ⊢
  by_cases hq : (σ.va o.va).any (fun e => decide (e.2 / 1000000000 > maxUint32)) = true
  · rw [if_pos hq]; exact ⟨_, rfl⟩
  · rw [if_neg hq] at hno ⊢
    by_cases hts : o.ts > maxInt64
    · simp only [hts, if_true]; exact ⟨_, rfl⟩
    · simp only [hts, if_false] at hno; exact absurd ⟨_, rfl⟩ hno

/-- v0: decoding an encoded outcome returns the same outcome with validity starts floored to
    whole seconds -/
theorem decode_encode_v0 (σ : CodecSched) (hσ : σ.IsSched) (o : Outcome) (hwf : o.WF) (hfit : fitsV0 o)
    (hr : valuesInRange o.aggs) (hd : valuesShallow o.aggs) :
    ∃ m o', toMsgV0 σ o = .ok m ∧ fromMsgV0 m = .ok o' ∧ o'.Equiv (floorVA o) ∧ o' = sorted (floorVA o) := by
  have hdefs : (σ.defs o.defs).mergeSort leKey = o.defs.mergeSort leKey :=
    mergeSort_leKey_perm _ _ (hσ.defs _) (nodup_keys_of_perm (hσ.defs _).symm hwf.defs)
  have haggs : (σ.aggs o.aggs).mergeSort leAggKey = o.aggs.mergeSort leAggKey :=
    mergeSort_leAggKey_perm _ _ (hσ.aggs _) (nodup_keys_of_perm (hσ.aggs _).symm hwf.aggs)
  have hva : ((σ.va o.va).map floorSeconds).mergeSort leKey = (o.va.map floorSeconds).mergeSort leKey := by
    apply mergeSort_leKey_perm _ _ ((hσ.va _).map _)
    rw [map_keys_eq floorSeconds (fun _ => rfl)]
    exact nodup_keys_of_perm (hσ.va _).symm hwf.va
  have hq : ¬ (σ.va o.va).any (fun e => decide (e.2 / 1000000000 > maxUint32)) = true := by
    rw [List.any_eq_true]
    rintro ⟨e, he, h⟩
    have := hfit.2 e ((hσ.va _).mem_iff.mp he)
    simp at h; omega
  have hts : ¬ o.ts > maxInt64 := by have := hfit.1; omega
  refine ⟨{ stage := o.stage, ts := (o.ts : Int), defs := defsToMsg σ o.defs,
             va := ((σ.va o.va).map toSeconds).mergeSort leKey, aggs := aggsToMsg σ o.aggs },
    sorted (floorVA o), ?_, ?_, sorted_equiv _, rfl⟩
  · unfold toMsgV0
    rw [vaToMsgV0_eq, if_neg hq]
    simp only [hts, if_false]
  · simp only [fromMsgV0, defsFromMsg_defsToMsg σ hσ o.defs hwf.defs,
      aggsFromMsg_aggsToMsg σ hσ o.aggs hwf.aggs hr hd, vaFromMsgV0_sorted σ hσ o.va hwf.va,
      hdefs, hva, haggs, sorted, floorVA, Int.toNat_natCast]
    rw [if_neg (by omega)]

/-! ## canonicity -/

/-- v1: the message (hence the bytes) depends neither on the insertion order of the maps nor on
    the order in which the encoder's `range` loops visit them -/
theorem encode_perm_invariant_v1 (σ σ' : CodecSched) (hσ : σ.IsSched) (hσ' : σ'.IsSched)
    (o o' : Outcome) (hwf : o.WF) (he : o.Equiv o') : toMsgV1 σ o = toMsgV1 σ' o' := by
  have hdefs : (σ.defs o.defs).mergeSort leKey = (σ'.defs o'.defs).mergeSort leKey :=
    mergeSort_leKey_perm _ _ ((hσ.defs _).trans (he.defs.trans (hσ'.defs _).symm))
      (nodup_keys_of_perm (hσ.defs _).symm hwf.defs)
  have hva : (σ.va o.va).mergeSort leKey = (σ'.va o'.va).mergeSort leKey :=
    mergeSort_leKey_perm _ _ ((hσ.va _).trans (he.va.trans (hσ'.va _).symm))
      (nodup_keys_of_perm (hσ.va _).symm hwf.va)
  have haggs : (σ.aggs o.aggs).mergeSort leAggKey = (σ'.aggs o'.aggs).mergeSort leAggKey :=
    mergeSort_leAggKey_perm _ _ ((hσ.aggs _).trans (he.aggs.trans (hσ'.aggs _).symm))
      (nodup_keys_of_perm (hσ.aggs _).symm hwf.aggs)
  simp only [toMsgV1, defsToMsg_eq, aggsToMsg_eq, vaToMsgV1, hdefs, hva, haggs, he.stage, he.ts]

/-- v0: same, including *whether* encoding succeeds -/
theorem encode_perm_invariant_v0 (σ σ' : CodecSched) (hσ : σ.IsSched) (hσ' : σ'.IsSched)
    (o o' : Outcome) (hwf : o.WF) (he : o.Equiv o') : toMsgV0 σ o = toMsgV0 σ' o' := by
  have hdefs : (σ.defs o.defs).mergeSort leKey = (σ'.defs o'.defs).mergeSort leKey :=
    mergeSort_leKey_perm _ _ ((hσ.defs _).trans (he.defs.trans (hσ'.defs _).symm))
      (nodup_keys_of_perm (hσ.defs _).symm hwf.defs)
  have hperm : (σ.va o.va).Perm (σ'.va o'.va) := (hσ.va _).trans (he.va.trans (hσ'.va _).symm)
  have hva : ((σ.va o.va).map toSeconds).mergeSort leKey = ((σ'.va o'.va).map toSeconds).mergeSort leKey := by
    apply mergeSort_leKey_perm _ _ (hperm.map _)
    rw [map_keys_eq toSeconds (fun _ => rfl)]
    exact nodup_keys_of_perm (hσ.va _).symm hwf.va
  have hany : (σ.va o.va).any (fun e => decide (e.2 / 1000000000 > maxUint32)) =
      (σ'.va o'.va).any (fun e => decide (e.2 / 1000000000 > maxUint32)) := by
    rw [Bool.eq_iff_iff, List.any_eq_true, List.any_eq_true]
    exact ⟨fun ⟨e, h1, h2⟩ => ⟨e, hperm.mem_iff.mp h1, h2⟩, fun ⟨e, h1, h2⟩ => ⟨e, hperm.mem_iff.mpr h1, h2⟩⟩
  have haggs : (σ.aggs o.aggs).mergeSort leAggKey = (σ'.aggs o'.aggs).mergeSort leAggKey :=
    mergeSort_leAggKey_perm _ _ ((hσ.aggs _).trans (he.aggs.trans (hσ'.aggs _).symm))
      (nodup_keys_of_perm (hσ.aggs _).symm hwf.aggs)
  simp only [toMsgV0, vaToMsgV0_eq, defsToMsg_eq, aggsToMsg_eq, hdefs, hva, hany, haggs, he.stage, he.ts]

/-! ## decode-then-encode of an encoded outcome reproduces the same message -/

theorem sorted_wf (o : Outcome) (hwf : o.WF) : (sorted o).WF :=
  ⟨nodup_keys_mergeSort _ _ hwf.defs, nodup_keys_mergeSort _ _ hwf.va, nodup_keys_mergeSort _ _ hwf.aggs⟩

theorem reencode_fixpoint_v1 (σ σ' : CodecSched) (hσ : σ.IsSched) (hσ' : σ'.IsSched) (o o' : Outcome)
    (m : OutcomeMsg) (hwf : o.WF) (hr : valuesInRange o.aggs)
    (henc : toMsgV1 σ o = .ok m) (hdec : fromMsgV1 m = .ok o') : toMsgV1 σ' o' = .ok m := by
  -- decoding succeeded, so no value was nested too deeply
  have hd : valuesShallow o.aggs := by
    have hm : m.aggs = aggsToMsg σ o.aggs := by
      simp only [toMsgV1, GoRes.ok.injEq] at henc; rw [← henc]
    unfold fromMsgV1 at hdec
    rw [hm] at hdec
    split at hdec
    · cases hdec
    · cases hdec
    · split at hdec
      · cases hdec
      · cases hdec
      · rename_i aggs h
        exact valuesShallow_of_decode σ hσ o.aggs hr aggs h
  obtain ⟨m', o'', h1, h2, h3, _⟩ := decode_encode_v1 σ hσ o hwf hr hd
  rw [henc] at h1; cases h1
  rw [hdec] at h2; cases h2
  rw [← henc]
  exact (encode_perm_invariant_v1 σ σ' hσ hσ' o o' hwf ⟨h3.stage.symm, h3.ts.symm, h3.defs.symm, h3.va.symm, h3.aggs.symm⟩).symm

theorem reencode_fixpoint_v0 (σ σ' : CodecSched) (hσ : σ.IsSched) (hσ' : σ'.IsSched) (o o' : Outcome)
    (m : OutcomeMsg) (hwf : o.WF) (hr : valuesInRange o.aggs)
    (henc : toMsgV0 σ o = .ok m) (hdec : fromMsgV0 m = .ok o') : toMsgV0 σ' o' = .ok m := by
  have hfit : fitsV0 o := (encode_v0_ok_iff σ hσ o).mp ⟨m, henc⟩
  have hmaggs : m.aggs = aggsToMsg σ o.aggs := by
    unfold toMsgV0 at henc
    split at henc
    · cases henc
    · cases henc
    · split at henc
      · cases henc
      · simp only [GoRes.ok.injEq] at henc; rw [← henc]
  have hd : valuesShallow o.aggs := by
    unfold fromMsgV0 at hdec
    rw [hmaggs] at hdec
    split at hdec
    · cases hdec
    · cases hdec
    · split at hdec
      · cases hdec
      · cases hdec
      · rename_i aggs h
        exact valuesShallow_of_decode σ hσ o.aggs hr aggs h
  obtain ⟨m', o'', h1, h2, h3, _⟩ := decode_encode_v0 σ hσ o hwf hfit hr hd
  rw [henc] at h1; cases h1
  rw [hdec] at h2; cases h2
  -- encoding the floored outcome gives the same message as encoding the original
  have hfl : toMsgV0 σ (floorVA o) = toMsgV0 σ o := by
    have hperm : (σ.va (o.va.map floorSeconds)).Perm ((σ.va o.va).map floorSeconds) :=
      (hσ.va _).trans (((hσ.va _).map _).symm)
    have hsec : ∀ (e : Nat × Nat), toSeconds (floorSeconds e) = toSeconds e := by
      intro e; simp only [toSeconds, floorSeconds]; congr 1; omega
    have hva : ((σ.va (o.va.map floorSeconds)).map toSeconds).mergeSort leKey =
        ((σ.va o.va).map toSeconds).mergeSort leKey := by
      have hp2 : ((σ.va (o.va.map floorSeconds)).map toSeconds).Perm ((σ.va o.va).map toSeconds) := by
        have := hperm.map toSeconds
        rw [List.map_map] at this
        have hc : toSeconds ∘ floorSeconds = toSeconds := by funext e; exact hsec e
        rw [hc] at this
        exact this
      apply mergeSort_leKey_perm _ _ hp2
      exact nodup_keys_of_perm hp2.symm (by
        rw [map_keys_eq toSeconds (fun _ => rfl)]
        exact nodup_keys_of_perm (hσ.va _).symm hwf.va)
    have hany : (σ.va (o.va.map floorSeconds)).any (fun e => decide (e.2 / 1000000000 > maxUint32)) =
        (σ.va o.va).any (fun e => decide (e.2 / 1000000000 > maxUint32)) := by
      rw [Bool.eq_iff_iff, List.any_eq_true, List.any_eq_true]
      constructor
      · rintro ⟨e, h1, h2⟩
        have h1' := hperm.mem_iff.mp h1
        rw [List.mem_map] at h1'
        obtain ⟨e0, he0, rfl⟩ := h1'
        refine ⟨e0, he0, ?_⟩
        have h2' := of_decide_eq_true h2
        apply decide_eq_true
        simp only [floorSeconds, maxUint32] at h2' ⊢
        omega
      · rintro ⟨e, h1, h2⟩
        refine ⟨floorSeconds e, hperm.mem_iff.mpr (List.mem_map.mpr ⟨e, h1, rfl⟩), ?_⟩
        have h2' := of_decide_eq_true h2
        apply decide_eq_true
        simp only [floorSeconds, maxUint32] at h2' ⊢
        omega
    simp only [toMsgV0, vaToMsgV0_eq, floorVA, hva, hany]
    rfl
  have hwf' : (floorVA o).WF := ⟨hwf.defs, by
    show ((o.va.map floorSeconds).map (·.1)).Nodup
    rw [map_keys_eq floorSeconds (fun _ => rfl)]; exact hwf.va, hwf.aggs⟩
  rw [← henc, ← hfl]
  exact (encode_perm_invariant_v0 σ σ' hσ hσ' (floorVA o) o' hwf'
    ⟨h3.stage.symm, h3.ts.symm, h3.defs.symm, h3.va.symm, h3.aggs.symm⟩).symm

/-! ## decoding never panics -/

/-- for *every* message — nil definitions, nil / unknown-typed / arbitrary-byte values,
    duplicates, any order — decoding returns an outcome or an error -/
theorem fromMsg_total (m : OutcomeMsg) : fromMsgV0 m ≠ .panic ∧ fromMsgV1 m ≠ .panic := by
  constructor
  · unfold fromMsgV0
    split
    · simp
    · rename_i h; exact absurd h (defsFromMsg_ne_panic _)
    · split
      · simp
      · rename_i h; exact absurd h (aggsFromMsg_ne_panic _)
      · split <;> simp
  · unfold fromMsgV1
    split
    · simp
    · rename_i h; exact absurd h (defsFromMsg_ne_panic _)
    · split
      · simp
      · rename_i h; exact absurd h (aggsFromMsg_ne_panic _)
      · simp

/-- the malformed cases the decoders document are errors -/
theorem fromMsg_rejects (m : OutcomeMsg) :
    ((∃ e ∈ m.defs, e.2 = none) → (fromMsgV0 m).isErr = true ∧ (fromMsgV1 m).isErr = true) ∧
    (m.defs.all (fun e => e.2.isSome) = true → (∃ a ∈ m.aggs, a.sv = none ∨ ∃ s, a.sv = some s ∧ (s.ty < 0 ∨ s.ty > 2)) →
      (fromMsgV0 m).isErr = true ∧ (fromMsgV1 m).isErr = true) ∧
    (m.ts < 0 → (fromMsgV0 m).isErr = true) := by
  have hdefs_err : (∃ e ∈ m.defs, e.2 = none) → (defsFromMsg m.defs).isErr = true := by
    rintro ⟨e, he, hn⟩
    unfold defsFromMsg
    have := goMapM_err_of_mem (fun (e : Nat × Option ChanDef) =>
      match e.2 with
      | none => GoRes.err errNilDef
      | some d => GoRes.ok (e.1, d)) m.defs (by intro a; split <;> simp) e he (by simp [hn, GoRes.isErr])
    revert this
    cases goMapM _ m.defs <;> simp [GoRes.isErr]
  have haggs_err : (∃ a ∈ m.aggs, a.sv = none ∨ ∃ s, a.sv = some s ∧ (s.ty < 0 ∨ s.ty > 2)) →
      (aggsFromMsg m.aggs).isErr = true := by
    rintro ⟨a, ha, hbad⟩
    unfold aggsFromMsg
    have hsv : (unmarshalProtoSV a.sv).isErr = true := by
      rcases hbad with hn | ⟨s, hs, hty⟩
      · rw [hn]; rfl
      · rw [hs]
        unfold unmarshalProtoSV
        simp only
        rw [if_neg (by omega), if_neg (by omega), if_neg (by omega)]
        rfl
    have := goMapM_err_of_mem (fun (e : AggMsg) =>
      match unmarshalProtoSV e.sv with
      | .ok v => GoRes.ok ((e.sid, e.agg), v)
      | .err c => .err c
      | .panic => .panic) m.aggs (by
        intro x
        cases h : unmarshalProtoSV x.sv with
        | panic => exact absurd h (unmarshalProtoSV_ne_panic _)
        | err c => simp
        | ok y => simp) a ha (by
        revert hsv
        cases unmarshalProtoSV a.sv <;> simp [GoRes.isErr])
    revert this
    cases goMapM _ m.aggs <;> simp [GoRes.isErr]
  refine ⟨?_, ?_, ?_⟩
  · intro h
    have hD := hdefs_err h
    unfold fromMsgV0 fromMsgV1
    cases hD' : defsFromMsg m.defs with
    | panic => exact absurd hD' (defsFromMsg_ne_panic _)
    | err c => exact ⟨rfl, rfl⟩
    | ok d => rw [hD'] at hD; cases hD
  · intro _ h
    have hA := haggs_err h
    unfold fromMsgV0 fromMsgV1
    cases hD' : defsFromMsg m.defs with
    | panic => exact absurd hD' (defsFromMsg_ne_panic _)
    | err c => exact ⟨rfl, rfl⟩
    | ok d =>
      cases hG : aggsFromMsg m.aggs with
      | panic => exact absurd hG (aggsFromMsg_ne_panic _)
      | err c => exact ⟨rfl, rfl⟩
      | ok a => rw [hG] at hA; cases hA
  · intro hts
    unfold fromMsgV0
    cases hD' : defsFromMsg m.defs with
    | panic => exact absurd hD' (defsFromMsg_ne_panic _)
    | err c => rfl
    | ok d =>
      cases hG : aggsFromMsg m.aggs with
      | panic => exact absurd hG (aggsFromMsg_ne_panic _)
      | err c => rfl
      | ok a => simp [hts, GoRes.isErr]

/-- duplicates in a message: the entry listed last wins -/
theorem fromMsg_duplicates_last_wins (id : Nat) (d1 d2 : ChanDef) :
    defsFromMsg [(id, some d1), (id, some d2)] = .ok [(id, d2)] := by
  simp [defsFromMsg, goMapM, GoMap.ofList, GoMap.set, GoMap.contains]

/-! ## non-vacuity -/

private def exOutcome : Outcome :=
  { stage := "production", ts := 7, defs := [(2, ⟨1, [⟨5, 1⟩], []⟩), (1, ⟨2, [], [0xff]⟩)],
    va := [(2, 3999999999), (1, 5)], aggs := [((5, 1), .tsv 9 (.dec ⟨-15, -1⟩)), ((4, 3), .quote ⟨1, 0⟩ ⟨2, 0⟩ ⟨3, 0⟩)] }

private theorem exWF : exOutcome.WF :=
  ⟨by simp [GoMap.WF, GoMap.keys, exOutcome], by simp [GoMap.WF, GoMap.keys, exOutcome], by simp [GoMap.WF, GoMap.keys, exOutcome]⟩

private theorem exRange : valuesInRange exOutcome.aggs := by
  intro e he
  simp only [exOutcome, List.mem_cons, List.not_mem_nil, or_false] at he
  rcases he with rfl | rfl
  · exact ⟨by decide, sizeOK_of_bound _ (by decide)⟩
  · exact ⟨by decide, sizeOK_of_bound _ (by decide)⟩

private theorem exShallow : valuesShallow exOutcome.aggs := by
  intro e he
  simp only [exOutcome, List.mem_cons, List.not_mem_nil, or_false] at he
  rcases he with rfl | rfl <;> decide

private theorem exFits : fitsV0 exOutcome := by
  refine ⟨by decide, ?_⟩
  intro e he
  simp only [exOutcome, List.mem_cons, List.not_mem_nil, or_false] at he
  rcases he with rfl | rfl <;> decide

private theorem revSched : (⟨List.reverse, List.reverse, List.reverse⟩ : CodecSched).IsSched :=
  ⟨fun l => List.reverse_perm l, fun l => List.reverse_perm l, fun l => List.reverse_perm l⟩

/-- the hypotheses of the theorems above are satisfiable: a concrete outcome with two channels,
    sub-second validity starts, a negative timestamped decimal and a quote satisfies all of them,
    so both codecs round-trip it under a reversed iteration order -/
example : ∃ m o', toMsgV1 ⟨List.reverse, List.reverse, List.reverse⟩ exOutcome = .ok m ∧ fromMsgV1 m = .ok o' ∧
    o'.Equiv exOutcome ∧ o' = sorted exOutcome :=
  decode_encode_v1 _ revSched exOutcome exWF exRange exShallow
example : ∃ m o', toMsgV0 ⟨List.reverse, List.reverse, List.reverse⟩ exOutcome = .ok m ∧ fromMsgV0 m = .ok o' ∧
    o'.Equiv (floorVA exOutcome) ∧ o' = sorted (floorVA exOutcome) :=
  decode_encode_v0 _ revSched exOutcome exWF exFits exRange exShallow
/-- flooring really changes this outcome: 3.999999999 s becomes 3 s -/
example : (floorVA exOutcome).va = [(2, 3000000000), (1, 0)] := by decide

end DSV.Props.C10
