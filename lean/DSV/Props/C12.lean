import DSV.EVM.CodecLemmas
/-!
# C12 — EVM report codecs are faithful and well-typed, or they fail

Property theorems only (helper lemmas: `DSV/EVM/CodecLemmas.lean`; model: `DSV/EVM/Codec.lean`;
layout readers: `DSV/EVM/CodecDecode.lean`; specification formulas: `DSV/EVM/CodecSpec.lean`).

Quantification.  The theorems hold for **all** parsed opts (a fortiori for those accepted by
`Verify`, whose exact acceptance conditions are the `verify_*` theorems) and all reports, under

* `hfeed`  : the feed id is a `common.Hash` (32 bytes) — a Go type invariant,
* `hdom`   : `⌊validAfter/1s⌋ < ⌊observationTimestamp/1s⌋` for the two seconds-resolution formats —
             what `IsReportable` guarantees for them (C03),
* `valuesOk`, `feeSafeOf` where an *error* (rather than "no success") is claimed: decimal exponents
  are `int32`s and the library precondition of `QuoRem` holds (its violation is known finding K4,
  characterised exactly by `fee_panics_iff`).

`expiresAt`.  The code computes `observationTimestampSeconds + ExpirationWindow` in `uint32`; the sum
wraps (known finding F3).  The full-strength statement

    encode r o = ok bytes → abiDecode bytes = some { …, expiresAt := ⌊ts/1s⌋ + window, … }
    ⌊ts/1s⌋ + window ≥ 2^32 → encode r o = err _

is **false** for the model and for the code (`expiresAt_wraps_witness*`: ts 3 s, window 2^32−1 ⇒
expiresAt 2).  `encode_faithful_*` therefore state the decoded `expiresAt` as the wrapped sum,
`expiresAt_partial_*` give the specified value under the no-wrap side condition, and every other
field is at full strength.
-/
namespace DSV.Props.C12
open DSV DSV.LLO DSV.EVM

/-- layout readers (`abiDecode` of the property), defined in `DSV/EVM/CodecDecode.lean` -/
abbrev abiDecodePremium := @EVM.abiDecodeV3
abbrev abiDecodeUnpacked := @EVM.abiDecodeUnpacked
abbrev abiDecodeStreamlined := @EVM.abiDecodeStreamlined

/-! ## fee = round(baseUSDFee / price × 1e18), or 0 -/

/-- `CalculateFee` returns the specified fee whenever the library precondition holds -/
theorem fee_formula (price base : Dec) (h : feeSafe price base) :
    calculateFee price base = .ok (specFee price base) := calculateFee_eq price base h

/-- the specified fee is the integer nearest to `base/price × 10^18` (`num/den`), ties away from zero -/
theorem fee_is_nearest (price base : Dec) (hb : 0 < base.coef) (hp : 0 < price.coef) :
    2 * quoDen base price 18 * specFee price base ≤ 2 * quoNum base price 18 + quoDen base price 18 ∧
    2 * quoNum base price 18 + quoDen base price 18 < 2 * quoDen base price 18 * (specFee price base + 1) :=
  specFee_rounds price base hb hp

/-- `num/den` really is `base/price × 10^18`: cross-multiplied at a common power of ten -/
theorem fee_ratio (price base : Dec) :
    ∃ a b : Nat, quoNum base price 18 = base.coef * 10 ^ a ∧ quoDen base price 18 = price.coef * 10 ^ b ∧
      (a : Int) - b = base.exp - price.exp + 18 := by
  unfold quoNum quoDen
  by_cases h : base.exp - price.exp + 18 < 0
  · refine ⟨0, (-(base.exp - price.exp + 18)).toNat, by simp [h], by simp [h], ?_⟩
    omega
  · refine ⟨(base.exp - price.exp + 18).toNat, 0, by simp [h], by simp [h], ?_⟩
    omega

/-- zero fee when the price or the base fee is missing (zero) or negative -/
theorem fee_zero (price base : Dec) (h : base.coef ≤ 0 ∨ price.coef ≤ 0) :
    calculateFee price base = .ok 0 := by
  rw [calculateFee_eq price base (by unfold feeSafe; omega)]
  unfold specFee; rw [if_pos h]

/-- K4, exactly: `CalculateFee` panics iff both operands are positive and the exponent difference
    leaves `int32` -/
theorem fee_panics_iff (price base : Dec) : calculateFee price base = .panic ↔ ¬ feeSafe price base := by
  constructor
  · intro h hs; rw [calculateFee_eq price base hs] at h; cases h
  · exact calculateFee_panic price base

/-! ## streamlined -/

/-- success ⇒ the bytes decode, under the layout declared by the opts, to the feed id (or
    `(format, channel id)`), validAfter in nanoseconds, and each value `trunc(value × multiplier)` -/
theorem encode_faithful_streamlined (r : Report) (format : Nat) (o : StreamlinedOpts) (bytes : Bytes)
    (hfeed : ∀ f, o.feedID = some f → f.length = 32)
    (hfmt : format < 2 ^ 32) (hch : r.channelID < 2 ^ 32) (hva : r.validAfter < 2 ^ 64)
    (h : encodeStreamlined r format o = .ok bytes) :
    abiDecodeStreamlined o.feedID.isSome (streamlinedLayout o.abi) bytes = some
      { feedID := o.feedID,
        formatChannel := if o.feedID.isSome then none else some (format, r.channelID),
        validAfter := r.validAfter,
        values := (o.abi.zip r.values).map (fun p => specPacked p.1 p.2) } := by
  obtain ⟨_, _, payload, rfl, hd⟩ := encodeStreamlined_ok r format o bytes h
  unfold streamlinedHeader
  cases hf : o.feedID with
  | none => exact abiDecodeStreamlined_chan format r.channelID hfmt hch r.validAfter hva _ payload _ hd
  | some f => exact abiDecodeStreamlined_feed f (hfeed f hf) r.validAfter hva _ payload _ hd

/-- success ⇒ every value is of a supported shape and lies in its declared type (never wrapped/truncated) -/
theorem encode_ok_fits_streamlined (r : Report) (format : Nat) (o : StreamlinedOpts) (bytes : Bytes)
    (h : encodeStreamlined r format o = .ok bytes) :
    o.abi.length = r.values.length ∧ ∀ p ∈ o.abi.zip r.values, fitsPacked p.1 p.2 :=
  ⟨(encodeStreamlined_ok r format o bytes h).1, (encodeStreamlined_ok r format o bytes h).2.1⟩

/-- a value that does not fit its declared type (or is nil / of an unsupported type / mismatches its
    encoder count, or a length mismatch) ⇒ an error -/
theorem encode_rejects_streamlined (r : Report) (format : Nat) (o : StreamlinedOpts) (hok : valuesOk r.values)
    (hunfit : ¬ (o.abi.length = r.values.length ∧ ∀ p ∈ o.abi.zip r.values, fitsPacked p.1 p.2)) :
    ∃ c, encodeStreamlined r format o = .err c :=
  res_cases _ (encodeStreamlined_not_panic r format o hok)
    (fun bs hbs => hunfit (encode_ok_fits_streamlined r format o bs hbs))

theorem verify_streamlined (o : StreamlinedOpts) (n : Nat) :
    verifyStreamlined o n = .ok () ↔ o.abi.length = n := by
  unfold verifyStreamlined
  by_cases h : o.abi.length = n
  · simp [h]
  · simp [h]

/-! ## ABI-encode-unpacked -/

/-- success ⇒ header and payload decode to the specification (expiresAt: see the file header) -/
theorem encode_faithful_unpacked (r : Report) (o : UnpackedOpts) (bytes : Bytes)
    (hfeed : o.feedID.length = 32)
    (hdom : r.validAfter / 1000000000 < r.obsTs / 1000000000)
    (h : encodeUnpacked r o = .ok bytes) :
    ∃ v0 v1 rest, r.values = v0 :: v1 :: rest ∧
      abiDecodeUnpacked (unpackedLayout o.abi) bytes = some
        { feedID := o.feedID,
          validFrom := r.validAfter / 1000000000 + 1,
          timestamp := r.obsTs / 1000000000,
          nativeFee := (specFeeOf v0 o.baseUSDFee).toNat,
          linkFee := (specFeeOf v1 o.baseUSDFee).toNat,
          expiresAt := (r.obsTs / 1000000000 + o.window) % 2 ^ 32,
          values := (o.abi.zip rest).map (fun p => specPadded p.1 p.2) } := by
  obtain ⟨_, v0, v1, rest, hvals, hva, hts, _, _, header, payload, rfl, hh, hp⟩ := encodeUnpacked_ok r o bytes h
  obtain ⟨hl, hn, rfl⟩ := buildHeader_ok _ header hh
  obtain ⟨_, _, hd⟩ := buildPayload_ok o.abi rest payload hp
  refine ⟨v0, v1, rest, hvals, ?_⟩
  have hvf : (r.validAfter / 1000000000 + 1) % 2 ^ 32 = r.validAfter / 1000000000 + 1 :=
    Nat.mod_eq_of_lt (by omega)
  simp only [hvf] at *
  exact abiDecodeUnpacked_words o.feedID hfeed _ _ _ _ _ (by omega) (by omega)
    (Nat.mod_lt _ (by decide)) hn hl _ payload _ hd

/-- the specified expiresAt, under the no-wrap side condition (F3) -/
theorem expiresAt_partial_unpacked (r : Report) (o : UnpackedOpts) (bytes : Bytes)
    (hfeed : o.feedID.length = 32)
    (hdom : r.validAfter / 1000000000 < r.obsTs / 1000000000)
    (hnowrap : r.obsTs / 1000000000 + o.window < 2 ^ 32)
    (h : encodeUnpacked r o = .ok bytes) :
    ∃ d, abiDecodeUnpacked (unpackedLayout o.abi) bytes = some d ∧
      d.expiresAt = r.obsTs / 1000000000 + o.window := by
  obtain ⟨v0, v1, rest, _, hd⟩ := encode_faithful_unpacked r o bytes hfeed hdom h
  exact ⟨_, hd, Nat.mod_eq_of_lt hnowrap⟩

/-- success ⇒ every field except expiresAt fits its type -/
theorem encode_ok_fits_unpacked (r : Report) (o : UnpackedOpts) (bytes : Bytes)
    (hdom : r.validAfter / 1000000000 < r.obsTs / 1000000000)
    (h : encodeUnpacked r o = .ok bytes) :
    r.specimen = false ∧ ∃ v0 v1 rest, r.values = v0 :: v1 :: rest ∧
      r.validAfter / 1000000000 + 1 < 2 ^ 32 ∧ r.obsTs / 1000000000 < 2 ^ 32 ∧
      specFeeOf v0 o.baseUSDFee < (2 : Int) ^ 192 ∧ specFeeOf v1 o.baseUSDFee < (2 : Int) ^ 192 ∧
      o.abi.length = rest.length ∧ ∀ p ∈ o.abi.zip rest, fitsPadded p.1 p.2 := by
  obtain ⟨hs, v0, v1, rest, hvals, hva, hts, _, _, header, payload, rfl, hh, hp⟩ := encodeUnpacked_ok r o bytes h
  obtain ⟨hl, hn, _⟩ := buildHeader_ok _ header hh
  obtain ⟨hlen, hf, _⟩ := buildPayload_ok o.abi rest payload hp
  exact ⟨hs, v0, v1, rest, hvals, by omega, by omega, hn.2, hl.2, hlen, hf⟩

/-- a field that does not fit its type ⇒ an error (never wrapped or truncated) -/
theorem encode_rejects_unpacked (r : Report) (o : UnpackedOpts) (v0 v1 : Option SV) (rest : List (Option SV))
    (hvals : r.values = v0 :: v1 :: rest)
    (hdom : r.validAfter / 1000000000 < r.obsTs / 1000000000)
    (hok : valuesOk r.values) (hs0 : feeSafeOf v0 o.baseUSDFee) (hs1 : feeSafeOf v1 o.baseUSDFee)
    (hunfit : ¬ (r.validAfter / 1000000000 + 1 < 2 ^ 32 ∧ r.obsTs / 1000000000 < 2 ^ 32 ∧
      specFeeOf v0 o.baseUSDFee < (2 : Int) ^ 192 ∧ specFeeOf v1 o.baseUSDFee < (2 : Int) ^ 192 ∧
      o.abi.length = rest.length ∧ ∀ p ∈ o.abi.zip rest, fitsPadded p.1 p.2)) :
    ∃ c, encodeUnpacked r o = .err c := by
  refine res_cases _ (encodeUnpacked_not_panic r o hok ?_) ?_
  · intro v hv
    rw [hvals] at hv
    simp only [List.take, List.mem_cons, List.not_mem_nil, or_false] at hv
    rcases hv with rfl | rfl
    · exact hs0
    · exact hs1
  · intro bs hbs
    obtain ⟨_, w0, w1, wrest, hw, h1, h2, h3, h4, h5, h6⟩ := encode_ok_fits_unpacked r o bs hdom hbs
    rw [hvals] at hw
    simp only [List.cons.injEq] at hw
    obtain ⟨rfl, rfl, rfl⟩ := hw
    exact hunfit ⟨h1, h2, h3, h4, h5, h6⟩

/-- the format cannot carry a specimen marker: specimen reports are refused -/
theorem specimen_refused_unpacked (r : Report) (o : UnpackedOpts) (h : r.specimen = true) :
    encodeUnpacked r o = .err "specimen" := by
  unfold encodeUnpacked; rw [if_pos h]

theorem verify_unpacked (o : UnpackedOpts) (n : Nat) :
    verifyUnpacked o n = .ok () ↔
      0 ≤ o.baseUSDFee.coef ∧ o.feedID ≠ List.replicate 32 0 ∧ 3 ≤ n ∧ o.abi.length = n - 2 := by
  unfold verifyUnpacked
  constructor
  · intro h
    split at h
    · cases h
    · split at h
      · cases h
      · split at h
        · cases h
        · split at h
          · cases h
          · refine ⟨by omega, by assumption, by omega, by omega⟩
  · rintro ⟨h1, h2, h3, h4⟩
    rw [if_neg (by omega), if_neg h2, if_neg (by omega), if_neg (by omega)]

/-! ## premium legacy -/

/-- success ⇒ the nine words decode to the specification (expiresAt: see the file header) -/
theorem encode_faithful_premium (r : Report) (o : PremiumOpts) (bytes : Bytes)
    (hfeed : o.feedID.length = 32)
    (hdom : r.validAfter / 1000000000 < r.obsTs / 1000000000)
    (h : encodePremium r o = .ok bytes) :
    ∃ v0 v1 bid bm ask, r.values = [v0, v1, some (.quote bid bm ask)] ∧
      abiDecodePremium bytes = some
        { feedID := o.feedID,
          validFrom := r.validAfter / 1000000000 + 1,
          timestamp := r.obsTs / 1000000000,
          nativeFee := (specFeeOf v0 o.baseUSDFee).toNat,
          linkFee := (specFeeOf v1 o.baseUSDFee).toNat,
          expiresAt := (r.obsTs / 1000000000 + o.window) % 2 ^ 32,
          benchmark := specScaled bm (o.multiplier.getD 1),
          bid := specScaled bid (o.multiplier.getD 1),
          ask := specScaled ask (o.multiplier.getD 1) } := by
  obtain ⟨_, v0, v1, bid, bm, ask, hvals, _, hva, hts, _, _, _, _, _, hb⟩ := encodePremium_ok r o bytes h
  obtain ⟨hbm, hbid, hask, hl, hn, rfl⟩ := buildReportV3_ok _ _ bytes hb
  refine ⟨v0, v1, bid, bm, ask, hvals, ?_⟩
  have hvf : (r.validAfter / 1000000000 + 1) % 2 ^ 32 = r.validAfter / 1000000000 + 1 :=
    Nat.mod_eq_of_lt (by omega)
  simp only [hvf] at *
  exact abiDecodeV3_words o.feedID hfeed _ _ _ _ _ _ _ _ (by omega) (by omega)
    (Nat.mod_lt _ (by decide)) hn hl hbm hbid hask

/-- the specified expiresAt, under the no-wrap side condition (F3) -/
theorem expiresAt_partial_premium (r : Report) (o : PremiumOpts) (bytes : Bytes)
    (hfeed : o.feedID.length = 32)
    (hdom : r.validAfter / 1000000000 < r.obsTs / 1000000000)
    (hnowrap : r.obsTs / 1000000000 + o.window < 2 ^ 32)
    (h : encodePremium r o = .ok bytes) :
    ∃ d, abiDecodePremium bytes = some d ∧ d.expiresAt = r.obsTs / 1000000000 + o.window := by
  obtain ⟨v0, v1, bid, bm, ask, _, hd⟩ := encode_faithful_premium r o bytes hfeed hdom h
  exact ⟨_, hd, Nat.mod_eq_of_lt hnowrap⟩

/-- success ⇒ every field except expiresAt fits its type -/
theorem encode_ok_fits_premium (r : Report) (o : PremiumOpts) (bytes : Bytes)
    (hdom : r.validAfter / 1000000000 < r.obsTs / 1000000000)
    (h : encodePremium r o = .ok bytes) :
    r.specimen = false ∧ ∃ v0 v1 bid bm ask, r.values = [v0, v1, some (.quote bid bm ask)] ∧
      r.validAfter / 1000000000 + 1 < 2 ^ 32 ∧ r.obsTs / 1000000000 < 2 ^ 32 ∧
      specFeeOf v0 o.baseUSDFee < (2 : Int) ^ 192 ∧ specFeeOf v1 o.baseUSDFee < (2 : Int) ^ 192 ∧
      C13.fits true 192 (specScaled bm (o.multiplier.getD 1)) ∧
      C13.fits true 192 (specScaled bid (o.multiplier.getD 1)) ∧
      C13.fits true 192 (specScaled ask (o.multiplier.getD 1)) := by
  obtain ⟨hs, v0, v1, bid, bm, ask, hvals, _, hva, hts, _, _, _, _, _, hb⟩ := encodePremium_ok r o bytes h
  obtain ⟨hbm, hbid, hask, hl, hn, _⟩ := buildReportV3_ok _ _ bytes hb
  exact ⟨hs, v0, v1, bid, bm, ask, hvals, by omega, by omega, hn.2, hl.2, hbm, hbid, hask⟩

/-- a field that does not fit its type — 32-bit times, 192-bit fees and prices — ⇒ an error -/
theorem encode_rejects_premium (r : Report) (o : PremiumOpts) (v0 v1 : Option SV) (bid bm ask : Dec)
    (hvals : r.values = [v0, v1, some (.quote bid bm ask)])
    (hdom : r.validAfter / 1000000000 < r.obsTs / 1000000000)
    (hok : valuesOk r.values) (hs0 : feeSafeOf v0 o.baseUSDFee) (hs1 : feeSafeOf v1 o.baseUSDFee)
    (hunfit : ¬ (r.validAfter / 1000000000 + 1 < 2 ^ 32 ∧ r.obsTs / 1000000000 < 2 ^ 32 ∧
      specFeeOf v0 o.baseUSDFee < (2 : Int) ^ 192 ∧ specFeeOf v1 o.baseUSDFee < (2 : Int) ^ 192 ∧
      C13.fits true 192 (specScaled bm (o.multiplier.getD 1)) ∧
      C13.fits true 192 (specScaled bid (o.multiplier.getD 1)) ∧
      C13.fits true 192 (specScaled ask (o.multiplier.getD 1)))) :
    ∃ c, encodePremium r o = .err c := by
  refine res_cases _ (encodePremium_not_panic r o hok ?_) ?_
  · intro v hv
    rw [hvals] at hv
    simp only [List.take, List.mem_cons, List.not_mem_nil, or_false] at hv
    rcases hv with rfl | rfl
    · exact hs0
    · exact hs1
  · intro bs hbs
    obtain ⟨_, w0, w1, b', m', a', hw, h1, h2, h3, h4, h5, h6, h7⟩ := encode_ok_fits_premium r o bs hdom hbs
    rw [hvals] at hw
    simp only [List.cons.injEq, Option.some.injEq, SV.quote.injEq, and_true] at hw
    obtain ⟨rfl, rfl, rfl, rfl, rfl⟩ := hw
    exact hunfit ⟨h1, h2, h3, h4, h5, h6, h7⟩

/-- the third value must be a quote: nil or any other type is an error, never a made-up price -/
theorem premium_needs_quote (r : Report) (o : PremiumOpts) (bytes : Bytes) (h : encodePremium r o = .ok bytes) :
    ∃ v0 v1 bid bm ask, r.values = [v0, v1, some (.quote bid bm ask)] := by
  obtain ⟨_, v0, v1, bid, bm, ask, hvals, _⟩ := encodePremium_ok r o bytes h
  exact ⟨v0, v1, bid, bm, ask, hvals⟩

/-- the format cannot carry a specimen marker: specimen reports are refused -/
theorem specimen_refused_premium (r : Report) (o : PremiumOpts) (h : r.specimen = true) :
    encodePremium r o = .err "specimen" := by
  unfold encodePremium; rw [if_pos h]

theorem verify_premium (o : PremiumOpts) (n : Nat) :
    verifyPremium o n = .ok () ↔ 0 ≤ o.baseUSDFee.coef ∧ o.feedID ≠ List.replicate 32 0 ∧ n = 3 := by
  unfold verifyPremium
  constructor
  · intro h
    split at h
    · cases h
    · split at h
      · cases h
      · split at h
        · cases h
        · refine ⟨by omega, by assumption, by omega⟩
  · rintro ⟨h1, h2, h3⟩
    rw [if_neg (by omega), if_neg h2, if_neg (by omega)]

/-! ## F3: the model (like the code) wraps expiresAt — concrete witnesses -/

def witnessReport : Report :=
  { seqNr := 1, channelID := 1, validAfter := 2000000005, obsTs := 3000000007,
    values := [none, none, some (.quote ⟨1, 0⟩ ⟨2, 0⟩ ⟨3, 0⟩)], specimen := false }

def witnessReportU : Report := { witnessReport with values := [none, none] }

def witnessPremiumOpts (window : Nat) : PremiumOpts :=
  { baseUSDFee := ⟨1, 0⟩, window := window, feedID := List.replicate 32 7, multiplier := none }

def witnessUnpackedOpts (window : Nat) : UnpackedOpts :=
  { baseUSDFee := ⟨1, 0⟩, window := window, feedID := List.replicate 32 7, abi := [] }

/-- timestamp 3 s, window 2^32 − 1: encoding succeeds and the report says it expires at second 2 —
    the specified value 2^32 + 2 does not fit `uint32` and no error is returned -/
theorem expiresAt_wraps_witness :
    ∃ bytes d, encodePremium witnessReport (witnessPremiumOpts 4294967295) = .ok bytes ∧
      abiDecodePremium bytes = some d ∧ d.timestamp = 3 ∧ d.expiresAt = 2 ∧
      ¬ (witnessReport.obsTs / 1000000000 + 4294967295 < 2 ^ 32) := by
  have hok : (encodePremium witnessReport (witnessPremiumOpts 4294967295)).isOk = true := by decide
  cases hb : encodePremium witnessReport (witnessPremiumOpts 4294967295) with
  | ok bytes =>
    obtain ⟨v0, v1, bid, bm, ask, _, hd⟩ :=
      encode_faithful_premium witnessReport (witnessPremiumOpts 4294967295) bytes (by decide) (by decide) hb
    exact ⟨bytes, _, rfl, hd, rfl, rfl, by decide⟩
  | err c => rw [hb] at hok; cases hok
  | panic => rw [hb] at hok; cases hok

/-- the same wrap in the ABI-encode-unpacked format -/
theorem expiresAt_wraps_witness_unpacked :
    ∃ bytes d, encodeUnpacked witnessReportU (witnessUnpackedOpts 4294967295) = .ok bytes ∧
      abiDecodeUnpacked (unpackedLayout []) bytes = some d ∧ d.timestamp = 3 ∧ d.expiresAt = 2 := by
  have hok : (encodeUnpacked witnessReportU (witnessUnpackedOpts 4294967295)).isOk = true := by decide
  cases hb : encodeUnpacked witnessReportU (witnessUnpackedOpts 4294967295) with
  | ok bytes =>
    obtain ⟨v0, v1, rest, _, hd⟩ :=
      encode_faithful_unpacked witnessReportU (witnessUnpackedOpts 4294967295) bytes (by decide) (by decide) hb
    exact ⟨bytes, _, rfl, hd, rfl, rfl⟩
  | err c => rw [hb] at hok; cases hok
  | panic => rw [hb] at hok; cases hok

/-! ## non-vacuity: the hypotheses of the theorems above are satisfiable and the error branch is reached -/

/-- a report in the domain that encodes (window 10: no wrap) -/
example : (encodePremium witnessReport (witnessPremiumOpts 10)).isOk = true ∧
    witnessReport.validAfter / 1000000000 < witnessReport.obsTs / 1000000000 ∧
    witnessReport.obsTs / 1000000000 + 10 < 2 ^ 32 ∧ (witnessPremiumOpts 10).feedID.length = 32 := by decide

/-- bid 2^191 does not fit int192: refused with the range error -/
example : encodePremium { witnessReport with values := [none, none, some (.quote ⟨2 ^ 191, 0⟩ ⟨2, 0⟩ ⟨3, 0⟩)] }
    (witnessPremiumOpts 10) = .err "int192-range" := by decide

/-- fee 2^192 (base fee 2^192 USD at a token price of 1e18 USD) does not fit uint192 -/
example : encodeUnpacked { witnessReport with values := [some (.dec ⟨1, 18⟩), none] }
    { witnessUnpackedOpts 10 with baseUSDFee := ⟨2 ^ 192, 0⟩ } = .err "uint192-range" := by decide

/-- streamlined: 255 × 1 fits uint8 and packs to one byte after the 16-byte header; 256 does not fit -/
example : encodeStreamlined { witnessReport with values := [some (.dec ⟨255, 0⟩)] } 5
    { feedID := none, abi := [⟨[⟨"uint8", none⟩]⟩] } =
    .ok [0, 0, 0, 5, 0, 0, 0, 1, 0, 0, 0, 0, 0x77, 0x35, 0x94, 0x05, 0xff] := by decide

example : encodeStreamlined { witnessReport with values := [some (.dec ⟨256, 0⟩)] } 5
    { feedID := none, abi := [⟨[⟨"uint8", none⟩]⟩] } = .err "out-of-range" := by decide

/-- K4 is reachable: price 1e-2147483648 -/
example : calculateFee ⟨1, -2147483648⟩ ⟨1, 0⟩ = .panic := by decide

end DSV.Props.C12
