import DSV.MTLS.Verify
import DSV.MTLS.Lock
import DSV.Lemmas.MtlsInv
/-!
# C20 — mTLS admits exactly the allow-listed Ed25519 keys; key replacement is atomic

Property theorems only.  Two parts:

* the **decision function** `verifyPeer` (what the closure returned by `VerifyPeerCertificate`
  computes against a given value of `r.keys`);
* the **lock protocol**: a transition system over an abstract `sync.RWMutex` and the shared cell
  `keys`, with any number of threads, any interleaving, threads spawned at any time.  The theorems
  are about *arbitrary* programs satisfying the decidable predicate `wl` ("well locked");
  `DSV/FactsOK/C20.lean` shows by evaluation that the programs extracted from the working tree
  (`Replace`, `Keys`, `isValidPublicKey`) satisfy it.

Partial by nature (DESIGN §4.C20): the TLS 1.3 handshake itself (`crypto/tls` calling the callback,
`RequireAnyClientCert`) and the Go memory model / `sync.RWMutex` implementation are not modelled;
they are exercised by real handshakes and a concurrent stress run in the harness.
-/
namespace DSV.Props.C20
open DSV DSV.MTLS

/-! ## decision function -/

theorem isValid_iff (keys : List Key) (pk : Key) : isValid keys pk = true ↔ pk ∈ keys := by
  simp only [isValid, List.any_eq_true, beq_iff_eq]
  constructor
  · rintro ⟨v, hv, rfl⟩; exact hv
  · intro h; exact ⟨pk, h, rfl⟩

/-- A peer is admitted **iff** it presents exactly one certificate, the certificate parses, its
    key algorithm is Ed25519, the key has the Ed25519 type, and the key is in the allow-list. -/
theorem verify_iff (parse : Bytes → Option Cert) (keys : List Key) (rawCerts : List Bytes) :
    verifyPeer parse keys rawCerts = .ok () ↔
      ∃ raw pk, rawCerts = [raw] ∧ parse raw = some ⟨.ed25519, some pk⟩ ∧ pk ∈ keys := by
  constructor
  · intro h
    unfold verifyPeer at h
    split at h
    · rename_i raw
      split at h
      · cases h
      · rename_i cert hc
        obtain ⟨alg, ek⟩ := cert
        unfold pubKeyFromCert at h
        by_cases ha : alg = .ed25519
        · subst ha
          cases ek with
          | none => simp at h
          | some pk =>
            simp only [ne_eq, not_true_eq_false, if_false] at h
            by_cases hv : isValid keys pk = true
            · exact ⟨raw, pk, rfl, hc, (isValid_iff keys pk).1 hv⟩
            · simp [hv] at h
        · simp [ha] at h
    · cases h
  · rintro ⟨raw, pk, rfl, hp, hk⟩
    simp [verifyPeer, hp, pubKeyFromCert, (isValid_iff keys pk).2 hk]

/-- the rejection classes named in the property: no certificate, more than one, a certificate that
    does not parse, a non-Ed25519 key, an unlisted key — each is an *error*, never an acceptance -/
theorem verify_rejects (parse : Bytes → Option Cert) (keys : List Key) :
    verifyPeer parse keys [] = .err "cert-count"
    ∧ (∀ a b rest, verifyPeer parse keys (a :: b :: rest) = .err "cert-count")
    ∧ (∀ raw, parse raw = none → verifyPeer parse keys [raw] = .err "parse")
    ∧ (∀ raw alg ek, parse raw = some ⟨alg, ek⟩ → alg ≠ .ed25519 →
        verifyPeer parse keys [raw] = .err "not-ed25519")
    ∧ (∀ raw pk, parse raw = some ⟨.ed25519, some pk⟩ → pk ∉ keys →
        verifyPeer parse keys [raw] = .err "unknown-key") := by
  refine ⟨rfl, fun _ _ _ => rfl, ?_, ?_, ?_⟩
  · intro raw h; simp [verifyPeer, h]
  · intro raw alg ek h ha; simp [verifyPeer, h, pubKeyFromCert, ha]
  · intro raw pk h hk
    have : isValid keys pk = false := by
      cases hv : isValid keys pk
      · rfl
      · exact absurd ((isValid_iff keys pk).1 hv) hk
    simp [verifyPeer, h, pubKeyFromCert, this]

/-- the callback never panics (`rawCerts[0]` is guarded by the length check) -/
theorem verify_never_panics (parse : Bytes → Option Cert) (keys : List Key) (rawCerts : List Bytes) :
    verifyPeer parse keys rawCerts ≠ .panic := by
  unfold verifyPeer
  split
  · split
    · simp
    · rename_i cert _
      obtain ⟨alg, ek⟩ := cert
      unfold pubKeyFromCert
      by_cases ha : alg = .ed25519
      · subst ha
        cases ek with
        | none => simp
        | some pk => by_cases hv : isValid keys pk = true <;> simp [hv]
      · simp [ha]
  · simp

/-- an allow-list is constructed exactly from non-empty lists of 32-byte keys, and is stored as given -/
theorem construct_iff (keys ks : List Key) :
    validPublicKeys keys = .ok ks ↔ ks = keys ∧ keys ≠ [] ∧ ∀ k ∈ keys, k.length = 32 := by
  unfold validPublicKeys
  constructor
  · intro h
    split at h
    · cases h
    · rename_i hne
      split at h
      · cases h
      · rename_i hlen
        cases h
        refine ⟨rfl, ?_, ?_⟩
        · intro he; subst he; simp at hne
        · intro k hk
          simp only [List.any_eq_true, not_exists, not_and, bne_iff_ne, ne_eq, Decidable.not_not] at hlen
          exact hlen k hk
  · rintro ⟨rfl, hne, hlen⟩
    have h1 : ks.isEmpty = false := by cases ks <;> simp_all
    have h2 : ks.any (fun k => k.length != 32) = false := by
      simp only [List.any_eq_false, bne_iff_ne, ne_eq, Decidable.not_not]
      exact hlen
    simp [h1, h2]

/-! ## lock protocol — for any number of threads running well-locked programs, any interleaving -/

variable {K : Type}

/-- **Mutual exclusion.**  In every reachable state, no thread is inside a write critical section
    together with any other thread inside a (read or write) critical section; and the abstract
    mutex agrees (a set writer flag means no readers). -/
theorem mutual_exclusion {s0 s : State K} (h0 : Init s0) (hr : Reachable s0 s) :
    s.threads.Pairwise (fun a b => ¬ overlapping a b) ∧ (s.sh.writer = true → s.sh.readers = 0) :=
  ⟨pairwise_not_overlapping (inv_reachable h0 hr), (inv_reachable h0 hr).excl⟩

/-- **No conflicting concurrent access to `keys`.**  In every reachable state there are no two
    distinct threads whose next actions both touch `keys` with at least one of them a write. -/
theorem no_conflicting_access {s0 s : State K} (h0 : Init s0) (hr : Reachable s0 s) :
    s.threads.Pairwise (fun a b => ¬ racing a b) := by
  have hi := inv_reachable h0 hr
  have hp := pairwise_not_overlapping hi
  rw [List.pairwise_iff_forall_sublist] at hp ⊢
  intro a b hab hrace
  have ha : a ∈ s.threads := hab.subset (by simp)
  have hb : b ∈ s.threads := hab.subset (by simp)
  apply hp hab
  rcases hrace with ⟨hw, hacc⟩ | ⟨hw, hacc⟩
  · exact .inl ⟨nextWrite_held (hi.wl_all a ha) hw, nextAccess_held (hi.wl_all b hb) hacc⟩
  · exact .inr ⟨nextWrite_held (hi.wl_all b hb) hw, nextAccess_held (hi.wl_all a ha) hacc⟩

/-- every access to `keys` that any thread ever performed happened inside a critical section -/
theorem accesses_inside_critical_sections {s0 s : State K} (h0 : Init s0) (hr : Reachable s0 s) :
    ∀ t ∈ s.threads, ∀ o ∈ t.obs, o.mode ≠ .none :=
  (inv_reachable h0 hr).obs_locked

/-- **Linearizability of reads.**  Every read of `keys` performed inside a read critical section
    (`isValidPublicKey`, both reads of `Keys`) returned the value `keys` had at that section's
    `RLock` point — under every interleaving with any number of concurrent `Replace` calls. -/
theorem linearizable {s0 s : State K} (h0 : Init s0) (hr : Reachable s0 s) :
    ∀ t ∈ s.threads, ∀ o ∈ t.obs, o.mode = .r → o.val = o.atLock :=
  (inv_reachable h0 hr).obs_ok

/-- the ghost `snap`/`atLock` really is "the value at the `RLock` point": taking the read lock
    records the current cell, and a read logs that record next to the value it returns -/
theorem atLock_is_value_at_rlock (sh sh' : Shared K) (t t' : Thread K) (p : List Act)
    (hp : t.prog = .rlock :: p) (he : exec sh t = some (sh', t')) :
    t'.snap = sh.cell ∧ t'.held = .r ∧ sh'.cell = sh.cell := by
  unfold exec at he
  rw [hp] at he
  simp only at he
  split at he
  · cases he
  · cases he; exact ⟨rfl, rfl, rfl⟩

/-- **`Replace` is one atomic update.**  Whenever a step changes `keys`, the stepping thread is
    inside its write critical section, every other thread is outside any critical section, and
    the new value is that thread's argument (`newKeys`). -/
theorem replace_atomic {s0 s s' : State K} (h0 : Init s0) (hr : Reachable s0 s) (hs : Step s s')
    (hc : s'.sh.cell ≠ s.sh.cell) :
    ∃ pre t post, s.threads = pre ++ t :: post ∧ t.held = .w ∧ s'.sh.cell = t.arg ∧
      ∀ u ∈ pre ++ post, u.held = .none := by
  have hi := inv_reachable h0 hr
  cases hs with
  | spawn sh ts t hf => exact absurd rfl hc
  | act sh sh' pre post t t' he =>
    obtain ⟨hw, hv⟩ := exec_cell_change he hc
    have hheld := nextWrite_held (hi.wl_all t (mem_split.2 (.inl rfl))) hw
    exact ⟨pre, t, post, rfl, hheld, hv, others_idle_of_writer hi hheld⟩

/-- while any thread is inside a read critical section, no step changes `keys` -/
theorem rlock_freezes_keys {s0 s s' : State K} (h0 : Init s0) (hr : Reachable s0 s) (hs : Step s s')
    (hreader : ∃ t ∈ s.threads, t.held = .r) : s'.sh.cell = s.sh.cell := by
  apply Classical.byContradiction
  intro hc
  obtain ⟨pre, t, post, hsplit, hw, _, hidle⟩ := replace_atomic h0 hr hs hc
  obtain ⟨u, hu, hur⟩ := hreader
  rw [hsplit] at hu
  rcases mem_split.1 hu with rfl | hu
  · rw [hw] at hur; cases hur
  · have := hidle u (List.mem_append.2 hu)
    rw [this] at hur; cases hur

/-- every value `keys` ever held is the initial list or the argument of some `Replace` call -/
theorem hist_sources {s0 s : State K} (h0 : Init s0) (hr : Reachable s0 s) :
    ∀ L ∈ s.sh.hist, L = s0.sh.cell ∨ ∃ t ∈ s.threads, L = t.arg :=
  hist_sources_aux h0.2.2.1 hr

/-- **A key present in every list that was ever current is never rejected**: whatever the
    interleaving, every verification (`isValid` applied to the value its read returned) says yes. -/
theorem in_both_never_rejected {s0 s : State (List Key)} (h0 : Init s0) (hr : Reachable s0 s) (k : Key)
    (hk : ∀ L ∈ s.sh.hist, k ∈ L) :
    ∀ t ∈ s.threads, ∀ o ∈ t.obs, isValid o.val k = true :=
  fun t ht o ho => (isValid_iff _ _).2 (hk _ ((inv_reachable h0 hr).obs_hist t ht o ho))

/-- **A key present in no list that was ever current is never accepted.** -/
theorem in_neither_never_accepted {s0 s : State (List Key)} (h0 : Init s0) (hr : Reachable s0 s) (k : Key)
    (hk : ∀ L ∈ s.sh.hist, k ∉ L) :
    ∀ t ∈ s.threads, ∀ o ∈ t.obs, isValid o.val k = false := by
  intro t ht o ho
  cases hv : isValid o.val k
  · rfl
  · exact absurd ((isValid_iff _ _).1 hv) (hk _ ((inv_reachable h0 hr).obs_hist t ht o ho))

/-- the property's wording: `old` is the initial list, every `Replace` installs `new`; a key in
    both is never rejected, a key in neither is never accepted -/
theorem old_new {s0 s : State (List Key)} (h0 : Init s0) (hr : Reachable s0 s) (old new : List Key)
    (hold : s0.sh.cell = old) (hnew : ∀ t ∈ s.threads, t.arg = new) (k : Key) :
    (k ∈ old → k ∈ new → ∀ t ∈ s.threads, ∀ o ∈ t.obs, isValid o.val k = true)
    ∧ (k ∉ old → k ∉ new → ∀ t ∈ s.threads, ∀ o ∈ t.obs, isValid o.val k = false) := by
  have src : ∀ L ∈ s.sh.hist, L = old ∨ L = new := by
    intro L hL
    rcases hist_sources h0 hr L hL with h | ⟨t, ht, h⟩
    · exact .inl (h.trans hold)
    · exact .inr (h.trans (hnew t ht))
  constructor
  · intro h1 h2
    apply in_both_never_rejected h0 hr k
    intro L hL
    rcases src L hL with rfl | rfl <;> assumption
  · intro h1 h2
    apply in_neither_never_accepted h0 hr k
    intro L hL
    rcases src L hL with rfl | rfl <;> assumption

/-! ## non-vacuity -/

section Examples
private def kA : Key := [1]
private def kB : Key := [2]
private def kC : Key := [3]
/-- the three programs as the source has them -/
private def pReplace : List Act := [.lock, .write, .unlock]
private def pVerify : List Act := [.rlock, .read, .runlock]
private def pKeys : List Act := [.rlock, .read, .read, .runlock]
private def th (p : List Act) (arg : List Key) : Thread (List Key) := ⟨p, arg, .none, [], []⟩
private def s0 : State (List Key) :=
  ⟨⟨false, 0, [kA, kB], [[kA, kB]]⟩, [th pVerify [], th pReplace [kC, kA], th pKeys []]⟩

/-- the hypotheses of the lock theorems are satisfiable: `s0` is initial … -/
example : Init s0 := by
  refine ⟨rfl, rfl, rfl, ?_⟩
  intro t ht
  simp only [s0, List.mem_cons, List.not_mem_nil, or_false] at ht
  rcases ht with rfl | rfl | rfl <;> exact ⟨rfl, by decide, rfl⟩

private def sh0 : Shared (List Key) := ⟨false, 0, [kA, kB], [[kA, kB]]⟩
private def tR : Thread (List Key) := th pReplace [kC, kA]
private def tK : Thread (List Key) := th pKeys []

/-- … and a state in which a verification has actually read the list is reachable (the verifier
    takes the read lock and reads), so the conclusions about `obs` are not vacuous -/
example : ∃ s, Reachable s0 s ∧ ∃ t ∈ s.threads, ∃ o ∈ t.obs, o.val = [kA, kB] ∧ o.mode = .r := by
  let v1 : Thread (List Key) := ⟨[.read, .runlock], [], .r, [kA, kB], []⟩
  let v2 : Thread (List Key) := ⟨[.runlock], [], .r, [kA, kB], [⟨.r, [kA, kB], [kA, kB]⟩]⟩
  let sh1 : Shared (List Key) := ⟨false, 1, [kA, kB], [[kA, kB]]⟩
  have e1 : Step s0 ⟨sh1, [] ++ v1 :: [tR, tK]⟩ := Step.act sh0 sh1 [] [tR, tK] (th pVerify []) v1 rfl
  have e2 : Step ⟨sh1, [] ++ v1 :: [tR, tK]⟩ ⟨sh1, [] ++ v2 :: [tR, tK]⟩ := Step.act sh1 sh1 [] [tR, tK] v1 v2 rfl
  exact ⟨_, .step (.step .refl e1) e2, v2, List.mem_cons_self, _, List.mem_cons_self, rfl, rfl⟩

/-- a state in which `Replace` is inside its critical section is reachable as well -/
example : ∃ s, Reachable s0 s ∧ ∃ t ∈ s.threads, t.held = .w := by
  let w1 : Thread (List Key) := ⟨[.write, .unlock], [kC, kA], .w, [kA, kB], []⟩
  let sh1 : Shared (List Key) := ⟨true, 0, [kA, kB], [[kA, kB]]⟩
  have e1 : Step s0 ⟨sh1, [th pVerify []] ++ w1 :: [tK]⟩ := Step.act sh0 sh1 [th pVerify []] [tK] tR w1 rfl
  exact ⟨_, .step .refl e1, w1, List.mem_cons_of_mem _ List.mem_cons_self, rfl⟩

/-- `wl` is not trivially true: each of the mutations of DESIGN §6 is rejected -/
example : wl .none [.read] = false := by decide                               -- RLock dropped
example : wl .none [.write, .lock, .unlock] = false := by decide              -- lock taken after the assignment
example : wl .none [.rlock, .write, .runlock] = false := by decide            -- write under the read lock
example : wl .none [.lock, .write] = false := by decide                       -- lock never released
example : wellLocked ["write keys", "Lock", "defer Unlock"] = false := by decide
example : wellLocked ["Lock", "defer Unlock", "write keys"] = true := by decide

/-- and the semantics really lets an ill-locked program race: a bare `read` next to a writer
    inside its critical section are both enabled -/
example : racing (K := List Key) ⟨[.write, .unlock], [], .w, [], []⟩ ⟨[.read], [], .none, [], []⟩ :=
  .inl ⟨rfl, rfl⟩

/-- the decision function accepts something and rejects something -/
example : verifyPeer (fun _ => some ⟨.ed25519, some kA⟩) [kA, kB] [[0]] = .ok () := by decide
example : verifyPeer (fun _ => some ⟨.ed25519, some kC⟩) [kA, kB] [[0]] = .err "unknown-key" := by decide
end Examples

end DSV.Props.C20
