import DSV.Props.C15
import DSV.Lemmas.OutcomeAggs
/-!
# C15, lifted to `Outcome()`

Kept apart from `Props/C15.lean` only because of the import order (`C11` uses `C15`, and the
closed form of the stored aggregate, `Lemmas/OutcomeAggs.lean`, uses `C11`).  Listed as an extra
module of C15 in `lean/obligations/C15.json`, built and audited with it.
-/
namespace DSV.Props.C15
open DSV DSV.LLO

/-- **mode aggregate, at the level of `Outcome()`**: a value the new outcome holds for a stream that
    some channel aggregates with the mode is either the previous outcome's timestamped value carried
    forward, or it was reported in this round, is of the most common type, and at least `f+1`
    contributing observations carry a byte-identical value of that type -/
theorem outcome_mode_honest (env : Env) (cfg : Cfg) (σ : Sched) (hσ : σ.IsSched) (n : Nat) (prev o : Outcome)
    (obs : List Obs) (hvals : ∀ x ∈ obs, GoMap.WF x.values) (h : outcome env cfg σ n prev obs = .ok o)
    (sid : Nat) (href : ∃ e ∈ o.defs, (⟨sid, aggMode⟩ : Stream) ∈ e.2.streams)
    (v : SV) (hv : o.aggs.get? (sid, aggMode) = some v) :
    copiedTsv prev (sid, aggMode) = some v ∨
    (some v ∈ (counted env obs).filterMap (obsValue sid) ∧
     v.type = (mostCommonType ((counted env obs).filterMap (obsValue sid))).1 ∧
     cfg.f + 1 ≤ ((counted env obs).filterMap (obsValue sid)).countP
       (isVote (mostCommonType ((counted env obs).filterMap (obsValue sid))).1 (marshalSV v))) := by
  obtain ⟨so, hso, hget⟩ := outcome_agg_lookup env cfg σ hσ n prev o obs hvals h sid aggMode href
  rw [hget] at hv
  rw [← hso]
  have hagg : aggregate aggMode ((so.get? sid).getD []) cfg.f = some (modeAgg ((so.get? sid).getD []) cfg.f) := by
    simp [aggregate, aggMode, aggMedian]
  unfold valueOf aggOneValue at hv
  simp only [hagg] at hv
  cases hm : modeAgg ((so.get? sid).getD []) cfg.f with
  | panic => rw [hm] at hv; simp at hv
  | err e => rw [hm] at hv; left; simpa using hv
  | ok r =>
    rw [hm] at hv
    cases r with
    | none => left; simpa using hv
    | some w =>
      have hfresh := mode_count _ _ _ hm
      cases w with
      | dec d => right; simp only [Option.some.injEq] at hv; subst hv; exact hfresh
      | quote a b c => right; simp only [Option.some.injEq] at hv; subst hv; exact hfresh
      | tsv t i =>
        simp only at hv
        cases hc : copiedTsv prev (sid, aggMode) with
        | none => rw [hc] at hv; right; simp only [Option.some.injEq] at hv; subst hv; exact hfresh
        | some pw =>
          rw [hc] at hv
          cases pw with
          | dec d => right; simp only [Option.some.injEq] at hv; subst hv; exact hfresh
          | quote a b c => right; simp only [Option.some.injEq] at hv; subst hv; exact hfresh
          | tsv pt pv =>
            by_cases hle : t ≤ pt
            · left
              simp only [hle, if_true, Option.some.injEq] at hv
              rw [hv]
            · right
              simp only [hle, if_false, Option.some.injEq] at hv
              subst hv; exact hfresh

end DSV.Props.C15
