import DSV.Props.C15
import DSV.Lemmas.OutcomeAggs
/-!
# C15, lifted to `Outcome()`

Kept apart from `Props/C15.lean` only because of the import order (`C11` uses `C15`, and the
closed form of the stored aggregate, `Lemmas/OutcomeAggs.lean`, uses `C11`).  Listed as an extra
module of C15 in `lean/obligations/C15.json`, built and audited with it.
-/
namespace DSV.Props.C15
open DSV DSV.LLO

/-- **mode aggregate, at the level of `Outcome()`**: a value the new outcome holds for a stream that
    some channel aggregates with the mode is either the previous outcome's timestamped value carried
    forward, or it was reported in this round, is of the most common type, and at least `f+1`
    contributing observations carry a byte-identical value of that type -/
theorem outcome_mode_honest (env : Env) (cfg : Cfg) (σ : Sched) (hσ : σ.IsSched) (n : Nat) (prev o : Outcome)
    (obs : List Obs) (hvals : ∀ x ∈ obs, GoMap.WF x.values) (h : outcome env cfg σ n prev obs = .ok o)
    (sid : Nat) (href : ∃ e ∈ o.defs, (⟨sid, aggMode⟩ : Stream) ∈ e.2.streams)
    (v : SV) (hv : o.aggs.get? (sid, aggMode) = some v) :
    copiedTsv prev (sid, aggMode) = some v ∨
    (some v ∈ (counted env obs).filterMap (obsValue sid) ∧
     v.type = (mostCommonType ((counted env obs).filterMap (obsValue sid))).1 ∧
     cfg.f + 1 ≤ ((counted env obs).filterMap (obsValue sid)).countP
       (isVote (mostCommonType ((counted env obs).filterMap (obsValue sid))).1 (marshalSV v))) := by
  obtain ⟨so, hso, hget⟩ := outcome_agg_lookup env cfg σ hσ n prev o obs hvals h sid aggMode href
  rw [hget] at hv
  rw [← hso]
  have hagg : aggregate aggMode ((so.get? sid).getD []) cfg.f = some (modeAgg ((so.get? sid).getD []) cfg.f) := by
    simp [aggregate, aggMode, aggMedian]
  unfold valueOf aggOneValue at hv
  simp only [hagg] at hv
  cases hm : modeAgg ((so.get? sid).getD []) cfg.f with
  | panic => rw [hm] at hv; simp at hv
  | err e => rw [hm] at hv; left; simpa using hv
  | ok r =>
    rw [hm] at hv
    cases r with
    | none => left; simpa using hv
    | some w =>
      have hfresh := mode_count _ _ _ hm
      cases w with
      | dec d => right; simp only [Option.some.injEq] at hv; subst hv; exact hfresh
      | quote a b c => right; simp only [Option.some.injEq] at hv; subst hv; exact hfresh
      | tsv t i =>
        simp only at hv
        cases hc : copiedTsv prev (sid, aggMode) with
        | none => rw [hc] at hv; right; simp only [Option.some.injEq] at hv; subst hv; exact hfresh
        | some pw =>
          rw [hc] at hv
          cases pw with
          | dec d => right; simp only [Option.some.injEq] at hv; subst hv; exact hfresh
          | quote a b c => right; simp only [Option.some.injEq] at hv; subst hv; exact hfresh
          | tsv pt pv =>
            by_cases hle : t ≤ pt
            · left
              simp only [hle, if_true, Option.some.injEq] at hv
              rw [hv]
            · right
              simp only [hle, if_false, Option.some.injEq] at hv
              subst hv; exact hfresh

end DSV.Props.C15

namespace DSV.Props.C15
open DSV DSV.LLO

/-- **what a report publishes**: the values of a channel report are, position by position, the outcome's
    aggregates for the (stream, aggregator) pairs of the channel's definition — nothing is looked up by stream id
    alone, nothing is taken from another aggregator of the same stream -/
theorem report_values_are_outcome_aggregates (cfg : Cfg) (σ : Sched) (encodes : Report → Nat → Bool) (seqNr : Nat)
    (o : Outcome) (rep : Report) (fmt : Nat) (stage : String)
    (h : ReportOut.channel rep fmt stage ∈ reports cfg σ encodes seqNr o) :
    ∃ cd, o.defs.get? rep.channelID = some cd ∧
      rep.values = cd.streams.map (fun s => o.aggs.get? (s.sid, s.agg)) := by
  unfold reports at h
  split at h
  · cases h
  · simp only [List.mem_append] at h
    rcases h with h | h
    · split at h
      · simp at h
      · cases h
    · simp only [List.mem_filterMap] at h
      obtain ⟨cid, _, hrep⟩ := h
      unfold channelReport at hrep
      split at hrep
      · cases hrep
      · rename_i cd hcd
        simp only at hrep
        split at hrep
        · cases hrep
          exact ⟨cd, hcd, rfl⟩
        · cases hrep

/-- **the mode value a report publishes was agreed**: if a report of the round's outcome carries, at the
    position of a (stream, mode) pair of its channel, a value that is not the previous outcome's timestamped
    value carried forward, then at least `f+1` contributing observations of the round reported exactly that
    value (byte-identical, of the most common type) -/
theorem published_mode_value_honest (env : Env) (cfg : Cfg) (σ : Sched) (hσ : σ.IsSched) (n : Nat) (prev o : Outcome)
    (obs : List Obs) (hvals : ∀ x ∈ obs, GoMap.WF x.values) (h : outcome env cfg σ n prev obs = .ok o)
    (encodes : Report → Nat → Bool) (seqNr : Nat) (rep : Report) (fmt : Nat) (stage : String)
    (hrep : ReportOut.channel rep fmt stage ∈ reports cfg σ encodes seqNr o)
    (i : Nat) (cd : ChanDef) (hcd : o.defs.get? rep.channelID = some cd) (sid : Nat)
    (hs : cd.streams[i]? = some ⟨sid, aggMode⟩) (v : SV) (hv : rep.values[i]? = some (some v)) :
    copiedTsv prev (sid, aggMode) = some v ∨
    (some v ∈ (counted env obs).filterMap (obsValue sid) ∧
     v.type = (mostCommonType ((counted env obs).filterMap (obsValue sid))).1 ∧
     cfg.f + 1 ≤ ((counted env obs).filterMap (obsValue sid)).countP
       (isVote (mostCommonType ((counted env obs).filterMap (obsValue sid))).1 (marshalSV v))) := by
  obtain ⟨cd', hcd', hvals'⟩ := report_values_are_outcome_aggregates cfg σ encodes seqNr o rep fmt stage hrep
  rw [hcd] at hcd'
  cases hcd'
  rw [hvals', List.getElem?_map, hs] at hv
  simp only [Option.map_some, Option.some.injEq] at hv
  have href : ∃ e ∈ o.defs, (⟨sid, aggMode⟩ : Stream) ∈ e.2.streams :=
    ⟨(rep.channelID, cd), GoMap.mem_of_get?_eq_some o.defs _ _ hcd, List.mem_of_getElem? hs⟩
  exact outcome_mode_honest env cfg σ hσ n prev o obs hvals h sid href v hv

end DSV.Props.C15
