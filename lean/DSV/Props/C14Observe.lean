import DSV.Lemmas.Observe
import DSV.Lemmas.ConvergeMap
/-!
# C14 (observation side) — a correct node's observation is accepted by every correct node

Property theorems about the full `observation()` model (`DSV/LLO/Observe.lean`): whatever the
previous outcome, the expected definition set, the caches and the (contract-abiding) data source,
if `Observation()` returns an observation then `ValidateObservation` of any node with the same
configuration accepts it — so the f+1 correct votes the convergence argument counts on are never
thrown away — and the observation has the shape the lifecycle theorems assume.
-/
namespace DSV.Props.C14
open DSV DSV.LLO DSV.GoMap

/-- **an honest observation is never rejected**: every per-observation limit of
    `ValidateObservation` (≤ 5 removals, ≤ 5 updates that verify, ≤ 10 000 stream values, no
    attestation without a predecessor, no nested timestamped value) holds of what `observation()`
    produces -/
theorem honest_observation_accepted (env : Env) (cfg : Cfg) (seqNr : Nat) (prev : Outcome) (nd : Node)
    (o : Obs) (hds : nd.DsOk) (h : observation env cfg seqNr prev nd = .ok (some o)) :
    validateObservation env cfg seqNr false o = none := by
  unfold observation at h
  split at h
  · cases h
  · rename_i hs1
    split at h
    · cases h
    · rename_i hs2
      have hseq : ¬ seqNr < 1 := hs1
      have hseq2 : (seqNr == 1) = false := by simpa using hs2
      split at h
      · cases h
      · split at h
        · -- retired: the empty observation
          simp only [GoRes.ok.injEq, Option.some.injEq] at h
          subst h
          simp [validateObservation, hseq, hseq2, emptyObs, verify_nil]
        · rename_i hret
          have hret' : (prev.stage == stageRetired) = false := by simpa using hret
          split at h
          · cases h
          · rename_i rm upd hv
            obtain ⟨hrm, hupd, hver⟩ := votes_ok env prev nd.expected rm upd hv
            have hprev := votes_prev_verified env prev nd.expected _ hv hret'
            -- peel the three collaborator calls
            cases hatt : callAttested cfg prev nd with
            | err c => rw [hatt] at h; cases h
            | panic => rw [hatt] at h; cases h
            | ok att =>
              rw [hatt] at h
              simp only [GoRes.bind] at h
              cases hsr : callShouldRetire nd with
              | err c => rw [hsr] at h; cases h
              | panic => rw [hsr] at h; cases h
              | ok sr =>
                rw [hsr] at h
                simp only at h
                cases hvals : callDs prev nd with
                | err c => rw [hvals] at h; cases h
                | panic => rw [hvals] at h; cases h
                | ok vals =>
                  rw [hvals] at h
                  simp only [GoRes.ok.injEq, Option.some.injEq] at h
                  subst h
                  -- attestation only with a predecessor
                  have hattest : cfg.hasPred = false → att = [] := by
                    intro hp
                    unfold callAttested at hatt
                    rw [hp] at hatt
                    simpa using hatt.symm
                  -- the stream values
                  have hvalsOk : vals.length ≤ env.maxStreamValues ∧ ∀ e ∈ vals, svAcceptable e.2 = true := by
                    unfold callDs at hvals
                    split at hvals
                    · cases hvals; simp
                    · cases hd : nd.ds (requestedStreams prev.defs) with
                      | err c => rw [hd] at hvals; cases hvals
                      | panic => rw [hd] at hvals; cases hvals
                      | ok vs =>
                        rw [hd] at hvals
                        cases hvals
                        obtain ⟨hwf, hsub, hacc⟩ := hds _ _ hd
                        refine ⟨?_, hacc⟩
                        have hk : (keys vals).length ≤ (requestedStreams prev.defs).length := by
                          apply List.Nodup.length_le_of_subset hwf
                          intro k hk
                          simp only [keys, List.mem_map] at hk
                          obtain ⟨e, he, rfl⟩ := hk
                          exact hsub e he
                        have := requested_le_of_verify env prev.defs hprev
                        simp only [keys, List.length_map] at hk
                        omega
                  have hany : (vals.any fun e => !svAcceptable e.2) = false := by
                    rw [List.any_eq_false]
                    intro e he
                    simp [hvalsOk.2 e he]
                  unfold validateObservation
                  simp only [hseq, hseq2, if_false, Bool.false_and, Bool.false_eq_true]
                  have h1 : (!cfg.hasPred && att.length != 0) = false := by
                    cases hp : cfg.hasPred
                    · simp [hattest hp]
                    · simp
                  rw [h1]
                  simp only [Bool.false_eq_true, if_false]
                  rw [if_neg (by omega), if_neg (by omega), hver]
                  simp only [Bool.not_true, Bool.false_eq_true, if_false]
                  rw [if_neg (by omega), hany]
                  simp

/-- **shape of an honest observation**: the timestamp is the node's clock; an attestation is
    attached only by an instance with a configured predecessor that is still staging; a retired
    instance votes for nothing -/
theorem honest_observation_shape (env : Env) (cfg : Cfg) (seqNr : Nat) (prev : Outcome) (nd : Node)
    (o : Obs) (h : observation env cfg seqNr prev nd = .ok (some o)) :
    (o.ts : Int) = nd.now ∧
    (o.attested ≠ [] → cfg.hasPred = true ∧ prev.stage = stageStaging) ∧
    (prev.stage = stageRetired → o = emptyObs o.ts) ∧
    (prev.stage ≠ stageRetired → observationVotes env prev nd.expected = some (o.removes, o.updates)) := by
  unfold observation at h
  split at h
  · cases h
  · split at h
    · cases h
    · split at h
      · cases h
      · rename_i hneg
        have hts : ((nd.now.toNat : Nat) : Int) = nd.now := Int.toNat_of_nonneg (by omega)
        split at h
        · rename_i hret
          simp only [GoRes.ok.injEq, Option.some.injEq] at h
          subst h
          refine ⟨hts, fun hne => absurd rfl hne, fun _ => rfl, fun hne => ?_⟩
          exact absurd (by simpa using hret) hne
        · rename_i hret
          split at h
          · cases h
          · rename_i rm upd hv
            cases hatt : callAttested cfg prev nd with
            | err c => rw [hatt] at h; cases h
            | panic => rw [hatt] at h; cases h
            | ok att =>
              rw [hatt] at h
              simp only [GoRes.bind] at h
              cases hsr : callShouldRetire nd with
              | err c => rw [hsr] at h; cases h
              | panic => rw [hsr] at h; cases h
              | ok sr =>
                rw [hsr] at h
                simp only at h
                cases hvals : callDs prev nd with
                | err c => rw [hvals] at h; cases h
                | panic => rw [hvals] at h; cases h
                | ok vals =>
                  rw [hvals] at h
                  simp only [GoRes.ok.injEq, Option.some.injEq] at h
                  subst h
                  refine ⟨hts, ?_, fun hr => ?_, fun _ => hv⟩
                  · intro hne
                    unfold callAttested at hatt
                    split at hatt
                    · rename_i hc
                      simpa using hc
                    · cases hatt; exact absurd rfl hne
                  · exact absurd (by simp [hr]) hret

namespace ObserveExample
def d : ChanDef := { format := 0, streams := [{ sid := 7, agg := 1 }], opts := [] }
def env : Env := { check := fun _ => none, hashOf := fun id _ => List.replicate id 0, verifyDef := fun _ => true }
def cfg : Cfg := { f := 1, version := 1, minInterval := 1, hasPred := true }
def prev : Outcome := { stage := stageStaging, ts := 0, defs := [(1, d)], va := [], aggs := [] }
def one : SV := .dec { coef := 1, exp := 0 }
def nd : Node :=
  { now := 5, attested := .ok [1, 2], shouldRetire := .ok true, expected := [(2, d)],
    ds := fun req => .ok (req.eraseDups.map fun s => (s, one)) }

theorem nd_dsOk : nd.DsOk := by
  intro req vs h
  simp only [nd, GoRes.ok.injEq] at h
  subst h
  refine ⟨?_, ?_, ?_⟩
  · simp only [WF, keys, List.map_map]
    have : ((fun e : Nat × SV => e.1) ∘ fun s => (s, one)) = id := rfl
    rw [this, List.map_id]
    exact nodup_eraseDups_gen req
  · intro e he
    simp only [List.mem_map] at he
    obtain ⟨s, hs, rfl⟩ := he
    exact List.mem_eraseDups.mp hs
  · intro e he
    simp only [List.mem_map] at he
    obtain ⟨s, _, rfl⟩ := he
    rfl

/-- **non-vacuity**: a staging instance with a predecessor, one channel to remove and one to add;
    the observation carries the attestation, the retire vote, both channel votes and the value of
    the one requested stream — and is accepted -/
theorem obs_eq : observation env cfg 2 prev nd = .ok (some
    { attested := [1, 2], shouldRetire := true, ts := 5, removes := [1], updates := [(2, d)], values := [(7, one)] }) := by
  have hv : observationVotes env prev nd.expected = some ([1], [(2, d)]) := by
    rw [observationVotes_eq env prev nd.expected (by decide) (by decide) (by decide)]
    simp [unwanted, pending, byKey, prev, nd, env, List.filter_cons, differs, get?]
    decide
  unfold observation
  rw [if_neg (by decide), if_neg (by decide), if_neg (by decide), if_neg (by decide), hv]
  decide

example : validateObservation env cfg 2 false
    { attested := [1, 2], shouldRetire := true, ts := 5, removes := [1], updates := [(2, d)], values := [(7, one)] } = none :=
  honest_observation_accepted env cfg 2 prev nd _ nd_dsOk obs_eq
end ObserveExample

end DSV.Props.C14
