import DSV.LLO.CodecObs
import DSV.LLO.CodecConfig
import DSV.Mercury.ConfigOnchain
import DSV.Lemmas.CodecObs
import DSV.Lemmas.CodecBigEndian
/-!
# C16 — observation, stream-value and configuration wire codecs round-trip and validate

Property theorems only.
* observation codec: message level (`ObsMsg` = `LLOObservationProto`; protobuf-go trusted for
  bytes ↔ message), stream values inside byte-level;
* stream values: byte level (`marshalSV` / `unmarshalProtoSV`; `Dec.marshalBinary` /
  `Dec.unmarshalBinary`);
* off-chain config: message level; on-chain configs and int192: byte level;
* retirement report: struct level (`encoding/json` trusted).
-/
namespace DSV.Props.C16
open DSV DSV.LLO

/-! ## observations -/

/-- what the properties of an observation's stream values mean on the Go side: exponents `int32`,
    times `uint64`, encoded size below 2^64 bytes, no timestamped value nested more than one
    level inside another one (nesting is never valid; deeper nesting is refused on decode) -/
def valuesOK (l : List (Nat × Option SV)) : Prop :=
  ∀ e ∈ nonNilValues l, e.2.inRange = true ∧ e.2.sizeOK ∧ e.2.tsvDepth ≤ 2

/-- Encoding then decoding an observation returns the same attestation, retire flag, timestamp
    (every `uint64`, through the legacy/new field rule), removal votes, definition votes and
    non-nil stream values — for every iteration order on both sides. -/
theorem obs_roundtrip (σ σ' : ObsSched) (hσ : σ.IsSched) (hσ' : σ'.IsSched) (o : ObsE)
    (hrm : o.removes.Nodup) (hup : GoMap.WF o.updates) (hvals : GoMap.WF o.values)
    (hv : valuesOK o.values) :
    ∃ m o', obsToMsg σ o = .ok m ∧ obsFromMsg σ' m = .ok o' ∧
      o'.attested = o.attested ∧ o'.shouldRetire = o.shouldRetire ∧ o'.ts = o.ts ∧
      o'.removes.Perm o.removes ∧ o'.updates.Perm o.updates ∧ o'.values.Perm (nonNilValues o.values) := by
  -- the message
  have hupd : GoMap.ofList (σ.updates o.updates) = σ.updates o.updates :=
    ofList_of_nodup _ (nodup_keys_of_perm (hσ.updates _).symm hup)
  have hnn : ((nonNilValues (σ.values o.values)).map (·.1)).Nodup :=
    (nonNilValues_keys_sublist _).nodup (nodup_keys_of_perm (hσ.values _).symm hvals)
  have hvalsMsg : GoMap.ofList ((nonNilValues (σ.values o.values)).map encValue) =
      (nonNilValues (σ.values o.values)).map encValue := by
    apply ofList_of_nodup
    rw [List.map_map]
    exact hnn
  refine ⟨obsMsgOf σ o, ?_⟩
  have henc : obsToMsg σ o = .ok (obsMsgOf σ o) := by
    unfold obsToMsg obsMsgOf
    rw [encode_values_eq, hupd, hvalsMsg]
  -- the decode
  have hrem : removesFromMsg [] (σ.removes o.removes) = .ok (σ.removes o.removes) := by
    have := removesFromMsg_ok (σ.removes o.removes) [] (by simpa using (hσ.removes _).nodup_iff.mpr hrm)
    simpa using this
  have hperm : (σ'.msgValues ((nonNilValues (σ.values o.values)).map encValue)).Perm
      ((nonNilValues (σ.values o.values)).map encValue) := hσ'.msgValues _
  have hstep : ∀ a ∈ σ'.msgValues ((nonNilValues (σ.values o.values)).map encValue),
      obsValueStep a = .ok (a.1, (unmarshalProtoSV a.2).toOption.getD default) ∧
      ∃ e ∈ nonNilValues (σ.values o.values), a = encValue e ∧ (a.1, (unmarshalProtoSV a.2).toOption.getD default) = e := by
    intro a ha
    have ha' := hperm.mem_iff.mp ha
    rw [List.mem_map] at ha'
    obtain ⟨e, he, rfl⟩ := ha'
    have he' : e ∈ nonNilValues o.values := (nonNilValues_perm (hσ.values _)).mem_iff.mp he
    obtain ⟨h1, h2, h3⟩ := hv e he'
    have hu := unmarshalProtoSV_makeSVMsg e.2 h1 h2
    rw [if_pos h3] at hu
    refine ⟨?_, e, he, rfl, ?_⟩
    · simp only [obsValueStep, encValue, hu]; rfl
    · simp only [encValue, hu]; rfl
  have hvals' : goMapM obsValueStep (σ'.msgValues ((nonNilValues (σ.values o.values)).map encValue)) =
      .ok ((σ'.msgValues ((nonNilValues (σ.values o.values)).map encValue)).map
        (fun a => (a.1, (unmarshalProtoSV a.2).toOption.getD default))) :=
    goMapM_ok _ _ _ (fun a ha => (hstep a ha).1)
  -- decoded values are a permutation of the non-nil values
  have hdec_perm : ((σ'.msgValues ((nonNilValues (σ.values o.values)).map encValue)).map
        (fun a => (a.1, (unmarshalProtoSV a.2).toOption.getD default))).Perm (nonNilValues o.values) := by
    refine ((hperm.map _).trans ?_).trans (nonNilValues_perm (hσ.values _))
    rw [List.map_map]
    have : ∀ e ∈ nonNilValues (σ.values o.values),
        ((fun (a : Nat × Option SVMsg) => (a.1, (unmarshalProtoSV a.2).toOption.getD default)) ∘ encValue) e = e := by
      intro e he
      have he' : e ∈ nonNilValues o.values := (nonNilValues_perm (hσ.values _)).mem_iff.mp he
      obtain ⟨h1, h2, h3⟩ := hv e he'
      have hu := unmarshalProtoSV_makeSVMsg e.2 h1 h2
      rw [if_pos h3] at hu
      simp only [Function.comp, encValue, hu]; rfl
    rw [List.map_congr_left this, List.map_id']
  have hdec_nodup : (((σ'.msgValues ((nonNilValues (σ.values o.values)).map encValue)).map
        (fun a => (a.1, (unmarshalProtoSV a.2).toOption.getD default))).map (·.1)).Nodup :=
    nodup_keys_of_perm hdec_perm.symm
      ((nonNilValues_keys_sublist _).nodup hvals)
  have hupd' : GoMap.ofList (σ'.updates (σ.updates o.updates)) = σ'.updates (σ.updates o.updates) :=
    ofList_of_nodup _ (nodup_keys_of_perm ((hσ'.updates _).trans (hσ.updates _)).symm hup)
  refine ⟨{ attested := o.attested, shouldRetire := o.shouldRetire, ts := o.ts, removes := σ.removes o.removes,
            updates := GoMap.ofList (σ'.updates (σ.updates o.updates)),
            values := GoMap.ofList ((σ'.msgValues ((nonNilValues (σ.values o.values)).map encValue)).map
              (fun a => (a.1, (unmarshalProtoSV a.2).toOption.getD default))) }, henc, ?_, rfl, rfl, rfl, hσ.removes _, ?_, ?_⟩
  · by_cases hpos : o.ts > 0
    · rw [obsFromMsg_eq]
      simp only [obsMsgOf, hrem, hvals', hpos, if_true]
    · have h0 : o.ts = 0 := by omega
      rw [obsFromMsg_eq]
      simp only [obsMsgOf, hrem, hvals', hpos, if_false]
      have hz : toInt64 0 = 0 := by decide
      simp [h0, hz]
  · rw [hupd']; exact (hσ'.updates _).trans (hσ.updates _)
  · rw [ofList_of_nodup _ hdec_nodup]; exact hdec_perm



/-- the legacy field carries the same timestamp whenever it fits `int64` -/
theorem obs_legacy_timestamp (σ : ObsSched) (o : ObsE) (h : o.ts < 2 ^ 63) :
    ∃ m, obsToMsg σ o = .ok m ∧ m.ts = o.ts ∧ m.tsLegacy = o.ts := by
  refine ⟨_, rfl, rfl, ?_⟩
  simp only [toInt64]
  have : o.ts % 18446744073709551616 = o.ts := by omega
  rw [this, if_neg (by omega)]

/-- The decoder rejects what it documents: duplicate removal ids, nil or unknown-typed stream
    values, a negative legacy timestamp without a new-style one.  It never panics. -/
theorem obs_rejects (σ : ObsSched) (hσ : σ.IsSched) (m : ObsMsg) :
    (¬ m.removes.Nodup → obsFromMsg σ m = .err errDuplicateRemove) ∧
    ((∃ e ∈ m.values, e.2 = none ∨ ∃ s, e.2 = some s ∧ (s.ty < 0 ∨ s.ty > 2)) → (obsFromMsg σ m).isErr = true) ∧
    (m.ts = 0 → m.tsLegacy < 0 → (obsFromMsg σ m).isErr = true) ∧
    obsFromMsg σ m ≠ .panic := by
  refine ⟨?_, ?_, ?_, obsFromMsg_ne_panic σ m⟩
  · intro hdup
    rw [obsFromMsg_eq, removesFromMsg_err m.removes [] List.nodup_nil (by simpa using hdup)]
  · rintro ⟨e, he, hbad⟩
    have hstep : (obsValueStep e).isErr = true := by
      unfold obsValueStep
      rcases hbad with hn | ⟨s, hs, hty⟩
      · rw [hn]; rfl
      · rw [hs]
        have : unmarshalProtoSV (some s) = .err errUnknownType := by
          unfold unmarshalProtoSV
          simp only
          rw [if_neg (by omega), if_neg (by omega), if_neg (by omega)]
        rw [this]; rfl
    have hgo := goMapM_err_of_mem obsValueStep (σ.msgValues m.values) obsValueStep_ne_panic e
      ((hσ.msgValues _).mem_iff.mpr he) hstep
    rw [obsFromMsg_eq]
    cases hr : removesFromMsg [] m.removes with
    | panic => exact absurd hr (removesFromMsg_ne_panic _ _)
    | err c => rfl
    | ok r =>
      cases hg : goMapM obsValueStep (σ.msgValues m.values) with
      | panic => exact absurd hg (goMapM_ne_panic _ _ obsValueStep_ne_panic)
      | err c => rfl
      | ok v => rw [hg] at hgo; cases hgo
  · intro hts hleg
    rw [obsFromMsg_eq]
    cases hr : removesFromMsg [] m.removes with
    | panic => exact absurd hr (removesFromMsg_ne_panic _ _)
    | err c => rfl
    | ok r =>
      cases hg : goMapM obsValueStep (σ.msgValues m.values) with
      | panic => exact absurd hg (goMapM_ne_panic _ _ obsValueStep_ne_panic)
      | err c => rfl
      | ok v =>
        simp only
        rw [if_neg (by omega), if_neg (by omega)]
        rfl

/-! ## stream values through their binary form -/

/-- `Decimal`: byte-level round trip (4-byte big-endian `int32` exponent ++ gob `big.Int`) -/
theorem decimal_binary_roundtrip (d : Dec) (h : d.expOk = true) :
    Dec.unmarshalBinary d.marshalBinary = some d :=
  Dec.unmarshalBinary_marshalBinary d h

/-- every stream value type round-trips through `MarshalBinary` / `UnmarshalProtoStreamValue`;
    a timestamped value nested more than one level inside another one is refused -/
theorem sv_binary_roundtrip (v : SV) (hr : v.inRange = true) (hs : v.sizeOK) :
    unmarshalProtoSV (some (makeSVMsg v)) = if v.tsvDepth ≤ 2 then .ok v else .err errTooDeep :=
  unmarshalProtoSV_makeSVMsg v hr hs

/-- nil and unknown-typed values are errors; no bytes make the decoder panic -/
theorem sv_binary_rejects (m : Option SVMsg) :
    (m = none → unmarshalProtoSV m = .err errNilValue) ∧
    (∀ s, m = some s → (s.ty < 0 ∨ s.ty > 2) → unmarshalProtoSV m = .err errUnknownType) ∧
    unmarshalProtoSV m ≠ .panic := by
  refine ⟨fun h => by rw [h]; rfl, ?_, unmarshalProtoSV_ne_panic m⟩
  intro s hs hty
  rw [hs]
  unfold unmarshalProtoSV
  simp only
  rw [if_neg (by omega), if_neg (by omega), if_neg (by omega)]

/-! ## off-chain configuration -/

/-- an off-chain configuration is accepted on decode exactly when it is valid (version 0 with
    interval 0, version 1 with interval ≥ 1), and then decodes to itself -/
theorem offchain_decode_iff_valid (c : OffchainCfg) :
    ((∃ c', decodeOffchain (some (encodeOffchain c)) = .ok c') ↔ c.valid = true) ∧
    (∀ c', decodeOffchain (some (encodeOffchain c)) = .ok c' → c' = c) ∧
    decodeOffchain (some (encodeOffchain c)) ≠ .panic := by
  obtain ⟨v, i⟩ := c
  simp only [decodeOffchain, encodeOffchain, OffchainCfg.validate, OffchainCfg.valid]
  by_cases h0 : v = 0
  · subst h0
    by_cases hi : i = 0
    · subst hi; simp
    · simp [hi]
  · by_cases h1 : v = 1
    · subst h1
      by_cases hi : i = 0
      · subst hi; simp
      · simp [hi]; omega
    · simp [h0, h1]

/-! ## LLO on-chain configuration (64 bytes) -/

theorem serializeSigned_one : serializeSigned 32 1 = .ok (beBytes 32 1) := by
  unfold serializeSigned
  rw [if_neg (by omega)]
  simp only
  rw [if_neg (by omega), if_neg]
  · rfl
  · have : (1 : Int).toNat = 1 := rfl
    rw [this]
    have : (1 : Nat) < 2 ^ (32 * 8 - 1) := Nat.one_lt_two_pow (by omega)
    omega

/-- encode then decode: version 1 and the predecessor digest come back (an all-zero digest is
    the encoding of "no predecessor") -/
theorem llo_onchain_roundtrip (pred : Option (List UInt8)) (hlen : ∀ d, pred = some d → d.length = 32) :
    ∃ b, encodeOnchain ⟨1, pred⟩ = .ok b ∧ b.length = 64 ∧
      decodeOnchain b = .ok ⟨1, if pred = some (List.replicate 32 0) then none else pred⟩ := by
  have hver : deserializeSigned 32 (beBytes 32 1) = .ok 1 := deserialize_serialize 32 1 _ serializeSigned_one
  have hbl : (beBytes 32 1).length = 32 := beBytes_length _ _
  cases pred with
  | none =>
    refine ⟨beBytes 32 1 ++ List.replicate 32 0, ?_, by simp [hbl], ?_⟩
    · simp [encodeOnchain, onchainConfigVersion, serializeSigned_one]
    · unfold decodeOnchain
      rw [if_neg (by simp [hbl, onchainConfigEncodedLength])]
      rw [List.take_left' hbl, hver]
      simp only [onchainConfigVersion]
      rw [if_neg (by decide), if_neg (by decide), List.drop_left' hbl]
      simp
  | some d =>
    have hd := hlen d rfl
    have hpad : (d ++ List.replicate 32 0).take 32 = d := by
      rw [List.take_left' hd]
    refine ⟨beBytes 32 1 ++ d, ?_, by simp [hbl, hd], ?_⟩
    · unfold encodeOnchain
      rw [if_neg (by simp [onchainConfigVersion])]
      simp only [onchainConfigVersion, Int.natCast_one, serializeSigned_one, hpad]
    · unfold decodeOnchain
      rw [if_neg (by simp [hbl, hd, onchainConfigEncodedLength])]
      rw [List.take_left' hbl, hver]
      simp only [onchainConfigVersion]
      rw [if_neg (by decide), if_neg (by decide), List.drop_left' hbl]
      have : d.take 32 = d := by rw [← hd]; exact List.take_length
      rw [this]
      by_cases hz : d = List.replicate 32 0
      · simp [hz]
      · simp

/-- wrong length, wrong version word, wrong version to encode: errors, never panics -/
theorem llo_onchain_rejects :
    (∀ b : List UInt8, b.length ≠ 64 → decodeOnchain b = .err errBadLength) ∧
    (∀ b : List UInt8, b.length = 64 → ∀ v, deserializeSigned 32 (b.take 32) = .ok v → v ≠ 1 →
      decodeOnchain b = .err errBadVersion) ∧
    (∀ c : OnchainCfg, c.version ≠ 1 → encodeOnchain c = .err errBadVersion) ∧
    (∀ b : List UInt8, decodeOnchain b ≠ .panic) := by
  refine ⟨?_, ?_, ?_, ?_⟩
  · intro b hb
    unfold decodeOnchain
    rw [if_pos (by simpa [onchainConfigEncodedLength] using hb)]
  · intro b hb v hv hne
    unfold decodeOnchain
    rw [if_neg (by simp [onchainConfigEncodedLength, hb]), hv]
    simp only [onchainConfigVersion]
    rw [if_pos (by simpa using hne)]
  · intro c hc
    unfold encodeOnchain
    rw [if_pos (by simpa [onchainConfigVersion] using hc)]
  · intro b
    unfold decodeOnchain
    split
    · simp
    · rename_i hl
      have hl' : b.length = 64 := by
        apply Classical.byContradiction; intro hn; exact hl (by simpa [onchainConfigEncodedLength] using hn)
      obtain ⟨v, hv⟩ := (deserializeSigned_ok_iff 32 (by omega) (b.take 32)).mpr (by simp [hl'])
      rw [hv]
      simp only
      split
      · simp
      · split <;> simp

/-! ## Mercury on-chain configuration (96 bytes) and int192 values -/

open DSV.Mercury in
/-- encode then decode returns `min` and `max` when both fit `int256` and `min ≤ max` -/
theorem mercury_onchain_roundtrip (c : Mercury.OnchainCfg) (hmin : fitsSigned 32 c.min) (hmax : fitsSigned 32 c.max)
    (hle : c.min ≤ c.max) :
    ∃ b, Mercury.encodeOnchain c = .ok b ∧ b.length = 96 ∧ Mercury.decodeOnchain b = .ok c := by
  obtain ⟨mnB, hmn⟩ := (serializeSigned_ok_iff 32 (by omega) c.min).mpr hmin
  obtain ⟨mxB, hmx⟩ := (serializeSigned_ok_iff 32 (by omega) c.max).mpr hmax
  have l0 : (beBytes 32 1).length = 32 := beBytes_length _ _
  have l1 := serializeSigned_length 32 _ _ hmn
  have l2 := serializeSigned_length 32 _ _ hmx
  have d0 : deserializeSigned 32 (beBytes 32 1) = .ok 1 := deserialize_serialize 32 1 _ serializeSigned_one
  have d1 := deserialize_serialize 32 _ _ hmn
  have d2 := deserialize_serialize 32 _ _ hmx
  refine ⟨beBytes 32 1 ++ mnB ++ mxB, ?_, by simp [l0, l1, l2], ?_⟩
  · simp [Mercury.encodeOnchain, Mercury.onchainConfigVersion, serializeSigned_one, hmn, hmx]
  · unfold Mercury.decodeOnchain
    rw [if_neg (by simp [l0, l1, l2, Mercury.onchainConfigEncodedLength])]
    have t0 : (beBytes 32 1 ++ mnB ++ mxB).take 32 = beBytes 32 1 := by
      rw [List.append_assoc, List.take_left' l0]
    have t1 : ((beBytes 32 1 ++ mnB ++ mxB).drop 32).take 32 = mnB := by
      rw [List.append_assoc, List.drop_left' l0, List.take_left' l1]
    have t2 : ((beBytes 32 1 ++ mnB ++ mxB).drop 64).take 32 = mxB := by
      have : (beBytes 32 1 ++ mnB).length = 64 := by simp [l0, l1]
      rw [List.drop_left' this]
      rw [← l2]; exact List.take_length
    rw [t0, d0]
    simp only [Mercury.onchainConfigVersion, ne_eq, not_true_eq_false, if_false, t1, d1, t2, d2]
    rw [if_neg (by omega)]

/-- `Encode` succeeds exactly when `min` and `max` fit `int256` (it does not compare them);
    `Decode` rejects wrong lengths, wrong versions and `min > max`; neither panics -/
theorem mercury_onchain_rejects :
    (∀ c : Mercury.OnchainCfg, (∃ b, Mercury.encodeOnchain c = .ok b) ↔ (fitsSigned 32 c.min ∧ fitsSigned 32 c.max)) ∧
    (∀ b : List UInt8, b.length ≠ 96 → Mercury.decodeOnchain b = .err errBadLength) ∧
    (∀ b : List UInt8, b.length = 96 → ∀ v, deserializeSigned 32 (b.take 32) = .ok v → v ≠ 1 →
      Mercury.decodeOnchain b = .err Mercury.errBadVersion) ∧
    (∀ b : List UInt8, b.length = 96 → deserializeSigned 32 (b.take 32) = .ok 1 →
      ∀ mn mx, deserializeSigned 32 ((b.drop 32).take 32) = .ok mn → deserializeSigned 32 ((b.drop 64).take 32) = .ok mx →
      mn > mx → Mercury.decodeOnchain b = .err Mercury.errMinGtMax) ∧
    (∀ b : List UInt8, Mercury.decodeOnchain b ≠ .panic) := by
  refine ⟨?_, ?_, ?_, ?_, ?_⟩
  · intro c
    unfold Mercury.encodeOnchain
    simp only [Mercury.onchainConfigVersion, serializeSigned_one]
    constructor
    · rintro ⟨b, hb⟩
      cases h1 : serializeSigned 32 c.min with
      | panic => rw [h1] at hb; cases hb
      | err e => rw [h1] at hb; cases hb
      | ok mnB =>
        cases h2 : serializeSigned 32 c.max with
        | panic => rw [h1, h2] at hb; cases hb
        | err e => rw [h1, h2] at hb; cases hb
        | ok mxB =>
          exact ⟨(serializeSigned_ok_iff 32 (by omega) c.min).mp ⟨_, h1⟩,
            (serializeSigned_ok_iff 32 (by omega) c.max).mp ⟨_, h2⟩⟩
    · rintro ⟨h1, h2⟩
      obtain ⟨mnB, hmn⟩ := (serializeSigned_ok_iff 32 (by omega) c.min).mpr h1
      obtain ⟨mxB, hmx⟩ := (serializeSigned_ok_iff 32 (by omega) c.max).mpr h2
      rw [hmn, hmx]
      exact ⟨_, rfl⟩
  · intro b hb
    unfold Mercury.decodeOnchain
    rw [if_pos (by simpa [Mercury.onchainConfigEncodedLength] using hb)]
  · intro b hb v hv hne
    unfold Mercury.decodeOnchain
    rw [if_neg (by simp [Mercury.onchainConfigEncodedLength, hb]), hv]
    simp [Mercury.onchainConfigVersion, hne]
  · intro b hb hv mn mx h1 h2 hgt
    unfold Mercury.decodeOnchain
    rw [if_neg (by simp [Mercury.onchainConfigEncodedLength, hb]), hv]
    simp only [Mercury.onchainConfigVersion, ne_eq, not_true_eq_false, if_false, h1, h2]
    rw [if_pos (by omega)]
  · intro b
    unfold Mercury.decodeOnchain
    split
    · simp
    · rename_i hl
      have hl' : b.length = 96 := by
        apply Classical.byContradiction; intro hn; exact hl (by simpa [Mercury.onchainConfigEncodedLength] using hn)
      obtain ⟨v, hv⟩ := (deserializeSigned_ok_iff 32 (by omega) (b.take 32)).mpr (by simp [hl'])
      obtain ⟨v1, hv1⟩ := (deserializeSigned_ok_iff 32 (by omega) ((b.drop 32).take 32)).mpr (by simp [hl'])
      obtain ⟨v2, hv2⟩ := (deserializeSigned_ok_iff 32 (by omega) ((b.drop 64).take 32)).mpr (by simp [hl'])
      rw [hv]
      simp only
      split
      · simp
      · rw [hv1]
        simp only
        rw [hv2]
        simp only
        split <;> simp

/-- int192: `EncodeValueInt192` succeeds exactly on −2^191 … 2^191−1, writes 24 bytes, and
    `DecodeValueInt192` returns the value; decoding succeeds exactly on 24 bytes and every decoded
    value is an int192 -/
theorem int192_roundtrip (i : Int) :
    ((∃ b, Mercury.encodeValueInt192 i = .ok b) ↔ (-((2 : Int) ^ 191) ≤ i ∧ i < (2 : Int) ^ 191)) ∧
    (∀ b, Mercury.encodeValueInt192 i = .ok b → b.length = 24 ∧ Mercury.decodeValueInt192 b = .ok i) ∧
    (∀ b : List UInt8, (∃ v, Mercury.decodeValueInt192 b = .ok v) ↔ b.length = 24) ∧
    (∀ (b : List UInt8) v, Mercury.decodeValueInt192 b = .ok v → -((2 : Int) ^ 191) ≤ v ∧ v < (2 : Int) ^ 191) := by
  refine ⟨?_, ?_, ?_, ?_⟩
  · exact serializeSigned_ok_iff 24 (by omega) i
  · intro b hb
    exact ⟨serializeSigned_length 24 i b hb, deserialize_serialize 24 i b hb⟩
  · intro b
    exact deserializeSigned_ok_iff 24 (by omega) b
  · intro b v hv
    exact deserializeSigned_fits 24 b v hv

/-! ## retirement report (struct level) -/

/-- the decoded report has the same protocol version and the same validity starts as a map,
    whatever order `encoding/json` lists the members in -/
theorem retirement_report_roundtrip (σ : List (Nat × Nat) → List (Nat × Nat)) (hσ : ∀ l, (σ l).Perm l)
    (r : RetirementReport) (hwf : GoMap.WF r.va) :
    (retirementFromMsg (retirementToMsg σ r)).version = r.version ∧
    (retirementFromMsg (retirementToMsg σ r)).va.Perm r.va := by
  refine ⟨rfl, ?_⟩
  simp only [retirementFromMsg, retirementToMsg]
  rw [ofList_of_nodup _ (nodup_keys_of_perm (hσ _).symm hwf)]
  exact hσ _

/-! ## non-vacuity -/

private def exObs : ObsE :=
  { attested := [1, 2], shouldRetire := true, ts := 0, removes := [9, 4],
    updates := [(3, ⟨2, [⟨1, 1⟩], []⟩)],
    values := [(7, some (.quote ⟨-25, -1⟩ ⟨-2, 0⟩ ⟨-15, -1⟩)), (5, none), (6, some (.tsv 1700000000123456789 (.dec ⟨1, -2147483648⟩)))] }

private theorem revObsSched : (⟨List.reverse, List.reverse, List.reverse, List.reverse⟩ : ObsSched).IsSched :=
  ⟨fun l => List.reverse_perm l, fun l => List.reverse_perm l, fun l => List.reverse_perm l, fun l => List.reverse_perm l⟩

/-- the hypotheses of `obs_roundtrip` are satisfiable: an observation with a nil value, a
    negative quote, an extreme-scale timestamped decimal and timestamp 0 -/
example : ∃ m o', obsToMsg ⟨List.reverse, List.reverse, List.reverse, List.reverse⟩ exObs = .ok m ∧
    obsFromMsg ObsSched.id m = .ok o' ∧ o'.attested = exObs.attested ∧ o'.shouldRetire = exObs.shouldRetire ∧
    o'.ts = exObs.ts ∧ o'.removes.Perm exObs.removes ∧ o'.updates.Perm exObs.updates ∧
    o'.values.Perm (nonNilValues exObs.values) := by
  apply obs_roundtrip _ _ revObsSched ⟨fun _ => .refl _, fun _ => .refl _, fun _ => .refl _, fun _ => .refl _⟩
  · decide
  · simp [GoMap.WF, GoMap.keys, exObs]
  · simp [GoMap.WF, GoMap.keys, exObs]
  · intro e he
    simp only [exObs, nonNilValues, List.filterMap_cons, Option.map_some, Option.map_none, List.filterMap_nil,
      List.mem_cons, List.not_mem_nil, or_false] at he
    rcases he with rfl | rfl
    · exact ⟨by decide, sizeOK_of_bound _ (by decide), by decide⟩
    · exact ⟨by decide, sizeOK_of_bound _ (by decide), by decide⟩

example : fitsSigned 32 (-(2 : Int) ^ 255) ∧ fitsSigned 32 ((2 : Int) ^ 255 - 1) := by
  constructor <;> (unfold fitsSigned; constructor <;> decide)

end DSV.Props.C16
