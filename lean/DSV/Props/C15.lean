import DSV.Lemmas.Mode
/-!
# C15 — the mode aggregate was reported identically by at least f+1 observers

Property theorems only.  "Byte-identical" is equality of `marshalSV` (the model of
`StreamValue.MarshalBinary`, what `ModeAggregator` counts on).
-/
namespace DSV.Props.C15
open DSV DSV.LLO

/-- result of the aggregator as the bytes it was counted under -/
def resBytes : GoRes (Option SV) → GoRes (Option (List UInt8))
  | .ok (some v) => .ok (some (marshalSV v))
  | .ok none => .ok none
  | .err e => .err e
  | .panic => .panic

/-- `x` is a value of type `t` whose serialized form is `k` -/
def isVote (t : Nat) (k : List UInt8) (x : Option SV) : Bool :=
  match x with
  | some w => w.type == t && marshalSV w == k
  | none => false

theorem countKey_ofType (t : Nat) (vs : List (Option SV)) (k : List UInt8) :
    countKey (keyedOf (ofType t vs)) k = vs.countP (isVote t k) := by
  unfold countKey keyedOf
  induction vs with
  | nil => simp [ofType]
  | cons x xs ih =>
    have hcons : ofType t (x :: xs) = ofType t [x] ++ ofType t xs := by
      rw [← ofType_append]; rfl
    rw [hcons, List.map_append, List.filter_append, List.length_append, ih, List.countP_cons]
    cases x with
    | none => simp [ofType_single_none, isVote]
    | some w =>
      rw [ofType_single_some]
      by_cases ht : w.type = t
      · by_cases hk : marshalSV w = k
        · simp [ht, hk, isVote]; omega
        · simp [ht, hk, isVote]
      · simp [ht, isVote]

/-- the most common type is an argmax of the per-type counts, ties going to the smaller type -/
theorem mostCommonType_is_argmax (vs : List (Option SV)) :
    let r := mostCommonType vs
    r.1 < 3 ∧ r.2 = ofType r.1 vs ∧
    ∀ t, t < 3 → (ofType t vs).length < (ofType r.1 vs).length ∨
      ((ofType t vs).length = (ofType r.1 vs).length ∧ r.1 ≤ t) :=
  mostCommonType_spec vs

/-- the most common type does not depend on the order of the observations -/
theorem mostCommonType_perm_invariant {a b : List (Option SV)} (h : a.Perm b) :
    (mostCommonType a).1 = (mostCommonType b).1 := mostCommonType_perm h

theorem countKey_keyedOf (t : Nat) (vs : List (Option SV)) (k : List UInt8) :
    countKey (keyedOf (ofType t vs)) k = vs.countP (isVote t k) := countKey_ofType t vs k

/-- a returned value was reported, is of the most common type, and at least `f+1` observations
    carry a byte-identical value of that type -/
theorem mode_count (vs : List (Option SV)) (f : Nat) (v : SV) (h : modeAgg vs f = .ok (some v)) :
    some v ∈ vs ∧ v.type = (mostCommonType vs).1 ∧
    f + 1 ≤ vs.countP (isVote (mostCommonType vs).1 (marshalSV v)) := by
  unfold modeAgg at h
  simp only at h
  obtain ⟨_, hbucket, _⟩ := mostCommonType_spec vs
  have hspec := modeOf_spec (keyedOf (mostCommonType vs).2)
  split at h
  · cases h
  · rename_i hcnt
    split at h
    · cases h
    · split at h
      · rename_i e hfind
        cases h
        have hmem := List.mem_of_find?_eq_some hfind
        have hkey := List.find?_some hfind
        simp only [beq_iff_eq] at hkey
        simp only [keyedOf, List.mem_map] at hmem
        obtain ⟨w, hw, rfl⟩ := hmem
        rw [hbucket] at hw
        obtain ⟨hin, hty⟩ := mem_ofType.mp hw
        refine ⟨hin, hty, ?_⟩
        rcases hspec.2 with h0 | ⟨_, hc, _⟩
        · rw [h0] at hcnt; simp at hcnt
        · simp only at hkey
          rw [← hkey] at hc
          have hc2 : countKey (keyedOf (mostCommonType vs).2) (marshalSV w) =
              vs.countP (isVote (mostCommonType vs).1 (marshalSV w)) := by
            rw [hbucket]; exact countKey_keyedOf _ _ _
          show f + 1 ≤ vs.countP (isVote (mostCommonType vs).1 (marshalSV w))
          omega
      · cases h

/-- if no serialized value of the most common type occurs at least `f+1` times, the aggregator
    returns an error (the stream gets no fresh aggregate) -/
theorem mode_err_otherwise (vs : List (Option SV)) (f : Nat)
    (h : ∀ k, vs.countP (isVote (mostCommonType vs).1 k) < f + 1) :
    modeAgg vs f = .err "not-enough" := by
  unfold modeAgg
  simp only
  obtain ⟨_, hbucket, _⟩ := mostCommonType_spec vs
  have hspec := modeOf_spec (keyedOf (mostCommonType vs).2)
  rw [if_pos]
  rcases hspec.2 with h0 | ⟨_, hc, _⟩
  · rw [h0]; simp
  · rw [← hc, hbucket, countKey_keyedOf]; exact h _

theorem varint_ne_nil (n : Nat) : varint n ≠ [] := by
  unfold varint; split <;> simp

theorem marshalSV_ne_nil (v : SV) : marshalSV v ≠ [] := by
  cases v with
  | dec d => simp [marshalSV, Dec.marshalBinary, Dec.expBytes]
  | quote a b c =>
    have : a.marshalBinary ≠ [] := by simp [Dec.marshalBinary, Dec.expBytes]
    simp [marshalSV, optBytes, fieldBytes, this, varint_ne_nil]
  | tsv t i =>
    simp [marshalSV, fieldBytes, varint_ne_nil]

/-- the aggregator never returns a nil value without an error, and never panics -/
theorem mode_never_nil_never_panics (vs : List (Option SV)) (f : Nat) :
    modeAgg vs f ≠ .ok none ∧ modeAgg vs f ≠ .panic := by
  unfold modeAgg
  simp only
  have hspec := modeOf_spec (keyedOf (mostCommonType vs).2)
  split
  · simp
  · rename_i hcnt
    split
    · rename_i hemp
      exfalso
      rcases hspec.2 with h0 | ⟨⟨e, he, hek⟩, _, _⟩
      · rw [h0] at hcnt; simp at hcnt
      · simp only [keyedOf, List.mem_map] at he
        obtain ⟨w, _, rfl⟩ := he
        simp only [List.isEmpty_iff] at hemp
        rw [hemp] at hek
        exact marshalSV_ne_nil w hek
    · split <;> simp

/-- order independence: permuting the observation list does not change the bytes of the result
    (nor whether it is an error) — the choice among equally frequent candidates is a function of the
    candidate multiset only -/
theorem mode_perm_invariant {a b : List (Option SV)} (h : a.Perm b) (f : Nat) :
    resBytes (modeAgg a f) = resBytes (modeAgg b f) := by
  have hkeyed : (keyedOf (mostCommonType a).2).Perm (keyedOf (mostCommonType b).2) :=
    (mostCommonType_bucket_perm h).map _
  have hmode := modeOf_perm hkeyed
  unfold modeAgg
  simp only
  rw [hmode]
  split
  · rfl
  · split
    · rfl
    · generalize (modeOf (keyedOf (mostCommonType b).2)).1 = k
      have find_iff : ((keyedOf (mostCommonType a).2).find? (fun e => e.1 == k)).isSome =
          ((keyedOf (mostCommonType b).2).find? (fun e => e.1 == k)).isSome := by
        rw [Bool.eq_iff_iff, List.find?_isSome, List.find?_isSome]
        exact ⟨fun ⟨x, hx, hk⟩ => ⟨x, hkeyed.mem_iff.mp hx, hk⟩, fun ⟨x, hx, hk⟩ => ⟨x, hkeyed.mem_iff.mpr hx, hk⟩⟩
      have bytes_of : ∀ (l : List SV) e, (keyedOf l).find? (fun e => e.1 == k) = some e →
          marshalSV e.2 = k := by
        intro l e he
        have hm := List.mem_of_find?_eq_some he
        have hk' := List.find?_some he
        simp only [keyedOf, List.mem_map] at hm
        obtain ⟨w, _, rfl⟩ := hm
        simpa using hk'
      cases ha : (keyedOf (mostCommonType a).2).find? (fun e => e.1 == k) with
      | none =>
        cases hb' : (keyedOf (mostCommonType b).2).find? (fun e => e.1 == k) with
        | none => rfl
        | some e => rw [ha, hb'] at find_iff; exact absurd find_iff (by simp)
      | some e =>
        cases hb' : (keyedOf (mostCommonType b).2).find? (fun e => e.1 == k) with
        | none => rw [ha, hb'] at find_iff; exact absurd find_iff (by simp)
        | some e' =>
          simp only [resBytes]
          rw [bytes_of _ _ ha, bytes_of _ _ hb']

/- Non-vacuity: the hypothesis `modeAgg vs f = .ok (some v)` of `mode_count` is met by
   `[7, 8, 7]` with `f = 1` (result `7`); the kernel cannot evaluate the well-founded byte encoders
   by `decide`, so this instance is checked by the correspondence run instead (boundary cases of
   the C15 generator: exactly f+1 agreeing values), where model and implementation both return `ok`. -/

end DSV.Props.C15
