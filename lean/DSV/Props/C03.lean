import DSV.Lemmas.StepWF
/-!
# C03 — per-channel report windows tile time: no gap, no overlap, never empty

`states = o₀ :: run env cfg o₀ rounds` are the agreed outcomes of one protocol instance.  A report for
channel `c` is produced from a state exactly when `isReportable` returns `none` for it (and the
report codec accepts it); it carries `validAfter = state.va[c]` and `obsTs = state.ts`
(`report_fields`).  The property is therefore about the sequence `state.va[c]`:

* `va_step` / `va_chain`: from one state to the next, `va[c]` becomes the (codec-truncated)
  observation timestamp of the previous state if that state was reportable for `c`, and is kept
  otherwise — for arbitrary timestamps and arbitrary add/replace votes, as long as `c` gets at most
  `f` removal votes and the round is not a promotion round;
* `chain`: hence a report's validity start equals the truncated observation timestamp of the
  previous report of the channel;
* `start_before_end`, `seconds_apart`: a reportable state has `va[c] < ts`, and for
  second-resolution formats (and protocol version 0) they fall in different seconds.
-/
namespace DSV.Props.C03
open DSV DSV.LLO DSV.GoMap

/-- the round does not promote the instance: it is not in staging, or no observation carries an
    attestation that verifies -/
def NoPromotion (env : Env) (prev : Outcome) (r : Round) : Prop :=
  prev.stage ≠ stageStaging ∨ ∀ x ∈ r.obs, env.check x.attested = none

/-- channel `c` is not voted out in this round -/
def NotRemoved (cfg : Cfg) (c : Nat) (r : Round) : Prop := votesFor (votesRemove c) r.obs ≤ cfg.f

/-- **one round**: the new validity start of a channel that has one -/
theorem va_step (env : Env) (cfg : Cfg) (r : Round) (prev o' : Outcome) (c v : Nat)
    (henv : EnvWF env) (hr : RoundOK env r) (hprev : WFOutcome prev)
    (hnp : NoPromotion env prev r) (hnr : NotRemoved cfg c r)
    (hv : prev.va.get? c = some v) (h : step env cfg r prev = .ok o') :
    o'.va.get? c = some (truncVA cfg (carried cfg prev c v)) := by
  obtain ⟨o, h1, h2⟩ := step_ok h
  have hw := outcome_wf henv hr.2 hprev h1
  obtain ⟨_, _, _, _, _, hva', _⟩ := codecRoundTrip_ok h2 hw.1 hw.2
  obtain ⟨_, t, ht, _, _, _, _, hva, _⟩ := outcome_ok h1
  obtain ⟨hinv, horig⟩ := tally_spec env cfg r.obs t hr.2 ht
  -- no promotion
  have hnp' : promotedBy prev t = false := by
    unfold promotedBy
    rcases hnp with h | h
    · simp [h]
    · cases hrr : t.validRR with
      | none => simp
      | some rr =>
        obtain ⟨x, hx, hc⟩ := horig rr hrr
        rw [h x (mem_counted env r.obs x hx)] at hc; cases hc
  -- c is not among the removed ids
  have hnotrm : c ∉ (removalsOf cfg r.σ (stageOf cfg prev t) prev t).1 := by
    unfold removalsOf
    rw [(applyRemovals_spec cfg _ prev.defs).1]
    intro hmem
    obtain ⟨v', hv', hfv⟩ := (mem_removedIds cfg _ c).mp hmem
    have hv'' := (hr.1.1 _).mem_iff.mp hv'
    by_cases hret : (stageOf cfg prev t == stageRetired) = true
    · simp [hret] at hv''
    · simp only [hret, Bool.false_eq_true, if_false] at hv''
      have hg := get?_eq_some_of_mem t.rmVotes hinv.wfRm (c, v') hv''
      have hcount := hinv.rm c
      rw [hg] at hcount
      simp only [Option.getD_some] at hcount
      have hle := votesFor_counted_le env r.obs (votesRemove c)
      unfold NotRemoved at hnr
      unfold counted at hle
      omega
  rw [hva' c, hva, vaOf_spec_carry cfg r.σ hr.1 prev t _ _ _ hprev.2 (Or.inl hnp') c, if_neg hnotrm, hv]
  rfl

/-- the validity start expected after a state `s` whose own validity start is `e` -/
def adv (cfg : Cfg) (c : Nat) (e : Nat) (s : Outcome) : Nat := truncVA cfg (carried cfg s c e)

/-- hypotheses on a whole history for channel `c` -/
def HistoryOK (env : Env) (cfg : Cfg) (c : Nat) (r : Round) : Prop :=
  RoundOK env r ∧ NotRemoved cfg c r ∧ (∀ x ∈ r.obs, env.check x.attested = none)

/-- **over a history**: every state has a validity start for `c`, and it is obtained from the
    previous state by `adv` -/
theorem va_chain (env : Env) (cfg : Cfg) (c : Nat) (henv : EnvWF env) (o0 : Outcome) (v0 : Nat)
    (h0 : WFOutcome o0) (hv0 : o0.va.get? c = some v0) (rs : List Round)
    (hrs : ∀ r ∈ rs, HistoryOK env cfg c r) :
    Consecutive (fun a b => ∃ va, a.va.get? c = some va ∧ b.va.get? c = some (adv cfg c va a))
      (o0 :: run env cfg o0 rs) := by
  apply run_consecutive env cfg (HistoryOK env cfg c) (fun o => WFOutcome o ∧ ∃ v, o.va.get? c = some v)
  · intro r o o' hq hp hs
    obtain ⟨hw, v, hv⟩ := hp
    exact ⟨step_wf henv hq.1 hw hs, _, va_step env cfg r o o' c v henv hq.1 hw (Or.inr hq.2.2) hq.2.1 hv hs⟩
  · intro r o o' hq hp hs
    obtain ⟨hw, v, hv⟩ := hp
    exact ⟨v, hv, va_step env cfg r o o' c v henv hq.1 hw (Or.inr hq.2.2) hq.2.1 hv hs⟩
  · exact ⟨h0, v0, hv0⟩
  · exact hrs

/-- a reportable state moves the validity start to its own observation timestamp; any other state
    keeps it (up to the codec's truncation, which is idempotent) -/
theorem adv_reportable (cfg : Cfg) (c e : Nat) (s : Outcome)
    (h : isReportable s c cfg.version cfg.minInterval = none) : adv cfg c e s = truncVA cfg s.ts := by
  unfold adv carried; rw [h]

theorem adv_unreportable (cfg : Cfg) (c e : Nat) (s : Outcome) (u : Unreportable)
    (h : isReportable s c cfg.version cfg.minInterval = some u) : adv cfg c e s = truncVA cfg e := by
  unfold adv carried; rw [h]

/-- **chain**: if state `a` is reportable for `c`, the following states `mid` are not, and then comes
    state `b`, the validity start at `b` is the truncated observation timestamp of `a`: the report
    produced from `b` starts exactly where the previous report (from `a`) ended -/
theorem chain (cfg : Cfg) (c : Nat) (a b : Outcome) (mid : List Outcome)
    (hcons : Consecutive (fun x y => ∃ va, x.va.get? c = some va ∧ y.va.get? c = some (adv cfg c va x))
      (a :: (mid ++ [b])))
    (ha : isReportable a c cfg.version cfg.minInterval = none)
    (hmid : ∀ m ∈ mid, isReportable m c cfg.version cfg.minInterval ≠ none) :
    b.va.get? c = some (truncVA cfg a.ts) := by
  -- generalise over the value carried so far
  have gen : ∀ (mid : List Outcome) (x : Outcome) (e : Nat),
      Consecutive (fun x y => ∃ va, x.va.get? c = some va ∧ y.va.get? c = some (adv cfg c va x)) (x :: (mid ++ [b])) →
      (∀ va, x.va.get? c = some va → adv cfg c va x = truncVA cfg e) →
      (∀ m ∈ mid, isReportable m c cfg.version cfg.minInterval ≠ none) →
      b.va.get? c = some (truncVA cfg e) := by
    intro mid
    induction mid with
    | nil =>
      intro x e hc hx _
      simp only [List.nil_append, Consecutive] at hc
      obtain ⟨⟨va, h1, h2⟩, _⟩ := hc
      rw [h2, hx va h1]
    | cons m ms ih =>
      intro x e hc hx hm
      simp only [List.cons_append, Consecutive] at hc
      obtain ⟨⟨va, h1, h2⟩, hrest⟩ := hc
      apply ih m e hrest
      · intro va' hva'
        rw [h2] at hva'
        simp only [Option.some.injEq] at hva'
        subst hva'
        have hnr := hm m (by simp)
        cases hrm : isReportable m c cfg.version cfg.minInterval with
        | none => exact absurd hrm hnr
        | some u =>
          rw [adv_unreportable cfg c _ m u hrm, hx va h1, truncVA_idem]
      · intro m' hm'; exact hm m' (by simp [hm'])
  exact gen mid a a.ts hcons (fun va _ => adv_reportable cfg c va a ha) hmid

/-- **never empty**: a reportable state has its validity start strictly before its observation
    timestamp, for every accepted configuration -/
theorem start_before_end (cfg : Cfg) (hv : cfg.valid = true) (o : Outcome) (c va : Nat)
    (hrep : isReportable o c cfg.version cfg.minInterval = none) (hva : o.va.get? c = some va) : va < o.ts := by
  unfold isReportable at hrep
  split at hrep
  · cases hrep
  · split at hrep
    · cases hrep
    · split at hrep
      · cases hrep
      · rename_i va' hva'
        rw [hva] at hva'
        simp only [Option.some.injEq] at hva'
        subst hva'
        split at hrep
        · cases hrep
        · rename_i h1
          split at hrep
          · cases hrep
          · rename_i h2
            unfold Cfg.valid at hv
            simp only [Bool.or_eq_true, Bool.and_eq_true, beq_iff_eq, bne_iff_ne, ne_eq] at hv
            simp only [Bool.or_eq_true, beq_iff_eq, ge_iff_le, not_and, Nat.not_le] at h2
            rcases hv with ⟨hv0, _⟩ | ⟨hv1, hi⟩
            · have := h2 (Or.inl hv0)
              have h3 : va / 1000000000 * 1000000000 ≤ va := Nat.div_mul_le_self _ _
              have h4 : o.ts < (o.ts / 1000000000 + 1) * 1000000000 := by
                have := Nat.lt_div_mul_add (a := o.ts) (b := 1000000000) (by decide); omega
              apply Classical.byContradiction; intro hge
              have : o.ts / 1000000000 ≤ va / 1000000000 := Nat.div_le_div_right (by omega)
              omega
            · have : ¬ (cfg.version > 0 ∧ (o.ts < va ∨ o.ts - va < cfg.minInterval)) := h1
              have hpos : cfg.version > 0 := by omega
              simp only [hpos, true_and, not_or, Nat.not_lt] at this
              omega

/-- **different seconds**: under protocol version 0, or for a report format with one-second
    resolution, start and end of a reportable state fall in different seconds -/
theorem seconds_apart (cfg : Cfg) (o : Outcome) (c va : Nat) (cd : ChanDef)
    (hrep : isReportable o c cfg.version cfg.minInterval = none) (hva : o.va.get? c = some va)
    (hcd : o.defs.get? c = some cd) (hres : cfg.version = 0 ∨ isSecondsResolution cd.format = true) :
    va / 1000000000 < o.ts / 1000000000 := by
  unfold isReportable at hrep
  split at hrep
  · cases hrep
  · rw [hcd, hva] at hrep
    simp only at hrep
    split at hrep
    · cases hrep
    · split at hrep
      · cases hrep
      · rename_i h2
        simp only [Bool.or_eq_true, beq_iff_eq, ge_iff_le, not_and, Nat.not_le] at h2
        exact h2 hres

/-- a channel report is built from the outcome: it carries the outcome's validity start for the
    channel and the outcome's observation timestamp, and exists only for a reportable channel -/
theorem report_fields (cfg : Cfg) (σ : Sched) (hσ : σ.IsSched) (encodes : Report → Nat → Bool) (seqNr : Nat)
    (o : Outcome) (rep : Report) (fmt : Nat) (stage : String)
    (h : ReportOut.channel rep fmt stage ∈ reports cfg σ encodes seqNr o) :
    isReportable o rep.channelID cfg.version cfg.minInterval = none ∧
    o.va.get? rep.channelID = some rep.validAfter ∧ rep.obsTs = o.ts := by
  unfold reports at h
  split at h
  · cases h
  · simp only [List.mem_append] at h
    rcases h with h | h
    · split at h
      · simp at h
      · cases h
    · simp only [List.mem_filterMap] at h
      obtain ⟨cid, hcid, hrep⟩ := h
      unfold channelReport at hrep
      split at hrep
      · cases hrep
      · simp only at hrep
        split at hrep
        · cases hrep
          -- cid is reportable
          unfold reportableChannels at hcid
          have hm := (List.mergeSort_perm _ _).mem_iff.mp hcid
          simp only [List.mem_filterMap] at hm
          obtain ⟨e, _, he⟩ := hm
          unfold reportableId at he
          split at he
          · rename_i hr
            cases he
            refine ⟨hr, ?_, rfl⟩
            -- a reportable channel has a validity start
            unfold isReportable at hr
            split at hr
            · cases hr
            · split at hr
              · cases hr
              · split at hr
                · cases hr
                · rename_i va hva; rw [hva]; rfl
          · cases he
        · cases hrep

/-! ## reports that are due but cannot be encoded (known finding F4)

`chain` relates *states*: the state `b` that follows a reportable state `a` (with only unreportable
states in between) starts where `a` ended.  A report is produced from a reportable state only if the
report codec encodes it (`encodes` in `reports`); every real codec refuses a report that lacks a value.
The validity start advances all the same — `adv` only asks whether the state was reportable. -/

/-- **chain over produced reports, partial.**  If a report for `c` is produced from state `a`, the next
    one from state `b`, and *no state in between was due for `c`*, the second report starts where the
    first one ended.  What is missing for the full statement of the property ("consecutive reports of
    the channel"): states in between that were due but whose report was not encoded — see
    `due_but_unencodable_round_moves_the_start`, `window_lost_witness`. -/
theorem chain_reports_partial (cfg : Cfg) (σ : Sched) (hσ : σ.IsSched) (encodes : Report → Nat → Bool)
    (sa sb : Nat) (a b : Outcome) (mid : List Outcome) (ra rb : Report) (fa fb : Nat) (sta stb : String)
    (hra : ReportOut.channel ra fa sta ∈ reports cfg σ encodes sa a)
    (hrb : ReportOut.channel rb fb stb ∈ reports cfg σ encodes sb b)
    (hc : rb.channelID = ra.channelID)
    (hcons : Consecutive (fun x y => ∃ va, x.va.get? ra.channelID = some va ∧
      y.va.get? ra.channelID = some (adv cfg ra.channelID va x)) (a :: (mid ++ [b])))
    (hmid : ∀ m ∈ mid, isReportable m ra.channelID cfg.version cfg.minInterval ≠ none) :
    rb.validAfter = truncVA cfg ra.obsTs := by
  obtain ⟨har, _, hats⟩ := report_fields cfg σ hσ encodes sa a ra fa sta hra
  obtain ⟨_, hbva, _⟩ := report_fields cfg σ hσ encodes sb b rb fb stb hrb
  have := chain cfg ra.channelID a b mid hcons har hmid
  rw [hc, this] at hbva
  rw [hats]
  exact (Option.some.inj hbva).symm

/-- a state that is due for `c` moves the validity start of the next state to its own observation
    timestamp — whether or not a report came out of it -/
theorem due_but_unencodable_round_moves_the_start (cfg : Cfg) (c : Nat) (m b : Outcome)
    (hstep : ∃ va, m.va.get? c = some va ∧ b.va.get? c = some (adv cfg c va m))
    (hm : isReportable m c cfg.version cfg.minInterval = none) :
    b.va.get? c = some (truncVA cfg m.ts) := by
  obtain ⟨va, _, hb⟩ := hstep
  rw [hb, adv_reportable cfg c va m hm]

/-- and no report comes out of a due state whose report the codec refuses -/
theorem no_report_when_codec_refuses (cfg : Cfg) (seqNr : Nat) (o : Outcome) (cid : Nat) :
    channelReport cfg (fun _ _ => false) seqNr o cid = none := by
  unfold channelReport
  split <;> simp

/-- **F4 witness.**  Protocol version 1, a JSON channel over streams 1 and 2, three consecutive outcomes
    at t = 10, 20, 30 related by `adv`; at t = 20 the channel is due but there is no aggregate for stream 2.
    With a codec that refuses a report lacking a value the produced reports are `(5, 10]` and `(20, 30]`:
    the second does not start where the first ended, and `(10, 20]` is never reported. -/
theorem window_lost_witness :
    let cfg : Cfg := ⟨1, 1, 1, false⟩
    let cd : ChanDef := ⟨2, [⟨1, 1⟩, ⟨2, 1⟩], []⟩
    let v : SV := .dec ⟨1, 0⟩
    let a : Outcome := { stage := stageProduction, ts := 10, defs := [(1, cd)], va := [(1, 5)], aggs := [((1, 1), v), ((2, 1), v)] }
    let m : Outcome := { stage := stageProduction, ts := 20, defs := [(1, cd)], va := [(1, 10)], aggs := [((1, 1), v)] }
    let b : Outcome := { stage := stageProduction, ts := 30, defs := [(1, cd)], va := [(1, 20)], aggs := [((1, 1), v), ((2, 1), v)] }
    let strict : Report → Nat → Bool := fun r _ => r.values.all Option.isSome
    -- the three outcomes are consecutive states of the validity-start recurrence
    (m.va.get? 1 = some (adv cfg 1 5 a) ∧ b.va.get? 1 = some (adv cfg 1 10 m))
    -- the channel is due in all three
    ∧ isReportable a 1 1 1 = none ∧ isReportable m 1 1 1 = none ∧ isReportable b 1 1 1 = none
    -- reports: one from `a`, none from `m`, one from `b` that starts at 20, not at 10
    ∧ (channelReport cfg strict 2 a 1).map (fun | .channel r _ _ => (r.validAfter, r.obsTs) | _ => (0, 0)) = some (5, 10)
    ∧ channelReport cfg strict 3 m 1 = none
    ∧ (channelReport cfg strict 4 b 1).map (fun | .channel r _ _ => (r.validAfter, r.obsTs) | _ => (0, 0)) = some (20, 30) := by
  decide

end DSV.Props.C03
