import DSV.Lemmas.AggsFun
import DSV.Lemmas.Sched
import DSV.Lemmas.StepWF
import DSV.Props.C11
import DSV.Props.C01Mercury
/-!
# C01 — consensus functions are deterministic

Go randomises the iteration order of every `for … range m` over a map.  In the model every such
loop of `outcome()` / `ReportableChannels` iterates `σ.site entries` for an arbitrary permutation
`σ.site` (`Sched.IsSched`).  Determinism = the result does not depend on `σ`:

* `outcome_sched_indep`: for any two schedules the two results are both errors of the same class,
  or both outcomes with equal stage, timestamp and channel definitions (as lists) and equal
  validity-start / aggregate maps (same lookups, well-formed);
* `agreed_outcome_sched_indep`: after the outcome codec's canonical (sorted) encoding the results
  are *equal* — this is the byte-level statement modulo the protobuf assumptions of C10;
* `reports_sched_indep`: the report list (order, contents, info) does not depend on the schedule.

The model takes no argument besides (configuration, sequence number, previous outcome,
observations): "any node, process, instance, restart, call history" is the absence of hidden
state, which is an extracted fact (no receiver-field / package-variable writes in these functions)
plus the repeated-evaluation monitor of the harness.
-/
namespace DSV.Props.C01
open DSV DSV.LLO DSV.GoMap

/-- equality of outcomes as Go values: maps compared by lookup -/
def OutcomeEquiv (a b : Outcome) : Prop :=
  a.stage = b.stage ∧ a.ts = b.ts ∧ a.defs = b.defs ∧
  WF a.va ∧ WF b.va ∧ (∀ k, a.va.get? k = b.va.get? k) ∧
  WF a.aggs ∧ WF b.aggs ∧ (∀ k, a.aggs.get? k = b.aggs.get? k)

theorem removedIds_perm' (cfg : Cfg) {a b : List (Nat × Nat)} (h : a.Perm b) :
    (removedIds cfg a).Perm (removedIds cfg b) := by
  unfold removedIds; exact (h.filter _).map _

theorem candLe_trans (a b c : Hash × (Nat × ChanDef)) (h1 : candLe a b = true) (h2 : candLe b c = true) :
    candLe a c = true := by
  unfold candLe at *
  simp only [Bool.or_eq_true, decide_eq_true_eq, Bool.and_eq_true, beq_iff_eq] at *
  rcases h1 with h1 | ⟨h1, h1'⟩ <;> rcases h2 with h2 | ⟨h2, h2'⟩
  · left; omega
  · left; omega
  · left; omega
  · right; exact ⟨by omega, bytesLe_trans _ _ _ h1' h2'⟩

theorem candLe_total (a b : Hash × (Nat × ChanDef)) : candLe a b = true ∨ candLe b a = true := by
  unfold candLe
  simp only [Bool.or_eq_true, decide_eq_true_eq, Bool.and_eq_true, beq_iff_eq]
  rcases Nat.lt_trichotomy a.2.1 b.2.1 with h | h | h
  · left; left; exact h
  · rcases bytesLe_total a.1 b.1 with h' | h'
    · left; right; exact ⟨h, h'⟩
    · right; right; exact ⟨h.symm, h'⟩
  · right; left; exact h

/-- the sorted candidate list is the same for every iteration order of the update-vote map -/
theorem cands_sched_indep (l l' : List (Hash × (Nat × ChanDef))) (hwf : WF l') (h : l.Perm l') :
    l.mergeSort candLe = l'.mergeSort candLe := by
  have hwfl : WF l := wf_of_perm' h hwf
  apply List.Perm.eq_of_pairwise (le := fun x y => candLe x y = true)
  · intro x y hx hy h1 h2
    unfold candLe at h1 h2
    simp only [Bool.or_eq_true, decide_eq_true_eq, Bool.and_eq_true, beq_iff_eq] at h1 h2
    have hk : x.1 = y.1 := by
      rcases h1 with h1 | ⟨_, h1⟩ <;> rcases h2 with h2 | ⟨_, h2⟩
      · omega
      · omega
      · omega
      · exact bytesLe_antisymm _ _ h1 h2
    have hx' : x ∈ l := (List.mergeSort_perm _ _).mem_iff.mp hx
    have hy' : y ∈ l := h.mem_iff.mpr ((List.mergeSort_perm _ _).mem_iff.mp hy)
    have g1 := get?_eq_some_of_mem l hwfl x hx'
    have g2 := get?_eq_some_of_mem l hwfl y hy'
    rw [hk, g2] at g1
    cases x; cases y; simp_all
  · exact List.pairwise_mergeSort (fun x y z => candLe_trans x y z) (fun x y => by simpa using candLe_total x y) _
  · exact List.pairwise_mergeSort (fun x y z => candLe_trans x y z) (fun x y => by simpa using candLe_total x y) _
  · exact ((List.mergeSort_perm _ _).trans h).trans (List.mergeSort_perm _ _).symm
where
  wf_of_perm' {a b : List (Hash × (Nat × ChanDef))} (h : a.Perm b) (hw : WF b) : WF a := by
    unfold WF keys at *; exact (h.map _).nodup_iff.mpr hw

/-- the `ChannelDefinitions` section does not depend on the schedule -/
theorem defsOf_sched_indep (env : Env) (cfg : Cfg) (σ σ' : Sched) (hσ : σ.IsSched) (hσ' : σ'.IsSched)
    (stage : String) (prev : Outcome) (t : Tally) (hwf : WF t.updDefs) :
    defsOf env cfg σ stage prev t = defsOf env cfg σ' stage prev t ∧
    (removalsOf cfg σ stage prev t).1.Perm (removalsOf cfg σ' stage prev t).1 := by
  have hrm : (σ.rmVotes (if stage == stageRetired then [] else t.rmVotes)).Perm
      (σ'.rmVotes (if stage == stageRetired then [] else t.rmVotes)) := (hσ.1 _).trans (hσ'.1 _).symm
  have hrem := removedIds_perm' cfg hrm
  have h2 : (removalsOf cfg σ stage prev t).2 = (removalsOf cfg σ' stage prev t).2 := by
    unfold removalsOf applyRemovals
    rw [applyRemovals_foldl, applyRemovals_foldl]
    exact foldl_erase_perm _ hrem
  have h1 : (removalsOf cfg σ stage prev t).1.Perm (removalsOf cfg σ' stage prev t).1 := by
    unfold removalsOf
    rw [(applyRemovals_spec cfg _ prev.defs).1, (applyRemovals_spec cfg _ prev.defs).1]
    exact hrem
  refine ⟨?_, h1⟩
  unfold defsOf
  rw [h2]
  congr 1
  have hu : (σ.updDefs (if stage == stageRetired then [] else t.updDefs)).Perm
      (σ'.updDefs (if stage == stageRetired then [] else t.updDefs)) := (hσ.2.1 _).trans (hσ'.2.1 _).symm
  apply cands_sched_indep _ _ _ hu
  have hbase : WF (if stage == stageRetired then ([] : GoMap Hash (Nat × ChanDef)) else t.updDefs) := by
    split
    · simp [WF, keys]
    · exact hwf
  unfold WF keys at *
  exact ((hσ'.2.1 _).map _).nodup_iff.mpr hbase

/-- **`outcome()` does not depend on map iteration order** -/
theorem outcome_sched_indep (env : Env) (cfg : Cfg) (σ σ' : Sched) (hσ : σ.IsSched) (hσ' : σ'.IsSched)
    (n : Nat) (prev : Outcome) (obs : List Obs)
    (henv : EnvWF env) (hobs : ∀ x ∈ obs, ObsWF env x) (hprev : WFOutcome prev) :
    match outcome env cfg σ n prev obs, outcome env cfg σ' n prev obs with
    | .ok a, .ok b => OutcomeEquiv a b
    | .err e, .err e' => e = e'
    | .panic, .panic => True
    | _, _ => False := by
  unfold outcome
  by_cases hn : n < 2 * cfg.f + 1
  · simp [hn]
  · simp only [hn, if_false]
    cases ht : tally env cfg obs with
    | panic => simp [GoRes.bind]
    | err e => simp [GoRes.bind]
    | ok t =>
      simp only [GoRes.bind]
      by_cases hl : (t.tss.length == 0) = true
      · simp [hl]
      · simp only [hl, Bool.false_eq_true, if_false]
        obtain ⟨hinv, horig⟩ := tally_spec env cfg obs t hobs ht
        obtain ⟨hdefs, hremoved⟩ := defsOf_sched_indep env cfg σ σ' hσ hσ' (stageOf cfg prev t) prev t hinv.wfUpd
        have hrrwf : ∀ rr, t.validRR = some rr → WF rr.va := by
          intro rr hrr; obtain ⟨x, _, hc⟩ := horig rr hrr; exact henv _ _ hc
        -- aggregates
        have hnp : ∀ k, aggOneValue cfg prev t.streamObs k ≠ .panic := fun k =>
          aggOneValue_no_panic cfg prev t.streamObs k (fun r hr => C11.aggregate_never_panics _ _ _ r hr)
        have f1 := aggregateAll_fun cfg prev t.streamObs
          (σ.defsAgg (defsOf env cfg σ (stageOf cfg prev t) prev t)) hnp
        have f2 := aggregateAll_fun cfg prev t.streamObs
          (σ'.defsAgg (defsOf env cfg σ' (stageOf cfg prev t) prev t)) hnp
        have hpairs : ∀ k, k ∈ ((σ.defsAgg (defsOf env cfg σ (stageOf cfg prev t) prev t)).flatMap (·.2.streams)).map (fun s => (s.sid, s.agg)) ↔
            k ∈ ((σ'.defsAgg (defsOf env cfg σ' (stageOf cfg prev t) prev t)).flatMap (·.2.streams)).map (fun s => (s.sid, s.agg)) := by
          intro k
          rw [← hdefs]
          have hp : (σ.defsAgg (defsOf env cfg σ (stageOf cfg prev t) prev t)).Perm
              (σ'.defsAgg (defsOf env cfg σ (stageOf cfg prev t) prev t)) :=
            (hσ.2.2.2.2.1 _).trans (hσ'.2.2.2.2.1 _).symm
          exact ((hp.flatMap_right _).map _).mem_iff
        cases ha : aggregateAll cfg prev t.streamObs (σ.defsAgg (defsOf env cfg σ (stageOf cfg prev t) prev t)) with
        | panic => rw [ha] at f1; exact f1.elim
        | err e =>
          rw [ha] at f1
          obtain ⟨he, p, hp, hpe⟩ := f1
          cases hb : aggregateAll cfg prev t.streamObs (σ'.defsAgg (defsOf env cfg σ' (stageOf cfg prev t) prev t)) with
          | panic => rw [hb] at f2; exact f2.elim
          | err e' => rw [hb] at f2; simp only; rw [he, f2.1]
          | ok b =>
            rw [hb] at f2
            obtain ⟨ov, hov⟩ := f2.1 p ((hpairs p).mp hp)
            rw [hpe] at hov; cases hov
        | ok a =>
          rw [ha] at f1
          cases hb : aggregateAll cfg prev t.streamObs (σ'.defsAgg (defsOf env cfg σ' (stageOf cfg prev t) prev t)) with
          | panic => rw [hb] at f2; exact f2.elim
          | err e' =>
            rw [hb] at f2
            obtain ⟨_, p, hp, hpe⟩ := f2
            obtain ⟨ov, hov⟩ := f1.1 p ((hpairs p).mpr hp)
            rw [hpe] at hov; cases hov
          | ok b =>
            rw [hb] at f2
            simp only
            refine ⟨rfl, rfl, hdefs, wf_vaOf env cfg σ prev t _ _ _ hrrwf, wf_vaOf env cfg σ' prev t _ _ _ hrrwf, ?_,
              f1.2.1, f2.2.1, ?_⟩
            · -- validity starts
              intro k
              rw [← hdefs]
              by_cases hp : promotedBy prev t = true
              · cases hrr : t.validRR with
                | none => unfold promotedBy at hp; simp [hrr] at hp
                | some rr =>
                  by_cases hne : rr.va.isEmpty = true
                  · rw [vaOf_spec_carry cfg σ hσ prev t _ _ _ hprev.2 (Or.inr (fun r hr => by rw [hrr] at hr; cases hr; exact hne)) k,
                        vaOf_spec_carry cfg σ' hσ' prev t _ _ _ hprev.2 (Or.inr (fun r hr => by rw [hrr] at hr; cases hr; exact hne)) k]
                    simp only [hremoved.mem_iff]
                  · have hne' : rr.va.isEmpty = false := by simpa using hne
                    rw [vaOf_spec_promote cfg σ hσ prev t _ _ _ rr hp hrr hne' k,
                        vaOf_spec_promote cfg σ' hσ' prev t _ _ _ rr hp hrr hne' k]
                    simp only [hremoved.mem_iff]
              · have hp' : promotedBy prev t = false := by simpa using hp
                rw [vaOf_spec_carry cfg σ hσ prev t _ _ _ hprev.2 (Or.inl hp') k,
                    vaOf_spec_carry cfg σ' hσ' prev t _ _ _ hprev.2 (Or.inl hp') k]
                simp only [hremoved.mem_iff]
            · intro k
              rw [f1.2.2 k, f2.2.2 k]
              by_cases hk : k ∈ ((σ.defsAgg (defsOf env cfg σ (stageOf cfg prev t) prev t)).flatMap (·.2.streams)).map (fun s => (s.sid, s.agg))
              · rw [if_pos hk, if_pos ((hpairs k).mp hk)]
              · rw [if_neg hk, if_neg (fun h => hk ((hpairs k).mpr h))]

end DSV.Props.C01

namespace DSV.Props.C01
open DSV DSV.LLO DSV.GoMap

/-! ### after the canonical encoding the results are equal -/

theorem natKey_trans (a b c : Nat) (h1 : decide (a ≤ b) = true) (h2 : decide (b ≤ c) = true) : decide (a ≤ c) = true := by
  simp only [decide_eq_true_eq] at *; omega
theorem natKey_total (a b : Nat) : decide (a ≤ b) = true ∨ decide (b ≤ a) = true := by
  simp only [decide_eq_true_eq]; omega
theorem natKey_antisymm (a b : Nat) (h1 : decide (a ≤ b) = true) (h2 : decide (b ≤ a) = true) : a = b := by
  simp only [decide_eq_true_eq] at *; omega

def pairLe (a b : Nat × Nat) : Bool := decide (a.1 < b.1 ∨ (a.1 = b.1 ∧ a.2 ≤ b.2))
theorem pairLe_trans (a b c : Nat × Nat) (h1 : pairLe a b = true) (h2 : pairLe b c = true) : pairLe a c = true := by
  unfold pairLe at *; simp only [decide_eq_true_eq] at *; omega
theorem pairLe_total (a b : Nat × Nat) : pairLe a b = true ∨ pairLe b a = true := by
  unfold pairLe; simp only [decide_eq_true_eq]; omega
theorem pairLe_antisymm (a b : Nat × Nat) (h1 : pairLe a b = true) (h2 : pairLe b a = true) : a = b := by
  unfold pairLe at *; simp only [decide_eq_true_eq] at *
  cases a; cases b; simp only [Prod.mk.injEq]; omega

/-- the codec's canonical form identifies equivalent outcomes -/
theorem codecRoundTrip_equiv (cfg : Cfg) (a b : Outcome) (h : OutcomeEquiv a b) :
    codecRoundTrip cfg a = codecRoundTrip cfg b := by
  obtain ⟨h1, h2, h3, wa, wb, hva, waa, wab, hag⟩ := h
  have pva : a.va.Perm b.va := perm_of_get?_eq wa wb hva
  have pag : a.aggs.Perm b.aggs := perm_of_get?_eq waa wab hag
  have sva : a.va.mergeSort (fun x y => decide (x.1 ≤ y.1)) = b.va.mergeSort (fun x y => decide (x.1 ≤ y.1)) :=
    mergeSort_eq_of_perm (fun x y => decide (x ≤ y)) natKey_trans natKey_total natKey_antisymm wa pva
  have sag : a.aggs.mergeSort (fun x y => pairLe x.1 y.1) = b.aggs.mergeSort (fun x y => pairLe x.1 y.1) :=
    mergeSort_eq_of_perm pairLe pairLe_trans pairLe_total pairLe_antisymm waa pag
  have wma : WF (a.va.map fun e => (e.1, e.2 / 1000000000 * 1000000000)) := by
    unfold WF; rw [keys_map_val a.va (fun v => v / 1000000000 * 1000000000)]; exact wa
  have smv : (a.va.map fun e => (e.1, e.2 / 1000000000 * 1000000000)).mergeSort (fun x y => decide (x.1 ≤ y.1)) =
      (b.va.map fun e => (e.1, e.2 / 1000000000 * 1000000000)).mergeSort (fun x y => decide (x.1 ≤ y.1)) :=
    mergeSort_eq_of_perm (fun x y => decide (x ≤ y)) natKey_trans natKey_total natKey_antisymm wma (pva.map _)
  have hany : a.va.any (fun e => decide (e.2 / 1000000000 > 4294967295)) = b.va.any (fun e => decide (e.2 / 1000000000 > 4294967295)) := by
    rw [Bool.eq_iff_iff, List.any_eq_true, List.any_eq_true]
    exact ⟨fun ⟨x, hx, hp⟩ => ⟨x, pva.mem_iff.mp hx, hp⟩, fun ⟨x, hx, hp⟩ => ⟨x, pva.mem_iff.mpr hx, hp⟩⟩
  unfold codecRoundTrip
  simp only
  have sag' : a.aggs.mergeSort (fun x y => decide (x.1.1 < y.1.1 ∨ (x.1.1 = y.1.1 ∧ x.1.2 ≤ y.1.2))) =
      b.aggs.mergeSort (fun x y => decide (x.1.1 < y.1.1 ∨ (x.1.1 = y.1.1 ∧ x.1.2 ≤ y.1.2))) := sag
  rw [hany, h2, h3, sva, smv, sag', h1]

/-- **the agreed (canonically encoded) outcome does not depend on map iteration order** -/
theorem agreed_outcome_sched_indep (env : Env) (cfg : Cfg) (σ σ' : Sched) (hσ : σ.IsSched) (hσ' : σ'.IsSched)
    (n : Nat) (prev : Outcome) (obs : List Obs)
    (henv : EnvWF env) (hobs : ∀ x ∈ obs, ObsWF env x) (hprev : WFOutcome prev) :
    (outcome env cfg σ n prev obs).bind (codecRoundTrip cfg) =
    (outcome env cfg σ' n prev obs).bind (codecRoundTrip cfg) := by
  have h := outcome_sched_indep env cfg σ σ' hσ hσ' n prev obs henv hobs hprev
  cases h1 : outcome env cfg σ n prev obs with
  | ok a =>
    cases h2 : outcome env cfg σ' n prev obs with
    | ok b => rw [h1, h2] at h; simp only [GoRes.bind]; exact codecRoundTrip_equiv cfg a b h
    | err e => rw [h1, h2] at h; exact h.elim
    | panic => rw [h1, h2] at h; exact h.elim
  | err e =>
    cases h2 : outcome env cfg σ' n prev obs with
    | ok b => rw [h1, h2] at h; exact h.elim
    | err e' => rw [h1, h2] at h; simp only [GoRes.bind]; rw [h]
    | panic => rw [h1, h2] at h; exact h.elim
  | panic =>
    cases h2 : outcome env cfg σ' n prev obs with
    | ok b => rw [h1, h2] at h; exact h.elim
    | err e' => rw [h1, h2] at h; exact h.elim
    | panic => rfl

/-- **the report list (order, contents, info) does not depend on map iteration order** -/
theorem reports_sched_indep (cfg : Cfg) (σ σ' : Sched) (hσ : σ.IsSched) (hσ' : σ'.IsSched)
    (encodes : Report → Nat → Bool) (seqNr : Nat) (o : Outcome) :
    reports cfg σ encodes seqNr o = reports cfg σ' encodes seqNr o := by
  have hrc : reportableChannels σ cfg o = reportableChannels σ' cfg o := by
    unfold reportableChannels
    have hp : ((σ.defsRep o.defs).filterMap (reportableId cfg o)).Perm ((σ'.defsRep o.defs).filterMap (reportableId cfg o)) :=
      ((hσ.2.2.2.2.2 _).trans (hσ'.2.2.2.2.2 _).symm).filterMap _
    apply List.Perm.eq_of_pairwise (le := fun x y => decide (x ≤ y) = true)
    · intro x y _ _ h1 h2; exact natKey_antisymm x y h1 h2
    · exact List.pairwise_mergeSort natKey_trans (fun x y => by simpa using natKey_total x y) _
    · exact List.pairwise_mergeSort natKey_trans (fun x y => by simpa using natKey_total x y) _
    · exact ((List.mergeSort_perm _ _).trans hp).trans (List.mergeSort_perm _ _).symm
  unfold reports
  rw [hrc]

/-- non-vacuity: reversing every map iteration is a schedule different from the identity -/
example : ({ rmVotes := List.reverse, updDefs := List.reverse, prevVA := List.reverse, defsVA := List.reverse,
             defsAgg := List.reverse, defsRep := List.reverse } : Sched).IsSched :=
  ⟨fun _ => List.reverse_perm _, fun _ => List.reverse_perm _, fun _ => List.reverse_perm _,
   fun _ => List.reverse_perm _, fun _ => List.reverse_perm _, fun _ => List.reverse_perm _⟩

end DSV.Props.C01
