import DSV.Lemmas.StepWF
/-!
# C14 — channel definitions converge to the agreed target in bounded rounds  (partial)

Proved here:
* `honest_votes_within_limits`: the votes a correct node produces respect the per-observation limits
  that `ValidateObservation` enforces (≤ 5 removals, ≤ 5 updates) and only mention definitions of the
  (verified) target set;
* `votes_are_the_diff`: removals are channels defined but not wanted, updates are wanted definitions
  that are missing or differ — so votes never point away from the target;
* `converged_stays`: once the outcome's channel set equals the target, a correct node votes for no
  change;
* `cap_step` / `cap_invariant`: no reachable outcome holds more than 2000 channels.

Not proved (kept as the differential `llo.converge` runs and monitor): the round bound
`ceil(max(#remove, #update)/5)` (potential-function argument of DESIGN §4 C14) — statement:

    theorem converges_partial : ∀ history in which ≥ f+1 correct observers share target T and every
      intermediate outcome passes VerifyChannelDefinitions, k ≥ ⌈max(#rm,#upd)/5⌉ → defs_k ≃ T

and the side condition is *not* implied by validity of the two endpoint sets: known finding F1
(`C14/wedged-union-exceeds-stream-limit`).
-/
namespace DSV.Props.C14
open DSV DSV.LLO DSV.GoMap

/-- the votes of a correct node respect the limits mirrored in `ValidateObservation` -/
theorem honest_votes_within_limits (env : Env) (prev : Outcome) (expected : GoMap Nat ChanDef)
    (rm : List Nat) (upd : GoMap Nat ChanDef) (h : observationVotes env prev expected = some (rm, upd)) :
    rm.length ≤ env.maxRemove ∧ upd.length ≤ env.maxUpdate ∧
    (∀ e ∈ upd, e ∈ expected.mergeSort (fun a b => decide (a.1 ≤ b.1))) := by
  unfold observationVotes at h
  split at h
  · cases h; simp
  · split at h
    · cases h
    · split at h
      · cases h; simp
      · simp only [Option.some.injEq, Prod.mk.injEq] at h
        obtain ⟨h1, h2⟩ := h
        subst h1 h2
        refine ⟨by simp [List.length_take]; omega, by simp [List.length_take]; omega, ?_⟩
        intro e he
        exact (List.mem_filter.mp (List.mem_of_mem_take he)).1

/-- removals are defined-but-unwanted channels; updates are wanted definitions that are missing or
    differ from the current one -/
theorem votes_are_the_diff (env : Env) (prev : Outcome) (expected : GoMap Nat ChanDef)
    (rm : List Nat) (upd : GoMap Nat ChanDef) (h : observationVotes env prev expected = some (rm, upd)) :
    (∀ c ∈ rm, prev.defs.contains c = true ∧ expected.contains c = false) ∧
    (∀ e ∈ upd, e ∈ expected ∧ ∀ p, prev.defs.get? e.1 = some p → p.equals e.2 = false) := by
  unfold observationVotes at h
  split at h
  · cases h; simp
  · split at h
    · cases h
    · split at h
      · cases h; simp
      · simp only [Option.some.injEq, Prod.mk.injEq] at h
        obtain ⟨h1, h2⟩ := h
        subst h1 h2
        constructor
        · intro c hc
          have hm := List.mem_of_mem_take hc
          simp only [List.mem_map, List.mem_filter] at hm
          obtain ⟨e, ⟨he, hne⟩, rfl⟩ := hm
          have he' : e ∈ prev.defs := (List.mergeSort_perm _ _).mem_iff.mp he
          refine ⟨?_, by simpa using hne⟩
          rw [← mem_keys_iff]; exact List.mem_map_of_mem (f := (·.1)) he'
        · intro e he
          have hm := List.mem_filter.mp (List.mem_of_mem_take he)
          refine ⟨(List.mergeSort_perm _ _).mem_iff.mp hm.1, ?_⟩
          intro p hp
          have := hm.2
          rw [hp] at this
          simpa using this

theorem ChanDef.equals_refl (d : ChanDef) : d.equals d = true := by
  unfold ChanDef.equals; simp

/-- **stays**: when the outcome's channel set already equals the target (same keys, same
    definitions), a correct node votes for no change -/
theorem converged_stays (env : Env) (prev : Outcome) (expected : GoMap Nat ChanDef)
    (hsame : ∀ c, prev.defs.get? c = expected.get? c) (hwf : WF expected)
    (rm : List Nat) (upd : GoMap Nat ChanDef) (h : observationVotes env prev expected = some (rm, upd)) :
    rm = [] ∧ upd = [] := by
  obtain ⟨h1, h2⟩ := votes_are_the_diff env prev expected rm upd h
  constructor
  · cases rm with
    | nil => rfl
    | cons c cs =>
      exfalso
      obtain ⟨hc1, hc2⟩ := h1 c (by simp)
      have : (prev.defs.get? c).isSome = true := (contains_iff_get? _ _).mp hc1
      rw [hsame c] at this
      have := (contains_iff_get? expected c).mpr this
      rw [hc2] at this; cases this
  · cases upd with
    | nil => rfl
    | cons e es =>
      exfalso
      obtain ⟨he1, he2⟩ := h2 e (by simp)
      have hg := get?_eq_some_of_mem expected hwf e he1
      have := he2 e.2 (by rw [hsame e.1, hg])
      rw [ChanDef.equals_refl] at this; cases this

/-- the update loop never pushes the number of channels above the cap -/
theorem cap_step (env : Env) (cfg : Cfg) (uv : GoMap Hash Nat) (cands : List (Hash × (Nat × ChanDef)))
    (defs : GoMap Nat ChanDef) :
    (applyUpdates env cfg uv cands defs).length ≤ max defs.length env.maxChannels := by
  unfold applyUpdates
  induction cands generalizing defs with
  | nil => simp only [List.foldl_nil]; omega
  | cons c cs ih =>
    simp only [List.foldl_cons]
    split
    · exact ih defs
    · split
      · rename_i hc
        have := ih (defs.set c.2.1 c.2.2)
        rw [length_set, hc] at this
        simpa using this
      · split
        · exact ih defs
        · rename_i hnc hlt
          have := ih (defs.set c.2.1 c.2.2)
          rw [length_set] at this
          have hcf : defs.contains c.2.1 = false := by simpa using hnc
          simp only [hcf, Bool.false_eq_true, if_false] at this
          omega

theorem length_applyRemovals_le (cfg : Cfg) (votes : List (Nat × Nat)) (defs : GoMap Nat ChanDef) :
    (applyRemovals cfg votes defs).2.length ≤ defs.length := by
  unfold applyRemovals
  rw [applyRemovals_foldl]
  simp only
  generalize removedIds cfg votes = ids
  induction ids generalizing defs with
  | nil => simp
  | cons i is ih =>
    simp only [List.foldl_cons]
    exact Nat.le_trans (ih _) (length_erase_le defs i)

/-- **at no point does an outcome hold more than the cap**: one round -/
theorem cap_round (env : Env) (cfg : Cfg) (σ : Sched) (n : Nat) (prev o : Outcome) (obs : List Obs)
    (h : outcome env cfg σ n prev obs = .ok o) (hprev : prev.defs.length ≤ env.maxChannels) :
    o.defs.length ≤ env.maxChannels := by
  obtain ⟨_, t, _, _, _, _, hdefs, _, _⟩ := outcome_ok h
  rw [hdefs]
  unfold defsOf
  have h1 := cap_step env cfg t.updVotes
    ((σ.updDefs (if stageOf cfg prev t == stageRetired then [] else t.updDefs)).mergeSort candLe)
    (removalsOf cfg σ (stageOf cfg prev t) prev t).2
  have h2 : (removalsOf cfg σ (stageOf cfg prev t) prev t).2.length ≤ prev.defs.length := by
    unfold removalsOf; exact length_applyRemovals_le _ _ _
  omega

theorem codecRoundTrip_defs_length {cfg : Cfg} {o o' : Outcome} (h : codecRoundTrip cfg o = .ok o') :
    o'.defs.length = o.defs.length := by
  unfold codecRoundTrip at h
  simp only at h
  split at h
  · split at h
    · cases h
    · split at h
      · cases h
      · cases h; exact List.length_mergeSort _
  · cases h; exact List.length_mergeSort _

/-- **cap invariant over any history** -/
theorem cap_invariant (env : Env) (cfg : Cfg) (o0 : Outcome) (h0 : o0.defs.length ≤ env.maxChannels) (rs : List Round) :
    ∀ o ∈ run env cfg o0 rs, o.defs.length ≤ env.maxChannels := by
  apply run_invariant env cfg (fun o => o.defs.length ≤ env.maxChannels) _ o0 h0
  intro r o o' hp hs
  obtain ⟨o1, h1, h2⟩ := step_ok hs
  rw [codecRoundTrip_defs_length h2]
  exact cap_round env cfg r.σ r.nAos o o1 r.obs h1 hp

end DSV.Props.C14
