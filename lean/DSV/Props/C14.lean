import DSV.Lemmas.StepWF
import DSV.Lemmas.ConvergeRound
import DSV.Props.C14Observe
/-!
# C14 — channel definitions converge to the agreed target in bounded rounds  (partial: side conditions named)

Safety / shape of the votes:
* `honest_votes_within_limits`: the votes a correct node produces respect the per-observation limits
  that `ValidateObservation` enforces (≤ 5 removals, ≤ 5 updates) and only mention definitions of the
  (verified) target set;
* `votes_are_the_diff`: removals are channels defined but not wanted, updates are wanted definitions
  that are missing or differ — so votes never point away from the target;
* `converged_stays`: once the outcome's channel set equals the target, a correct node votes for no
  change;
* `cap_step` / `cap_round` / `cap_invariant`: no reachable outcome holds more than 2000 channels.

Liveness (potential-function argument of DESIGN §4 C14; helper lemmas in `Lemmas/ConvergeMap.lean`,
`Lemmas/ConvergeRound.lean`):
* `cap_never_blocks`: the counting argument — removals are applied before additions, so the ids the
  honest update votes add always fit below the cap;
* `quorum_of_honest`: ≥ f+1 counted observations carrying the correct nodes' votes and ≤ f arbitrary
  counted observations decide the tallies (`QuorumVotes`), whatever the faulty observers vote;
* `round_progress` / `round_progress_honest`: in such a round the new definitions are exactly the
  previous ones with the honest removals deleted and the honest updates stored (`Applied`: a lookup
  characterisation); nothing else changes;
* `potential_step_partial` / `potential_decreases_partial` / `potential_run_partial`: with
  `unwanted o T` (ids defined but not in `T`) and `pending o T` (definitions of `T` missing or
  different), both sorted by id as in `observation()`, one good round maps them to
  `(unwanted o T).drop maxRemove` and `(pending o T).drop maxUpdate`; `k` rounds drop `k·5` each;
* `converges_partial` / `converges_in_ceil_rounds_partial` / `converged_round_stays_partial`: after
  `k ≥ ⌈max(#unwanted, #pending)/5⌉` successful rounds the definitions equal the target, and stay equal.

Side conditions (hence `_partial`): every round is good at the state it starts from (`GoodRound`), and
every outcome a round starts from passes `VerifyChannelDefinitions` — otherwise correct nodes refuse
to observe.  The second one is *not* implied by validity of the two endpoint sets: known finding F1
(`C14/wedged-union-exceeds-stream-limit`).  Also visible: `maxUpdate ≤ maxRemove` (5 and 5 in the
implementation, `Facts.limits`) and no hash collision between a counted update and a target
definition (`NoCollision`; the channel hash is SHA-256).
-/
namespace DSV.Props.C14
open DSV DSV.LLO DSV.GoMap

/-- the votes of a correct node respect the limits mirrored in `ValidateObservation` -/
theorem honest_votes_within_limits (env : Env) (prev : Outcome) (expected : GoMap Nat ChanDef)
    (rm : List Nat) (upd : GoMap Nat ChanDef) (h : observationVotes env prev expected = some (rm, upd)) :
    rm.length ≤ env.maxRemove ∧ upd.length ≤ env.maxUpdate ∧
    (∀ e ∈ upd, e ∈ expected.mergeSort (fun a b => decide (a.1 ≤ b.1))) := by
  unfold observationVotes at h
  split at h
  · cases h; simp
  · split at h
    · cases h
    · split at h
      · cases h; simp
      · simp only [Option.some.injEq, Prod.mk.injEq] at h
        obtain ⟨h1, h2⟩ := h
        subst h1 h2
        refine ⟨by simp [List.length_take]; omega, by simp [List.length_take]; omega, ?_⟩
        intro e he
        exact (List.mem_filter.mp (List.mem_of_mem_take he)).1

/-- removals are defined-but-unwanted channels; updates are wanted definitions that are missing or
    differ from the current one -/
theorem votes_are_the_diff (env : Env) (prev : Outcome) (expected : GoMap Nat ChanDef)
    (rm : List Nat) (upd : GoMap Nat ChanDef) (h : observationVotes env prev expected = some (rm, upd)) :
    (∀ c ∈ rm, prev.defs.contains c = true ∧ expected.contains c = false) ∧
    (∀ e ∈ upd, e ∈ expected ∧ ∀ p, prev.defs.get? e.1 = some p → p.equals e.2 = false) := by
  unfold observationVotes at h
  split at h
  · cases h; simp
  · split at h
    · cases h
    · split at h
      · cases h; simp
      · simp only [Option.some.injEq, Prod.mk.injEq] at h
        obtain ⟨h1, h2⟩ := h
        subst h1 h2
        constructor
        · intro c hc
          have hm := List.mem_of_mem_take hc
          simp only [List.mem_map, List.mem_filter] at hm
          obtain ⟨e, ⟨he, hne⟩, rfl⟩ := hm
          have he' : e ∈ prev.defs := (List.mergeSort_perm _ _).mem_iff.mp he
          refine ⟨?_, by simpa using hne⟩
          rw [← mem_keys_iff]; exact List.mem_map_of_mem (f := (·.1)) he'
        · intro e he
          have hm := List.mem_filter.mp (List.mem_of_mem_take he)
          refine ⟨(List.mergeSort_perm _ _).mem_iff.mp hm.1, ?_⟩
          intro p hp
          have := hm.2
          rw [hp] at this
          simpa using this

theorem ChanDef.equals_refl (d : ChanDef) : d.equals d = true := by
  unfold ChanDef.equals; simp

/-- **stays**: when the outcome's channel set already equals the target (same keys, same
    definitions), a correct node votes for no change -/
theorem converged_stays (env : Env) (prev : Outcome) (expected : GoMap Nat ChanDef)
    (hsame : ∀ c, prev.defs.get? c = expected.get? c) (hwf : WF expected)
    (rm : List Nat) (upd : GoMap Nat ChanDef) (h : observationVotes env prev expected = some (rm, upd)) :
    rm = [] ∧ upd = [] := by
  obtain ⟨h1, h2⟩ := votes_are_the_diff env prev expected rm upd h
  constructor
  · cases rm with
    | nil => rfl
    | cons c cs =>
      exfalso
      obtain ⟨hc1, hc2⟩ := h1 c (by simp)
      have : (prev.defs.get? c).isSome = true := (contains_iff_get? _ _).mp hc1
      rw [hsame c] at this
      have := (contains_iff_get? expected c).mpr this
      rw [hc2] at this; cases this
  · cases upd with
    | nil => rfl
    | cons e es =>
      exfalso
      obtain ⟨he1, he2⟩ := h2 e (by simp)
      have hg := get?_eq_some_of_mem expected hwf e he1
      have := he2 e.2 (by rw [hsame e.1, hg])
      rw [ChanDef.equals_refl] at this; cases this

/-- the update loop never pushes the number of channels above the cap -/
theorem cap_step (env : Env) (cfg : Cfg) (uv : GoMap Hash Nat) (cands : List (Hash × (Nat × ChanDef)))
    (defs : GoMap Nat ChanDef) :
    (applyUpdates env cfg uv cands defs).length ≤ max defs.length env.maxChannels := by
  unfold applyUpdates
  induction cands generalizing defs with
  | nil => simp only [List.foldl_nil]; omega
  | cons c cs ih =>
    simp only [List.foldl_cons]
    split
    · exact ih defs
    · split
      · rename_i hc
        have := ih (defs.set c.2.1 c.2.2)
        rw [length_set, hc] at this
        simpa using this
      · split
        · exact ih defs
        · rename_i hnc hlt
          have := ih (defs.set c.2.1 c.2.2)
          rw [length_set] at this
          have hcf : defs.contains c.2.1 = false := by simpa using hnc
          simp only [hcf, Bool.false_eq_true, if_false] at this
          omega

theorem length_applyRemovals_le (cfg : Cfg) (votes : List (Nat × Nat)) (defs : GoMap Nat ChanDef) :
    (applyRemovals cfg votes defs).2.length ≤ defs.length := by
  unfold applyRemovals
  rw [applyRemovals_foldl]
  simp only
  generalize removedIds cfg votes = ids
  induction ids generalizing defs with
  | nil => simp
  | cons i is ih =>
    simp only [List.foldl_cons]
    exact Nat.le_trans (ih _) (length_erase_le defs i)

/-- **at no point does an outcome hold more than the cap**: one round -/
theorem cap_round (env : Env) (cfg : Cfg) (σ : Sched) (n : Nat) (prev o : Outcome) (obs : List Obs)
    (h : outcome env cfg σ n prev obs = .ok o) (hprev : prev.defs.length ≤ env.maxChannels) :
    o.defs.length ≤ env.maxChannels := by
  obtain ⟨_, t, _, _, _, _, hdefs, _, _⟩ := outcome_ok h
  rw [hdefs]
  unfold defsOf
  have h1 := cap_step env cfg t.updVotes
    ((σ.updDefs (if stageOf cfg prev t == stageRetired then [] else t.updDefs)).mergeSort candLe)
    (removalsOf cfg σ (stageOf cfg prev t) prev t).2
  have h2 : (removalsOf cfg σ (stageOf cfg prev t) prev t).2.length ≤ prev.defs.length := by
    unfold removalsOf; exact length_applyRemovals_le _ _ _
  omega

theorem codecRoundTrip_defs_length {cfg : Cfg} {o o' : Outcome} (h : codecRoundTrip cfg o = .ok o') :
    o'.defs.length = o.defs.length := by
  unfold codecRoundTrip at h
  simp only at h
  split at h
  · split at h
    · cases h
    · split at h
      · cases h
      · cases h; exact List.length_mergeSort _
  · cases h; exact List.length_mergeSort _

/-- **cap invariant over any history** -/
theorem cap_invariant (env : Env) (cfg : Cfg) (o0 : Outcome) (h0 : o0.defs.length ≤ env.maxChannels) (rs : List Round) :
    ∀ o ∈ run env cfg o0 rs, o.defs.length ≤ env.maxChannels := by
  apply run_invariant env cfg (fun o => o.defs.length ≤ env.maxChannels) _ o0 h0
  intro r o o' hp hs
  obtain ⟨o1, h1, h2⟩ := step_ok hs
  rw [codecRoundTrip_defs_length h2]
  exact cap_round env cfg r.σ r.nAos o o1 r.obs h1 hp

/-! ## liveness: the honest votes are applied, the potential drops, the target is reached -/

/-- closed form of the votes: first `maxRemove` unwanted ids, first `maxUpdate` pending definitions -/
theorem votes_closed_form (env : Env) (prev : Outcome) (T : GoMap Nat ChanDef)
    (rm : List Nat) (upd : GoMap Nat ChanDef)
    (hnr : prev.stage ≠ stageRetired) (hvT : verifyChannelDefinitions env T = true)
    (hv : observationVotes env prev T = some (rm, upd)) :
    verifyChannelDefinitions env prev.defs = true ∧
    rm = (unwanted prev.defs T).take env.maxRemove ∧ upd = (pending prev.defs T).take env.maxUpdate := by
  have hvp : verifyChannelDefinitions env prev.defs = true := by
    cases hvp : verifyChannelDefinitions env prev.defs with
    | true => rfl
    | false =>
      exfalso
      unfold observationVotes at hv
      have h1 : (prev.stage == stageRetired) = false := by simpa using hnr
      simp [h1, hvp] at hv
  rw [observationVotes_eq env prev T hnr hvp hvT] at hv
  simp only [Option.some.injEq, Prod.mk.injEq] at hv
  exact ⟨hvp, hv.1.symm, hv.2.symm⟩

theorem length_le_of_verify (env : Env) (T : GoMap Nat ChanDef) (h : verifyChannelDefinitions env T = true) :
    T.length ≤ env.maxChannels := by
  unfold verifyChannelDefinitions at h
  split at h
  · cases h
  · omega

/-- **the cap never blocks an honest addition** (counting argument of DESIGN §4 C14).  `D1` is the
    definitions map after the removal loop of the round; the ids that the honest update votes add on
    top of it fit below `MaxOutcomeChannelDefinitionsLength`: removals are applied before additions,
    and either all unwanted channels are gone (then the count stays `≤ |T| ≤ cap`) or `maxRemove`
    channels were removed and at most `maxUpdate ≤ maxRemove` are added. -/
theorem cap_never_blocks (env : Env) (prev : Outcome) (T : GoMap Nat ChanDef)
    (rm : List Nat) (upd : GoMap Nat ChanDef)
    (hnr : prev.stage ≠ stageRetired) (hwf : WF prev.defs) (hcap : prev.defs.length ≤ env.maxChannels)
    (hmax : env.maxUpdate ≤ env.maxRemove) (hwfT : WF T) (hvT : verifyChannelDefinitions env T = true)
    (hv : observationVotes env prev T = some (rm, upd))
    (D1 : GoMap Nat ChanDef) (hD : WF D1)
    (hD1 : ∀ k, get? D1 k = if k ∈ rm then none else get? prev.defs k) :
    D1.length + (upd.filter (fun e => !D1.contains e.1)).length ≤ env.maxChannels := by
  obtain ⟨_, h1, h2⟩ := votes_closed_form env prev T rm upd hnr hvT hv
  subst h1 h2
  exact cap_count prev.defs T D1 env.maxRemove env.maxUpdate env.maxChannels hwf hwfT hD
    (length_le_of_verify env T hvT) hcap hmax hD1

/-- what the tallies of a round must look like for the honest votes `(rm, upd)` to win: an id has
    more than `f` removal votes among the counted observations exactly when it is one of `rm` (every
    honest vote has more than `f`, every other id at most `f`), and likewise for update hashes -/
structure QuorumVotes (env : Env) (cfg : Cfg) (obs : List Obs) (rm : List Nat) (upd : GoMap Nat ChanDef) : Prop where
  remove : ∀ c, cfg.f < votesFor (votesRemove c) (counted env obs) ↔ c ∈ rm
  update : ∀ h, cfg.f < votesFor (votesUpdate env h) (counted env obs) ↔ ∃ e ∈ upd, env.hashOf e.1 e.2 = h

/-- at least `f+1` counted observations carry exactly the votes `(rm, upd)`, at most `f` counted
    observations (`faulty`) are arbitrary -/
def HonestQuorum (env : Env) (cfg : Cfg) (obs : List Obs) (rm : List Nat) (upd : GoMap Nat ChanDef) : Prop :=
  ∃ faulty : Obs → Bool,
    (counted env obs).countP faulty ≤ cfg.f ∧
    cfg.f + 1 ≤ (counted env obs).countP (fun o => !faulty o) ∧
    ∀ o ∈ counted env obs, faulty o = false → (∀ c, c ∈ o.removes ↔ c ∈ rm) ∧ (∀ e, e ∈ o.updates ↔ e ∈ upd)

/-- whatever the (at most `f`) faulty observers vote, `f+1` unanimous correct observers decide the tallies -/
theorem quorum_of_honest (env : Env) (cfg : Cfg) (obs : List Obs) (rm : List Nat) (upd : GoMap Nat ChanDef)
    (h : HonestQuorum env cfg obs rm upd) : QuorumVotes env cfg obs rm upd := by
  obtain ⟨faulty, hf, hh, hon⟩ := h
  constructor
  · intro c
    constructor
    · intro hlt
      apply Classical.byContradiction
      intro hc
      have : votesFor (votesRemove c) (counted env obs) ≤ (counted env obs).countP faulty := by
        apply List.countP_mono_left
        intro o ho hv
        cases hfo : faulty o with
        | true => rfl
        | false =>
          exfalso
          apply hc
          rw [← (hon o ho hfo).1 c]
          simpa [votesRemove] using hv
      omega
    · intro hc
      have : (counted env obs).countP (fun o => !faulty o) ≤ votesFor (votesRemove c) (counted env obs) := by
        apply List.countP_mono_left
        intro o ho hfo
        have hfo' : faulty o = false := by simpa using hfo
        have := ((hon o ho hfo').1 c).mpr hc
        simpa [votesRemove] using this
      omega
  · intro h
    constructor
    · intro hlt
      apply Classical.byContradiction
      intro hc
      have : votesFor (votesUpdate env h) (counted env obs) ≤ (counted env obs).countP faulty := by
        apply List.countP_mono_left
        intro o ho hv
        cases hfo : faulty o with
        | true => rfl
        | false =>
          exfalso
          apply hc
          simp only [votesUpdate, List.any_eq_true, beq_iff_eq] at hv
          obtain ⟨e, he, hh'⟩ := hv
          exact ⟨e, ((hon o ho hfo).2 e).mp he, hh'⟩
      omega
    · rintro ⟨e, he, hh'⟩
      have : (counted env obs).countP (fun o => !faulty o) ≤ votesFor (votesUpdate env h) (counted env obs) := by
        apply List.countP_mono_left
        intro o ho hfo
        have hfo' : faulty o = false := by simpa using hfo
        have := ((hon o ho hfo').2 e).mpr he
        simp only [votesUpdate, List.any_eq_true, beq_iff_eq]
        exact ⟨e, this, hh'⟩
      omega

/-- **round progress**: in a round that starts from a non-retired outcome `prev` and does not collect
    `f+1` retire votes, in which the correct nodes vote `observationVotes env prev T = some (rm, upd)`
    for a well-formed, verified target `T` and the tallies are decided by these votes
    (`QuorumVotes`), the new outcome's definitions are exactly `prev.defs` with `rm` removed and `upd`
    stored (`Applied`, a lookup characterisation) — nothing else changes, whatever else was voted
    for, and no honest addition is skipped by the cap. -/
theorem round_progress (env : Env) (cfg : Cfg) (σ : Sched) (n : Nat) (prev o : Outcome) (obs : List Obs)
    (T : GoMap Nat ChanDef) (rm : List Nat) (upd : GoMap Nat ChanDef)
    (hσ : σ.IsSched) (hobs : ∀ x ∈ obs, ObsWF env x)
    (hwf : WF prev.defs) (hcap : prev.defs.length ≤ env.maxChannels) (hmax : env.maxUpdate ≤ env.maxRemove)
    (hnr : prev.stage ≠ stageRetired) (hret : votesFor (·.shouldRetire) (counted env obs) ≤ cfg.f)
    (hwfT : WF T) (hvT : verifyChannelDefinitions env T = true)
    (hv : observationVotes env prev T = some (rm, upd))
    (hq : QuorumVotes env cfg obs rm upd) (hinj : NoCollision env (counted env obs) upd)
    (h : outcome env cfg σ n prev obs = .ok o) :
    o.stage ≠ stageRetired ∧ Applied prev.defs rm upd o.defs := by
  obtain ⟨_, t, ht, _, hstage, _, hdefs, _, _⟩ := outcome_ok h
  obtain ⟨inv, _⟩ := tally_spec env cfg obs t hobs ht
  have hrv : t.retireVotes = votesFor (·.shouldRetire) (counted env obs) := inv.retire
  have hst : stageOf cfg prev t ≠ stageRetired := by
    rcases stageOf_cases cfg prev t with h1 | ⟨_, _, h1⟩ | ⟨_, h1, _⟩ | ⟨_, _, h1, _⟩
    · rw [h1]; exact hnr
    · rw [h1]; decide
    · omega
    · omega
  refine ⟨by rw [hstage]; exact hst, ?_⟩
  rw [hdefs]
  have hwfU : WF upd := by
    obtain ⟨_, _, h2⟩ := votes_closed_form env prev T rm upd hnr hvT hv
    rw [h2]; exact wf_take _ _ (wf_pending _ _ hwfT)
  exact defsOf_applied env cfg σ (stageOf cfg prev t) prev obs t rm upd hσ hobs ht hst hwf hwfU
    hq.remove hq.update hinj
    (fun D1 hD hD1 => cap_never_blocks env prev T rm upd hnr hwf hcap hmax hwfT hvT hv D1 hD hD1)

/-- `round_progress` for `f+1` unanimous correct observers and at most `f` arbitrary ones -/
theorem round_progress_honest (env : Env) (cfg : Cfg) (σ : Sched) (n : Nat) (prev o : Outcome) (obs : List Obs)
    (T : GoMap Nat ChanDef) (rm : List Nat) (upd : GoMap Nat ChanDef)
    (hσ : σ.IsSched) (hobs : ∀ x ∈ obs, ObsWF env x)
    (hwf : WF prev.defs) (hcap : prev.defs.length ≤ env.maxChannels) (hmax : env.maxUpdate ≤ env.maxRemove)
    (hnr : prev.stage ≠ stageRetired) (hret : votesFor (·.shouldRetire) (counted env obs) ≤ cfg.f)
    (hwfT : WF T) (hvT : verifyChannelDefinitions env T = true)
    (hv : observationVotes env prev T = some (rm, upd))
    (hq : HonestQuorum env cfg obs rm upd) (hinj : NoCollision env (counted env obs) T)
    (h : outcome env cfg σ n prev obs = .ok o) :
    o.stage ≠ stageRetired ∧ Applied prev.defs rm upd o.defs :=
  round_progress env cfg σ n prev o obs T rm upd hσ hobs hwf hcap hmax hnr hret hwfT hvT hv
    (quorum_of_honest env cfg obs rm upd hq)
    (hinj.mono (fun e he => ((votes_are_the_diff env prev T rm upd hv).2 e he).1)) h

/-- the conditions under which a round makes progress towards `T` from `prev`: iteration orders are
    permutations, decoded observations are Go values, fewer than `f+1` retire votes, no hash collision
    with a target definition among the counted observations, and — *if* correct nodes observe at all
    (`observationVotes … = some`) — `f+1` counted observations carry exactly their votes while at most
    `f` counted observations are arbitrary -/
structure GoodRound (env : Env) (cfg : Cfg) (T : GoMap Nat ChanDef) (prev : Outcome) (r : Round) : Prop where
  sched : r.σ.IsSched
  obsWF : ∀ x ∈ r.obs, ObsWF env x
  noRetire : votesFor (·.shouldRetire) (counted env r.obs) ≤ cfg.f
  noCollision : NoCollision env (counted env r.obs) T
  quorum : ∀ rm upd, observationVotes env prev T = some (rm, upd) → HonestQuorum env cfg r.obs rm upd

/-- **potential**: one good round (including the codec round trip to the next round) drops the first
    `maxRemove` ids from the list of unwanted channels and the first `maxUpdate` entries from the list
    of pending definitions; well-formedness, the cap and "not retired" are preserved -/
theorem potential_step_partial (env : Env) (cfg : Cfg) (T : GoMap Nat ChanDef) (r : Round) (prev o' : Outcome)
    (hmax : env.maxUpdate ≤ env.maxRemove) (hwfT : WF T) (hvT : verifyChannelDefinitions env T = true)
    (hwf : WF prev.defs) (hcap : prev.defs.length ≤ env.maxChannels) (hnr : prev.stage ≠ stageRetired)
    (hgood : GoodRound env cfg T prev r)
    (hverified : verifyChannelDefinitions env prev.defs = true)
    (hs : step env cfg r prev = .ok o') :
    unwanted o'.defs T = (unwanted prev.defs T).drop env.maxRemove ∧
    pending o'.defs T = (pending prev.defs T).drop env.maxUpdate ∧
    WF o'.defs ∧ o'.defs.length ≤ env.maxChannels ∧ o'.stage ≠ stageRetired := by
  obtain ⟨o, h1, h2⟩ := step_ok hs
  have hv := observationVotes_eq env prev T hnr hverified hvT
  obtain ⟨hst, happ⟩ := round_progress_honest env cfg r.σ r.nAos prev o r.obs T _ _ hgood.sched hgood.obsWF
    hwf hcap hmax hnr hgood.noRetire hwfT hvT hv (hgood.quorum _ _ hv) hgood.noCollision h1
  obtain ⟨hd, hstage⟩ := codecRoundTrip_defs h2
  have hwfo : WF o.defs := by
    obtain ⟨_, t, _, _, _, _, hdefs, _, _⟩ := outcome_ok h1
    rw [hdefs]; unfold defsOf removalsOf
    exact wf_applyUpdates _ _ _ _ _ (wf_applyRemovals _ _ _ hwf)
  have hwfo' : WF o'.defs := by rw [hd]; exact wf_byKey _ hwfo
  have happ' : Applied prev.defs ((unwanted prev.defs T).take env.maxRemove)
      ((pending prev.defs T).take env.maxUpdate) o'.defs := by
    intro c
    rw [hd, get?_byKey _ hwfo c]; exact happ c
  obtain ⟨p1, p2⟩ := potential_applied prev.defs T o'.defs env.maxRemove env.maxUpdate hwf hwfT hwfo' happ'
  refine ⟨p1, p2, hwfo', ?_, by rw [hstage]; exact hst⟩
  rw [codecRoundTrip_defs_length h2]
  exact cap_round env cfg r.σ r.nAos prev o r.obs h1 hcap

/-- the potential `max(#unwanted, #pending)` loses `min(limit, ·)` in each component per good round -/
theorem potential_decreases_partial (env : Env) (cfg : Cfg) (T : GoMap Nat ChanDef) (r : Round) (prev o' : Outcome)
    (hmax : env.maxUpdate ≤ env.maxRemove) (hwfT : WF T) (hvT : verifyChannelDefinitions env T = true)
    (hwf : WF prev.defs) (hcap : prev.defs.length ≤ env.maxChannels) (hnr : prev.stage ≠ stageRetired)
    (hgood : GoodRound env cfg T prev r)
    (hverified : verifyChannelDefinitions env prev.defs = true)
    (hs : step env cfg r prev = .ok o') :
    (unwanted o'.defs T).length = (unwanted prev.defs T).length - env.maxRemove ∧
    (pending o'.defs T).length = (pending prev.defs T).length - env.maxUpdate := by
  obtain ⟨p1, p2, _⟩ := potential_step_partial env cfg T r prev o' hmax hwfT hvT hwf hcap hnr hgood hverified hs
  rw [p1, p2, List.length_drop, List.length_drop]
  exact ⟨rfl, rfl⟩

/-- the potential along a whole history: after `k` successful good rounds the first `k·maxRemove`
    unwanted ids and the first `k·maxUpdate` pending definitions (of the start) are dealt with -/
theorem potential_run_partial (env : Env) (cfg : Cfg) (T : GoMap Nat ChanDef) (o0 : Outcome) (rs : List Round)
    (hmax : env.maxUpdate ≤ env.maxRemove) (hwfT : WF T) (hvT : verifyChannelDefinitions env T = true)
    (hwf0 : WF o0.defs) (hcap0 : o0.defs.length ≤ env.maxChannels) (hnr0 : o0.stage ≠ stageRetired)
    (hgood : AlongRun env cfg (GoodRound env cfg T) o0 rs)
    (hverified : AlongRun env cfg (fun prev _ => verifyChannelDefinitions env prev.defs = true) o0 rs) :
    ∀ k o, (o0 :: run env cfg o0 rs)[k]? = some o →
      unwanted o.defs T = (unwanted o0.defs T).drop (k * env.maxRemove) ∧
      pending o.defs T = (pending o0.defs T).drop (k * env.maxUpdate) := by
  induction rs generalizing o0 with
  | nil =>
    intro k o hk
    cases k with
    | zero => simp only [List.getElem?_cons_zero, Option.some.injEq] at hk; subst hk; simp
    | succ k => simp [run] at hk
  | cons r rs ih =>
    intro k o hk
    cases k with
    | zero => simp only [List.getElem?_cons_zero, Option.some.injEq] at hk; subst hk; simp
    | succ k =>
      obtain ⟨hg, hgrest⟩ := hgood
      obtain ⟨hvf, hvrest⟩ := hverified
      unfold run at hk
      cases hs : step env cfg r o0 with
      | ok o' =>
        rw [hs] at hk hgrest hvrest
        simp only at hk hgrest hvrest
        obtain ⟨p1, p2, q1, q2, q3⟩ :=
          potential_step_partial env cfg T r o0 o' hmax hwfT hvT hwf0 hcap0 hnr0 hg hvf hs
        rw [List.getElem?_cons_succ] at hk
        cases k with
        | zero =>
          simp only [List.getElem?_cons_zero, Option.some.injEq] at hk
          subst hk
          simp only [Nat.zero_add, Nat.one_mul]
          exact ⟨p1, p2⟩
        | succ k =>
          obtain ⟨i1, i2⟩ := ih o' q1 q2 q3 hgrest hvrest (k + 1) o hk
          rw [i1, i2, p1, p2, List.drop_drop, List.drop_drop]
          have e1 : env.maxRemove + (k + 1) * env.maxRemove = (k + 1 + 1) * env.maxRemove := by
            rw [Nat.add_mul (k + 1) 1, Nat.one_mul, Nat.add_comm]
          have e2 : env.maxUpdate + (k + 1) * env.maxUpdate = (k + 1 + 1) * env.maxUpdate := by
            rw [Nat.add_mul (k + 1) 1, Nat.one_mul, Nat.add_comm]
          rw [e1, e2]
          exact ⟨rfl, rfl⟩
      | err e =>
        rw [hs] at hk hgrest hvrest
        simp only at hk hgrest hvrest
        exact ih o0 hwf0 hcap0 hnr0 hgrest hvrest (k + 1) o hk
      | panic =>
        rw [hs] at hk hgrest hvrest
        simp only at hk hgrest hvrest
        exact ih o0 hwf0 hcap0 hnr0 hgrest hvrest (k + 1) o hk

/-- **convergence in bounded rounds, and stays** (partial: two explicit side conditions).

    For a history `rs` from a well-formed, non-retired outcome `o0` within the cap and a fixed
    well-formed verified target `T`:

    * `hgood` — every round is good at the state it starts from (`GoodRound`: ≥ f+1 counted
      observations carry the correct nodes' votes, ≤ f counted observations are arbitrary, fewer than
      f+1 retire votes, no hash collision with a target definition);
    * `hverified` — every outcome a round starts from passes `VerifyChannelDefinitions`, so that
      correct nodes do observe (`observationVotes ≠ none`).  **This is not implied by the validity of
      the start and target sets**: the union reached after a round can exceed the unique-stream limit,
      after which every correct node refuses to observe for ever — known finding F1
      (`C14/wedged-union-exceeds-stream-limit`);

    the `k`-th agreed outcome of the history (`k = 0` is `o0`, failed rounds do not count) has exactly
    the target's definitions as soon as `k·maxRemove ≥ #unwanted` and `k·maxUpdate ≥ #pending`, i.e.
    `k ≥ ⌈max(#remove, #add-or-replace)/5⌉` for the implementation's limits — and for every later `k`
    too (it stays).  Full-strength statement without `hverified`: false, F1. -/
theorem converges_partial (env : Env) (cfg : Cfg) (T : GoMap Nat ChanDef) (o0 : Outcome) (rs : List Round)
    (hmax : env.maxUpdate ≤ env.maxRemove) (hwfT : WF T) (hvT : verifyChannelDefinitions env T = true)
    (hwf0 : WF o0.defs) (hcap0 : o0.defs.length ≤ env.maxChannels) (hnr0 : o0.stage ≠ stageRetired)
    (hgood : AlongRun env cfg (GoodRound env cfg T) o0 rs)
    (hverified : AlongRun env cfg (fun prev _ => verifyChannelDefinitions env prev.defs = true) o0 rs)
    (k : Nat) (o : Outcome) (hk : (o0 :: run env cfg o0 rs)[k]? = some o)
    (hkR : (unwanted o0.defs T).length ≤ k * env.maxRemove)
    (hkU : (pending o0.defs T).length ≤ k * env.maxUpdate) :
    ∀ c, o.defs.get? c = T.get? c := by
  obtain ⟨p1, p2⟩ := potential_run_partial env cfg T o0 rs hmax hwfT hvT hwf0 hcap0 hnr0 hgood hverified k o hk
  rw [List.drop_eq_nil_of_le hkR] at p1
  rw [List.drop_eq_nil_of_le hkU] at p2
  exact eq_target_of_potential_nil o.defs T p1 p2

/-- the bound of the property text for the implementation's limits (5 and 5):
    `k ≥ ⌈max(#to-remove, #to-add-or-replace)/5⌉` rounds suffice -/
theorem converges_in_ceil_rounds_partial (env : Env) (cfg : Cfg) (T : GoMap Nat ChanDef) (o0 : Outcome) (rs : List Round)
    (hR : env.maxRemove = 5) (hU : env.maxUpdate = 5) (hwfT : WF T) (hvT : verifyChannelDefinitions env T = true)
    (hwf0 : WF o0.defs) (hcap0 : o0.defs.length ≤ env.maxChannels) (hnr0 : o0.stage ≠ stageRetired)
    (hgood : AlongRun env cfg (GoodRound env cfg T) o0 rs)
    (hverified : AlongRun env cfg (fun prev _ => verifyChannelDefinitions env prev.defs = true) o0 rs)
    (k : Nat) (o : Outcome) (hk : (o0 :: run env cfg o0 rs)[k]? = some o)
    (hbound : (max (unwanted o0.defs T).length (pending o0.defs T).length + 4) / 5 ≤ k) :
    ∀ c, o.defs.get? c = T.get? c := by
  apply converges_partial env cfg T o0 rs (by omega) hwfT hvT hwf0 hcap0 hnr0 hgood hverified k o hk
  · rw [hR]; omega
  · rw [hU]; omega

/-- **stays** at the level of one round: from an outcome whose definitions equal the target, a good
    round leads to an outcome whose definitions equal the target -/
theorem converged_round_stays_partial (env : Env) (cfg : Cfg) (T : GoMap Nat ChanDef) (r : Round) (prev o' : Outcome)
    (hmax : env.maxUpdate ≤ env.maxRemove) (hwfT : WF T) (hvT : verifyChannelDefinitions env T = true)
    (hwf : WF prev.defs) (hcap : prev.defs.length ≤ env.maxChannels) (hnr : prev.stage ≠ stageRetired)
    (hgood : GoodRound env cfg T prev r)
    (hverified : verifyChannelDefinitions env prev.defs = true)
    (hsame : ∀ c, prev.defs.get? c = T.get? c)
    (hs : step env cfg r prev = .ok o') : ∀ c, o'.defs.get? c = T.get? c := by
  obtain ⟨p1, p2, _⟩ := potential_step_partial env cfg T r prev o' hmax hwfT hvT hwf hcap hnr hgood hverified hs
  obtain ⟨z1, z2⟩ := potential_nil_of_eq_target prev.defs T hwfT hsame
  rw [z1] at p1; rw [z2] at p2
  simp only [List.drop_nil] at p1 p2
  exact eq_target_of_potential_nil o'.defs T p1 p2

/-! ## non-vacuity: a concrete good round (with a faulty voter) that reaches its target -/

namespace ConvergeExample


def d : ChanDef := { format := 0, streams := [{ sid := 7, agg := 1 }], opts := [] }
def env : Env := { check := fun _ => none, hashOf := fun id _ => List.replicate id 0, verifyDef := fun _ => true }
def cfg : Cfg := { f := 1, version := 1, minInterval := 1, hasPred := false }
def T : GoMap Nat ChanDef := [(1, d)]
def o0 : Outcome := { stage := stageProduction, ts := 0, defs := [], va := [], aggs := [] }
def honest : Obs := { attested := [], shouldRetire := false, ts := 5, removes := [], updates := [(1, d)], values := [] }
def faulty : Obs := { attested := [], shouldRetire := true, ts := 9, removes := [3], updates := [(2, d)], values := [] }
def round : Round := { nAos := 3, obs := [honest, honest, faulty], σ := {} }
def o1 : Outcome := { stage := stageProduction, ts := 5, defs := [(1, d)], va := [(1, 5)], aggs := [] }

theorem counted_eq : counted env round.obs = [honest, honest, faulty] := by decide

def t0 : Tally :=
    { tss := [5, 5, 9], validRR := none, retireVotes := 1, rmVotes := [(3, 1)],
      updDefs := [([0], (1, d)), ([0, 0], (2, d))], updVotes := [([0], 2), ([0, 0], 1)], streamObs := [] }

theorem tally_eq : tally env cfg round.obs = .ok t0 := by
  rfl

theorem med_eq : medianTimestamp [5, 5, 9] = 5 := by
  unfold medianTimestamp medianOf
  rw [List.mergeSort_of_pairwise (by decide)]
  rfl

theorem stage_eq : stageOf cfg o0 t0 = stageProduction := by decide

theorem defs_eq : defsOf env cfg {} stageProduction o0 t0 = [(1, d)] := by
  unfold defsOf
  have h : (stageProduction == stageRetired) = false := by decide
  simp only [h, Bool.false_eq_true, if_false]
  show applyUpdates env cfg t0.updVotes (List.mergeSort [([0], (1, d)), ([0, 0], (2, d))] candLe) _ = _
  rw [List.mergeSort_of_pairwise (by decide)]
  rfl

theorem outcome_eq : outcome env cfg round.σ round.nAos o0 round.obs = .ok o1 := by
  unfold outcome
  rw [tally_eq]
  have h1 : ¬ round.nAos < 2 * cfg.f + 1 := by decide
  simp only [h1, if_false, GoRes.bind]
  have h2 : (t0.tss.length == 0) = false := by decide
  simp only [h2, Bool.false_eq_true, if_false]
  have h3 : round.σ = {} := rfl
  have h4 : t0.tss = [5, 5, 9] := rfl
  rw [h3, stage_eq, defs_eq, h4, med_eq]
  rfl

theorem step_eq : step env cfg round o0 = .ok o1 := by
  unfold step
  rw [outcome_eq]
  simp [GoRes.bind, codecRoundTrip, cfg, o1]

theorem run_eq : run env cfg o0 [round] = [o1] := by
  simp [run, step_eq]


theorem wfT : WF T := by simp [WF, keys, T]
theorem verT : verifyChannelDefinitions env T = true := by decide

theorem differs_eq : differs [] (1, d) = true := rfl

theorem votes_eq : observationVotes env o0 T = some ([], [(1, d)]) := by
  rw [observationVotes_eq env o0 T (by decide) (by decide) verT]
  simp [unwanted, pending, byKey, o0, T, env, List.filter_cons, differs_eq]

theorem goodRound : GoodRound env cfg T o0 round := by
  constructor
  · refine ⟨?_, ?_, ?_, ?_, ?_, ?_⟩ <;> intro l <;> exact List.Perm.refl _
  · intro x hx
    simp only [round, List.mem_cons, List.not_mem_nil, or_false] at hx
    rcases hx with rfl | rfl | rfl <;> simp [ObsWF, honest, faulty]
  · rw [counted_eq]; decide
  · intro o ho e he e' he' hh
    rw [counted_eq] at ho
    simp only [T, List.mem_singleton] at he'
    subst he'
    simp only [List.mem_cons, List.not_mem_nil, or_false] at ho
    rcases ho with rfl | rfl | rfl
    · simpa [honest] using he
    · simpa [honest] using he
    · simp only [faulty, List.mem_singleton] at he
      subst he
      exact absurd hh (by decide)
  · intro rm upd hv
    rw [votes_eq] at hv
    cases hv
    refine ⟨fun o => o.shouldRetire, ?_, ?_, ?_⟩
    · rw [counted_eq]; decide
    · rw [counted_eq]; decide
    · intro o ho hf
      rw [counted_eq] at ho
      simp only [List.mem_cons, List.not_mem_nil, or_false] at ho
      rcases ho with rfl | rfl | rfl
      · simp [honest]
      · simp [honest]
      · exact absurd hf (by decide)

/-- **non-vacuity**: a concrete round with `f = 1`, two correct observers and one faulty observer
    (which votes to retire, to remove channel 3 and to add channel 2) satisfies every hypothesis of
    `converges_partial`; the history really advances (`run_eq`) and the outcome after
    `⌈max(0, 1)/5⌉ = 1` round holds exactly the target -/
example : ∀ c, o1.defs.get? c = T.get? c :=
  converges_partial env cfg T o0 [round] (by decide) wfT verT (by simp [WF, keys, o0]) (by decide) (by decide)
    (by simp only [AlongRun, and_true]; exact goodRound)
    (by simp only [AlongRun, and_true]; decide)
    1 o1 (by rw [run_eq]; rfl)
    (by simp [unwanted, byKey, o0])
    (by simp [pending, byKey, o0, T, env, List.filter_cons, differs_eq])

end ConvergeExample

end DSV.Props.C14
