import DSV.Props.C03
import DSV.Props.C05
import DSV.Props.C14Observe
/-!
# C04 — predecessor-to-successor handover is gapless and overlap-free

Instance A (the predecessor) retires; its retirement report `rr` carries its validity starts.
Instance B (the successor, in staging) is promoted in the round in which some observation carries
an attestation that verifies to `rr` (`env.check … = some rr`).

* `retirement_report_is_state`: A's retirement report is exactly its (frozen) validity-start map,
  and A emits no channel report once retired (from C05);
* `staging_only_specimen`: before promotion B only emits specimen reports (from C05);
* `promotion_adopts`: in the promotion round B's validity starts become `rr`'s, for every channel
  listed there (defined by B or not) that is not voted out in that round;
* `handover`: from the promotion state on, as long as a listed channel is not voted out, its
  validity start stays the (codec-truncated) value from `rr` until the first state that is
  reportable for it — so B's first non-specimen report for the channel starts exactly where A's
  last window ended, no matter how many rounds after promotion B defines the channel.
-/
namespace DSV.Props.C04
open DSV DSV.LLO DSV.GoMap DSV.Props.C03

/-- a retired predecessor emits exactly its validity starts and no channel report -/
theorem retirement_report_is_state (cfg : Cfg) (σ : Sched) (encodes : Report → Nat → Bool) (seqNr : Nat) (o : Outcome)
    (hs : 1 < seqNr) (hr : o.stage = stageRetired) :
    reports cfg σ encodes seqNr o = [.retirement { version := cfg.version, va := o.va }] :=
  C05.retired_reports cfg σ encodes seqNr o hs hr

/-- **whichever retired round the retirement report is taken from**, it records the validity starts the
    instance retired with (up to the whole-second truncation of the version-0 codec): the handover
    does not depend on how long the retired predecessor keeps running -/
theorem retirement_report_stable (env : Env) (cfg : Cfg) (henv : EnvWF env) (o0 : Outcome) (hw : WFOutcome o0)
    (hr : o0.stage = stageRetired) (rs : List Round) (hrs : ∀ r ∈ rs, RoundOK env r)
    (σ : Sched) (encodes : Report → Nat → Bool) (seqNr : Nat) (hs : 1 < seqNr) :
    ∀ o ∈ run env cfg o0 rs, ∃ rr,
      reports cfg σ encodes seqNr o = [.retirement rr] ∧
      ∀ c v, o0.va.get? c = some v → (rr.va.get? c = some v ∨ rr.va.get? c = some (truncVA cfg v)) := by
  intro o ho
  obtain ⟨hst, _, hva⟩ := C05.retired_frozen_run env cfg henv o0 hw hr rs hrs o ho
  exact ⟨{ version := cfg.version, va := o.va }, retirement_report_is_state cfg σ encodes seqNr o hs hst, hva⟩

/-- before promotion (stage staging) every channel report is a specimen -/
theorem staging_only_specimen (cfg : Cfg) (σ : Sched) (encodes : Report → Nat → Bool) (seqNr : Nat) (o : Outcome)
    (hst : o.stage = stageStaging) (rep : Report) (fmt : Nat) (stage : String)
    (h : ReportOut.channel rep fmt stage ∈ reports cfg σ encodes seqNr o) : rep.specimen = true := by
  have := C05.specimen_exact cfg σ encodes seqNr o _ h
  simp only at this
  rw [this.1, hst]; decide

/-- **promotion adopts the predecessor's validity starts wholesale** -/
theorem promotion_adopts (env : Env) (cfg : Cfg) (σ : Sched) (hσ : σ.IsSched) (n : Nat) (prev o : Outcome)
    (obs : List Obs) (h : outcome env cfg σ n prev obs = .ok o)
    (hst : prev.stage = stageStaging) (hprom : o.stage ≠ stageStaging) :
    ∃ t rr, tally env cfg obs = .ok t ∧ t.validRR = some rr ∧
      (rr.va.isEmpty = false →
        ∀ c v, rr.va.get? c = some v → c ∉ (removalsOf cfg σ (stageOf cfg prev t) prev t).1 →
          o.va.get? c = some v) := by
  obtain ⟨_, t, ht, _, hstage, _, _, hva, _⟩ := outcome_ok h
  rw [hstage] at hprom
  have hsome : t.validRR.isSome = true := by
    rcases stageOf_cases cfg prev t with h1 | ⟨_, hv, _⟩ | ⟨h1, _⟩ | ⟨_, hv, _⟩
    · rw [h1, hst] at hprom; exact absurd rfl hprom
    · exact hv
    · rw [hst] at h1; exact absurd h1 (by decide)
    · exact hv
  cases hrr : t.validRR with
  | none => rw [hrr] at hsome; cases hsome
  | some rr =>
    refine ⟨t, rr, ht, hrr, ?_⟩
    intro hne c v hc hnr
    have hp : promotedBy prev t = true := by
      unfold promotedBy; rw [hst, hrr]; rfl
    rw [hva, vaOf_spec_promote cfg σ hσ prev t _ _ _ rr hp hrr hne c, if_neg hnr, hc]

/-- the state is not reportable for `c` -/
def Unrep (cfg : Cfg) (c : Nat) (s : Outcome) : Prop := isReportable s c cfg.version cfg.minInterval ≠ none

/-- **handover**: let `p` be a state of B at or after promotion whose validity start for `c` is `v`
    (by `promotion_adopts`, the predecessor's value), let the following states `mid` be not
    reportable for `c` and `p` itself not reportable either, and let `b` be the next state.  Then
    `b`'s validity start for `c` — the start of B's first non-specimen report for `c` if `b` is
    reportable — is the truncated predecessor value. -/
theorem handover (cfg : Cfg) (c v : Nat) (p b : Outcome) (mid : List Outcome)
    (hcons : Consecutive (fun x y => ∃ va, x.va.get? c = some va ∧ y.va.get? c = some (adv cfg c va x))
      (p :: (mid ++ [b])))
    (hpv : p.va.get? c = some v) (hp : Unrep cfg c p) (hmid : ∀ m ∈ mid, Unrep cfg c m) :
    b.va.get? c = some (truncVA cfg v) := by
  have gen : ∀ (mid : List Outcome) (x : Outcome) (e : Nat),
      Consecutive (fun x y => ∃ va, x.va.get? c = some va ∧ y.va.get? c = some (adv cfg c va x)) (x :: (mid ++ [b])) →
      (∀ va, x.va.get? c = some va → adv cfg c va x = truncVA cfg e) →
      (∀ m ∈ mid, Unrep cfg c m) → b.va.get? c = some (truncVA cfg e) := by
    intro mid
    induction mid with
    | nil =>
      intro x e hc hx _
      simp only [List.nil_append, Consecutive] at hc
      obtain ⟨⟨va, h1, h2⟩, _⟩ := hc
      rw [h2, hx va h1]
    | cons m ms ih =>
      intro x e hc hx hm
      simp only [List.cons_append, Consecutive] at hc
      obtain ⟨⟨va, h1, h2⟩, hrest⟩ := hc
      apply ih m e hrest
      · intro va' hva'
        rw [h2] at hva'
        simp only [Option.some.injEq] at hva'
        subst hva'
        have hnr := hm m (by simp)
        unfold Unrep at hnr
        cases hrm : isReportable m c cfg.version cfg.minInterval with
        | none => exact absurd hrm hnr
        | some u => rw [adv_unreportable cfg c _ m u hrm, hx va h1, truncVA_idem]
      · intro m' hm'; exact hm m' (by simp [hm'])
  apply gen mid p v hcons _ hmid
  intro va hva
  rw [hpv] at hva
  simp only [Option.some.injEq] at hva
  subst hva
  unfold Unrep at hp
  cases hr : isReportable p c cfg.version cfg.minInterval with
  | none => exact absurd hr hp
  | some u => exact adv_unreportable cfg c _ p u hr

/-- a channel that is listed in the retirement report but not (yet) defined by the successor is not
    reportable, so its validity start is carried: the entry is kept until the channel is defined -/
theorem undefined_channel_unreportable (cfg : Cfg) (c : Nat) (s : Outcome) (h : s.defs.get? c = none) :
    Unrep cfg c s := by
  unfold Unrep isReportable
  split
  · simp
  · rw [h]; simp

/-- **the attestation travels only while staging**: a correct node attaches the predecessor's
    attested retirement report to its observation only if it has a configured predecessor and its
    previous outcome is still staging (whole `observation()` model, `DSV/LLO/Observe.lean`) -/
theorem attests_only_while_staging (env : Env) (cfg : Cfg) (seqNr : Nat) (prev : Outcome) (nd : Node) (o : Obs)
    (h : observation env cfg seqNr prev nd = .ok (some o)) (ha : o.attested ≠ []) :
    cfg.hasPred = true ∧ prev.stage = stageStaging :=
  (C14.honest_observation_shape env cfg seqNr prev nd o h).2.1 ha

end DSV.Props.C04
