import DSV.Mercury.LemmasSel
import DSV.Mercury.LemmasBlock
import DSV.Mercury.LemmasReport
/-!
# C08 — Mercury consensus values are byzantine-robust

Property theorems only.  Notation: an exported `GetConsensus*` function sees one `(value, valid)`
pair per observation; `vs.Perm (hs ++ bs)` splits the observations into those of correct observers
(`hs`) and the others (`bs`), in any order; `σ` is the iteration order of a Go map range.
-/
namespace DSV.Props.C08
open DSV DSV.Mercury

/-! ## medians lie within the honest range (all `f`, all splits, all orders) -/

theorem timestamp_in_honest_range (ts hs bs : List Nat) (t : Nat) (hperm : ts.Perm (hs ++ bs))
    (hmaj : bs.length < hs.length) (h : consensusTimestamp ts = .ok t) :
    ∃ lo ∈ hs, ∃ hi ∈ hs, lo ≤ t ∧ t ≤ hi :=
  consensusTimestamp_in_honest_range hperm hmaj h

/-- `GetConsensusTimestamp` never fails on a non-empty list (it indexes `len/2`) -/
theorem timestamp_ok (ts : List Nat) (h : 0 < ts.length) : ∃ t, consensusTimestamp ts = .ok t :=
  consensusTimestamp_ok h

/-- common statement for benchmark price, bid and ask -/
theorem price_in_honest_range (f : Nat) (vs hs bs : List (Int × Bool)) (v : Int)
    (hperm : vs.Perm (hs ++ bs)) (hmaj : (validVals bs).length < (validVals hs).length)
    (h : consensusPrice vs f = .ok v) :
    ∃ lo ∈ validVals hs, ∃ hi ∈ validVals hs, lo ≤ v ∧ v ≤ hi := by
  rw [consensusPrice_eq] at h
  split at h
  · cases h
  · exact medianInt_in_honest_range (by rw [← validVals_append]; exact validVals_perm hperm) hmaj h

theorem benchmark_in_honest_range (f : Nat) (vs hs bs : List (Int × Bool)) (v : Int)
    (hperm : vs.Perm (hs ++ bs)) (hmaj : (validVals bs).length < (validVals hs).length)
    (h : consensusBenchmarkPrice vs f = .ok v) :
    ∃ lo ∈ validVals hs, ∃ hi ∈ validVals hs, lo ≤ v ∧ v ≤ hi :=
  price_in_honest_range f vs hs bs v hperm hmaj h

theorem bid_in_honest_range (f : Nat) (vs hs bs : List (Int × Bool)) (v : Int)
    (hperm : vs.Perm (hs ++ bs)) (hmaj : (validVals bs).length < (validVals hs).length)
    (h : consensusBid vs f = .ok v) :
    ∃ lo ∈ validVals hs, ∃ hi ∈ validVals hs, lo ≤ v ∧ v ≤ hi :=
  price_in_honest_range f vs hs bs v hperm hmaj h

theorem ask_in_honest_range (f : Nat) (vs hs bs : List (Int × Bool)) (v : Int)
    (hperm : vs.Perm (hs ++ bs)) (hmaj : (validVals bs).length < (validVals hs).length)
    (h : consensusAsk vs f = .ok v) :
    ∃ lo ∈ validVals hs, ∃ hi ∈ validVals hs, lo ≤ v ∧ v ≤ hi :=
  price_in_honest_range f vs hs bs v hperm hmaj h

/-- common statement for LINK and native fee: the honest values that count are the valid,
    non-negative ones -/
theorem fee_in_honest_range (f : Nat) (vs hs bs : List (Int × Bool)) (v : Int)
    (hperm : vs.Perm (hs ++ bs)) (hmaj : (validFees bs).length < (validFees hs).length)
    (h : consensusFee vs f = .ok v) :
    ∃ lo ∈ validFees hs, ∃ hi ∈ validFees hs, lo ≤ v ∧ v ≤ hi := by
  rw [consensusFee_eq] at h
  split at h
  · cases h
  · exact medianInt_in_honest_range (by rw [← validFees_append]; exact validFees_perm hperm) hmaj h

theorem link_fee_in_honest_range (f : Nat) (vs hs bs : List (Int × Bool)) (v : Int)
    (hperm : vs.Perm (hs ++ bs)) (hmaj : (validFees bs).length < (validFees hs).length)
    (h : consensusLinkFee vs f = .ok v) :
    ∃ lo ∈ validFees hs, ∃ hi ∈ validFees hs, lo ≤ v ∧ v ≤ hi :=
  fee_in_honest_range f vs hs bs v hperm hmaj h

theorem native_fee_in_honest_range (f : Nat) (vs hs bs : List (Int × Bool)) (v : Int)
    (hperm : vs.Perm (hs ++ bs)) (hmaj : (validFees bs).length < (validFees hs).length)
    (h : consensusNativeFee vs f = .ok v) :
    ∃ lo ∈ validFees hs, ∃ hi ∈ validFees hs, lo ≤ v ∧ v ≤ hi :=
  fee_in_honest_range f vs hs bs v hperm hmaj h

/-- in the property's own terms: at most `f` faulty observations and at least `f+1` valid values
    from correct observers ⇒ a price is produced and it lies in the honest range -/
theorem price_robust (f : Nat) (vs hs bs : List (Int × Bool)) (hperm : vs.Perm (hs ++ bs))
    (hb : bs.length ≤ f) (hh : f + 1 ≤ (validVals hs).length) :
    ∃ v, consensusPrice vs f = .ok v ∧ ∃ lo ∈ validVals hs, ∃ hi ∈ validVals hs, lo ≤ v ∧ v ≤ hi := by
  have hlen : (validVals vs).length = (validVals hs).length + (validVals bs).length := by
    rw [(validVals_perm hperm).length_eq, validVals_append, List.length_append]
  have hbl : (validVals bs).length ≤ bs.length := List.length_filterMap_le _ _
  have hok : ∃ v, consensusPrice vs f = .ok v := by
    rw [consensusPrice_eq, if_neg (by omega)]
    exact medianInt_ok_of_ne_nil (by omega)
  obtain ⟨v, hv⟩ := hok
  exact ⟨v, hv, price_in_honest_range f vs hs bs v hperm (by omega) hv⟩

theorem fee_robust (f : Nat) (vs hs bs : List (Int × Bool)) (hperm : vs.Perm (hs ++ bs))
    (hb : bs.length ≤ f) (hh : f + 1 ≤ (validFees hs).length) :
    ∃ v, consensusFee vs f = .ok v ∧ ∃ lo ∈ validFees hs, ∃ hi ∈ validFees hs, lo ≤ v ∧ v ≤ hi := by
  have hlen : (validFees vs).length = (validFees hs).length + (validFees bs).length := by
    rw [(validFees_perm hperm).length_eq, validFees_append, List.length_append]
  have hbl : (validFees bs).length ≤ bs.length := List.length_filterMap_le _ _
  have hok : ∃ v, consensusFee vs f = .ok v := by
    rw [consensusFee_eq, if_neg (by omega)]
    exact medianInt_ok_of_ne_nil (by omega)
  obtain ⟨v, hv⟩ := hok
  exact ⟨v, hv, fee_in_honest_range f vs hs bs v hperm (by omega) hv⟩

/-! ## fewer than `f+1` usable values ⇒ error (prices) / zero-fee fallback (fees) -/

theorem price_too_few (f : Nat) (vs : List (Int × Bool)) (h : (validVals vs).length < f + 1) :
    consensusPrice vs f = .err "too-few" := by
  rw [consensusPrice_eq, if_pos h]

theorem fee_too_few (f : Nat) (vs : List (Int × Bool)) (h : (validFees vs).length < f + 1) :
    consensusFee vs f = .err "too-few" := by
  rw [consensusFee_eq, if_pos h]

/-- the documented fallback of `buildReportFields` (v2–v4): with too few usable fees the reported
    fee is 0, otherwise it is exactly the consensus fee — never anything else -/
theorem fee_zero_fallback (f : Nat) (vs : List (Int × Bool)) (v : Int)
    (h : feeOrZero (consensusFee vs f) = .ok v) :
    ((validFees vs).length < f + 1 ∧ v = 0) ∨ (f + 1 ≤ (validFees vs).length ∧ consensusFee vs f = .ok v) := by
  by_cases hc : (validFees vs).length < f + 1
  · rw [fee_too_few f vs hc] at h; cases h; exact Or.inl ⟨hc, rfl⟩
  · right
    refine ⟨by omega, ?_⟩
    obtain ⟨w, hw⟩ : ∃ w, consensusFee vs f = .ok w := by
      rw [consensusFee_eq, if_neg hc]; exact medianInt_ok_of_ne_nil (by omega)
    rw [hw] at h; cases h; exact hw

/-- a price is never produced from fewer than `f+1` valid values, and what is produced is one of them -/
theorem price_ok_iff (f : Nat) (vs : List (Int × Bool)) :
    (∃ v, consensusPrice vs f = .ok v) ↔ f + 1 ≤ (validVals vs).length := by
  constructor
  · rintro ⟨v, h⟩
    by_cases hc : (validVals vs).length < f + 1
    · rw [price_too_few f vs hc] at h; cases h
    · omega
  · intro h
    rw [consensusPrice_eq, if_neg (by omega)]
    exact medianInt_ok_of_ne_nil (by omega)

theorem price_mem (f : Nat) (vs : List (Int × Bool)) (v : Int) (h : consensusPrice vs f = .ok v) :
    (v, true) ∈ vs := by
  rw [consensusPrice_eq] at h
  split at h
  · cases h
  · exact mem_validVals.mp (medianInt_mem h)

/-! ## f+1-agreement selectors only return values reported at least `f+1` times -/

theorem max_finalized_ts_agreed (σ : Sched (Int × Nat)) (hσ : IsSched σ) (vs : List (Int × Bool))
    (f : Nat) (m : Int) (h : consensusMaxFinalizedTimestamp σ vs f = .ok m) :
    f + 1 ≤ (validVals vs).count m ∧ -1 ≤ m := by
  unfold consensusMaxFinalizedTimestamp at h
  simp only [] at h
  split at h
  · cases h
  · split at h
    · cases h
    · rename_i hlt
      cases h
      obtain ⟨_, hspec⟩ := mft_fold_spec f (σ (freq (validVals vs))) (-2)
      rcases hspec with h0 | ⟨e, he, hc, heq⟩
      · omega
      · have hm := mem_freq.mp ((hσ _).mem_iff.mp he)
        rw [← heq]; omega

theorem max_finalized_blocknum_agreed (σ : Sched (Int × Nat)) (hσ : IsSched σ) (vs : List (Int × Bool))
    (f : Nat) (n : Int) (h : V1.consensusMaxFinalizedBlockNum σ vs f = .ok n) :
    f + 1 ≤ (validVals vs).count n := by
  unfold V1.consensusMaxFinalizedBlockNum at h
  simp only [] at h
  split at h
  · cases h
  · split at h
    · cases h
    · rename_i hmax
      split at h
      · rename_i x hx
        cases h
        have hmem := List.mem_mergeSort.mp (List.mem_of_getElem? hx)
        simp only [List.mem_filterMap] at hmem
        obtain ⟨e, he, hsome⟩ := hmem
        split at hsome
        · rename_i heq
          cases hsome
          have hm := mem_freq.mp ((hσ _).mem_iff.mp he)
          simp only [beq_iff_eq] at heq
          omega
        · cases hsome
      · cases h

theorem market_status_agreed (σ : Sched (Nat × Nat)) (hσ : IsSched σ) (vs : List (Nat × Bool))
    (f : Nat) (s : Nat) (h : V4.consensusMarketStatus σ vs f = .ok s) :
    f + 1 ≤ (validVals vs).count s := by
  unfold V4.consensusMarketStatus at h
  simp only [] at h
  obtain ⟨_, ⟨c, hc, hc2, hc1⟩, _⟩ := ms_fold_best (σ (freq (validVals vs))) (0, 0)
  split at h
  · cases h
  · rename_i hge
    cases h
    rcases List.mem_cons.mp hc with rfl | hc
    · simp only [] at hc2; omega
    · have hm := mem_freq.mp ((hσ _).mem_iff.mp hc)
      rw [← hc1, ← hm.2]; omega

/-- a value reported at least `f+1` times among observations of which at most `f` are faulty was
    reported by a correct observer -/
theorem agreed_value_is_honest {α : Type} [DecidableEq α] (f : Nat) (vs hs bs : List (α × Bool)) (x : α)
    (hperm : vs.Perm (hs ++ bs)) (hb : bs.length ≤ f) (h : f + 1 ≤ (validVals vs).count x) :
    x ∈ validVals hs := by
  have h1 : (validVals vs).count x = (validVals hs).count x + (validVals bs).count x := by
    rw [(validVals_perm hperm).count_eq, validVals_append, List.count_append]
  have h2 : (validVals bs).count x ≤ bs.length :=
    Nat.le_trans List.count_le_length (List.length_filterMap_le _ _)
  exact List.count_pos_iff.mp (by omega)

theorem max_finalized_ts_honest (σ : Sched (Int × Nat)) (hσ : IsSched σ) (f : Nat)
    (vs hs bs : List (Int × Bool)) (m : Int) (hperm : vs.Perm (hs ++ bs)) (hb : bs.length ≤ f)
    (h : consensusMaxFinalizedTimestamp σ vs f = .ok m) : m ∈ validVals hs :=
  agreed_value_is_honest f vs hs bs m hperm hb (max_finalized_ts_agreed σ hσ vs f m h).1

theorem max_finalized_blocknum_honest (σ : Sched (Int × Nat)) (hσ : IsSched σ) (f : Nat)
    (vs hs bs : List (Int × Bool)) (n : Int) (hperm : vs.Perm (hs ++ bs)) (hb : bs.length ≤ f)
    (h : V1.consensusMaxFinalizedBlockNum σ vs f = .ok n) : n ∈ validVals hs :=
  agreed_value_is_honest f vs hs bs n hperm hb (max_finalized_blocknum_agreed σ hσ vs f n h)

theorem market_status_honest (σ : Sched (Nat × Nat)) (hσ : IsSched σ) (f : Nat)
    (vs hs bs : List (Nat × Bool)) (s : Nat) (hperm : vs.Perm (hs ++ bs)) (hb : bs.length ≤ f)
    (h : V4.consensusMarketStatus σ vs f = .ok s) : s ∈ validVals hs :=
  agreed_value_is_honest f vs hs bs s hperm hb (market_status_agreed σ hσ vs f s h)

/-- fewer than `f+1` valid values ⇒ each selector fails -/
theorem selectors_too_few (f : Nat) :
    (∀ σ (vs : List (Int × Bool)), (validVals vs).length < f + 1 →
      consensusMaxFinalizedTimestamp σ vs f = .err "too-few") ∧
    (∀ σ (vs : List (Int × Bool)), (validVals vs).length < f + 1 →
      V1.consensusMaxFinalizedBlockNum σ vs f = .err "too-few") ∧
    (∀ σ (_ : IsSched σ) (vs : List (Nat × Bool)), (validVals vs).length < f + 1 →
      V4.consensusMarketStatus σ vs f = .err "too-few") := by
  refine ⟨?_, ?_, ?_⟩
  · intro σ vs h; unfold consensusMaxFinalizedTimestamp; simp only []; rw [if_pos h]
  · intro σ vs h; unfold V1.consensusMaxFinalizedBlockNum; simp only []; rw [if_pos h]
  · intro σ hσ vs h
    cases hr : V4.consensusMarketStatus σ vs f with
    | ok s =>
      have := market_status_agreed σ hσ vs f s hr
      have := @List.count_le_length _ _ s (validVals vs)
      omega
    | err c =>
      unfold V4.consensusMarketStatus at hr
      simp only [] at hr
      split at hr
      · cases hr; rfl
      · cases hr
    | panic =>
      unfold V4.consensusMarketStatus at hr
      simp only [] at hr
      split at hr <;> cases hr

/-! ## v1: the consensus block is a triple reported identically `f+1` times -/

theorem latest_block_agreed (σ : V1.SchedsLB) (hσ : σ.IsSched) (paos : List V1.PAO) (f : Nat)
    (h : Bytes) (n : Int) (t : Nat) (hr : V1.consensusLatestBlock σ paos f = .ok (h, n, t)) :
    f + 1 ≤ (V1.allBlocks paos).count ⟨n, h, t⟩ := by
  unfold V1.consensusLatestBlock at hr
  obtain ⟨g, hg, hc⟩ := pickBlock_ok hσ.2 hr
  have hg2 := mem_groupingsM ((hσ.1 _).mem_iff.mp (List.mem_mergeSort.mp hg))
  rw [hg2] at hc
  have hmem : (⟨n, h, t⟩ : V1.Block) ∈ (V1.allBlocks paos).filter fun b => b.num = g.1 :=
    List.count_pos_iff.mp (by omega)
  have hp := (List.mem_filter.mp hmem).2
  have := List.count_filter (p := fun (b : V1.Block) => decide (b.num = g.1)) (a := ⟨n, h, t⟩)
    (l := V1.allBlocks paos) hp
  omega

/-- parsing drops every observation that repeats a block number, so each parsed observation
    contributes a given block at most once -/
theorem parse_blocks_nodup (o : V1.Obs) (p : V1.PAO) (h : V1.parse o = some p) :
    (p.blocks.map (·.num)).Nodup := by
  unfold V1.parse at h
  simp only [Option.bind_eq_some_iff] at h
  obtain ⟨p1, hp1, p2, hp2, hp⟩ := h
  cases hp
  have h1 := parsePrices_blocks hp1
  simp only [] at h1
  have key : (p2.blocks.map (·.num)).Nodup := by
    unfold V1.parseBlocks at hp2
    split at hp2
    · split at hp2
      · cases hp2
      · simp only [Option.map_eq_some_iff] at hp2
        obtain ⟨bs, hbs, rfl⟩ := hp2
        have := foldl_blocksStep_nodup o.latestBlocks (some []) (by intro r0 hr0; cases hr0; simp) hbs
        simp only [V1.PAO.blocks]
        split
        · exact this
        · split <;> simp
    · split at hp2
      · split at hp2
        · cases hp2
        · split at hp2
          · cases hp2
          · cases hp2
            simp only [V1.PAO.blocks]
            split
            · rename_i hl; rw [h1.1] at hl; simp at hl
            · simp
      · cases hp2
        simp only [V1.PAO.blocks]
        split
        · rename_i hl; rw [h1.1] at hl; simp at hl
        · split <;> simp
  have : (V1.parseMfbn o p2).blocks = p2.blocks := by
    unfold V1.parseMfbn V1.PAO.blocks; split <;> rfl
  rw [this]; exact key

/-- … hence the consensus block was reported by at least `f+1` distinct observers -/
theorem latest_block_observers (σ : V1.SchedsLB) (hσ : σ.IsSched) (paos : List V1.PAO) (f : Nat)
    (h : Bytes) (n : Int) (t : Nat) (hnd : ∀ p ∈ paos, (p.blocks.map (·.num)).Nodup)
    (hr : V1.consensusLatestBlock σ paos f = .ok (h, n, t)) :
    f + 1 ≤ paos.countP fun p => decide ((⟨n, h, t⟩ : V1.Block) ∈ p.blocks) := by
  have h1 := latest_block_agreed σ hσ paos f h n t hr
  have h2 := count_flatMap_le V1.PAO.blocks (⟨n, h, t⟩ : V1.Block) paos (by
    intro p hp
    have : p.blocks.Nodup :=
      List.Pairwise.of_map (S := fun a b => a ≠ b) (·.num) (fun a b hab heq => hab (by rw [heq])) (hnd p hp)
    exact List.nodup_iff_count.mp this _)
  unfold V1.allBlocks at h1
  omega

/-- through `Report`: observations are parsed first, so the votes are distinct observers, and with
    at most `f` faulty ones a correct observer reported the consensus block -/
theorem latest_block_honest (σ : V1.SchedsLB) (hσ : σ.IsSched) (aos hs bs : List (Option V1.Obs))
    (f : Nat) (h : Bytes) (n : Int) (t : Nat) (hperm : aos.Perm (hs ++ bs)) (hb : bs.length ≤ f)
    (hr : V1.consensusLatestBlock σ (V1.parseAll aos) f = .ok (h, n, t)) :
    ∃ p ∈ V1.parseAll hs, (⟨n, h, t⟩ : V1.Block) ∈ p.blocks := by
  have hnd : ∀ p ∈ V1.parseAll aos, (p.blocks.map (·.num)).Nodup := by
    intro p hp
    simp only [V1.parseAll, List.mem_filterMap] at hp
    obtain ⟨o, _, ho⟩ := hp
    cases o with
    | none => simp at ho
    | some o => exact parse_blocks_nodup o p ho
  have h1 := latest_block_observers σ hσ _ f h n t hnd hr
  have hp2 : (V1.parseAll aos).Perm (V1.parseAll hs ++ V1.parseAll bs) := by
    unfold V1.parseAll; rw [← List.filterMap_append]; exact List.Perm.filterMap _ hperm
  rw [hp2.countP_eq, List.countP_append] at h1
  have h3 : (V1.parseAll bs).countP (fun p => decide ((⟨n, h, t⟩ : V1.Block) ∈ p.blocks)) ≤ bs.length :=
    Nat.le_trans List.countP_le_length (List.length_filterMap_le _ _)
  have h4 : 0 < (V1.parseAll hs).countP fun p => decide ((⟨n, h, t⟩ : V1.Block) ∈ p.blocks) := by omega
  obtain ⟨p, hp, hd⟩ := List.countP_pos_iff.mp h4
  exact ⟨p, hp, by simpa using hd⟩

/-! ## the result does not depend on the order of the observations nor on map iteration order -/

theorem timestamp_perm (ts ts' : List Nat) (h : ts.Perm ts') : consensusTimestamp ts = consensusTimestamp ts' :=
  consensusTimestamp_perm h

theorem price_perm (f : Nat) (vs vs' : List (Int × Bool)) (h : vs.Perm vs') :
    consensusPrice vs f = consensusPrice vs' f := by
  rw [consensusPrice_eq, consensusPrice_eq, (validVals_perm h).length_eq, medianInt_perm (validVals_perm h)]

theorem fee_perm (f : Nat) (vs vs' : List (Int × Bool)) (h : vs.Perm vs') :
    consensusFee vs f = consensusFee vs' f := by
  rw [consensusFee_eq, consensusFee_eq, (validFees_perm h).length_eq, medianInt_perm (validFees_perm h)]

theorem max_finalized_ts_perm (σ σ' : Sched (Int × Nat)) (hσ : IsSched σ) (hσ' : IsSched σ') (f : Nat)
    (vs vs' : List (Int × Bool)) (h : vs.Perm vs') :
    consensusMaxFinalizedTimestamp σ vs f = consensusMaxFinalizedTimestamp σ' vs' f := by
  unfold consensusMaxFinalizedTimestamp
  simp only []
  have hp : (σ (freq (validVals vs))).Perm (σ' (freq (validVals vs'))) :=
    (hσ _).trans ((freq_perm (validVals_perm h)).trans (hσ' _).symm)
  rw [(validVals_perm h).length_eq, List.Perm.foldl_eq' hp (fun x _ y _ z => mftStep_comm f z x y)]

theorem max_finalized_blocknum_perm (σ σ' : Sched (Int × Nat)) (hσ : IsSched σ) (hσ' : IsSched σ')
    (f : Nat) (vs vs' : List (Int × Bool)) (h : vs.Perm vs') :
    V1.consensusMaxFinalizedBlockNum σ vs f = V1.consensusMaxFinalizedBlockNum σ' vs' f := by
  unfold V1.consensusMaxFinalizedBlockNum
  simp only []
  have hp : (σ (freq (validVals vs))).Perm (σ' (freq (validVals vs'))) :=
    (hσ _).trans ((freq_perm (validVals_perm h)).trans (hσ' _).symm)
  rw [(validVals_perm h).length_eq, V1.maxCount_perm (validVals_perm h),
    mergeSort_int_perm (List.Perm.filterMap _ hp)]

theorem market_status_perm (σ σ' : Sched (Nat × Nat)) (hσ : IsSched σ) (hσ' : IsSched σ') (f : Nat)
    (vs vs' : List (Nat × Bool)) (h : vs.Perm vs') :
    V4.consensusMarketStatus σ vs f = V4.consensusMarketStatus σ' vs' f := by
  unfold V4.consensusMarketStatus
  simp only []
  have hp : (σ (freq (validVals vs))).Perm (σ' (freq (validVals vs'))) :=
    (hσ _).trans ((freq_perm (validVals_perm h)).trans (hσ' _).symm)
  have := MsBest_unique (cs := (0, 0) :: σ (freq (validVals vs))) (cs' := (0, 0) :: σ' (freq (validVals vs')))
    (fun c => by simp only [List.mem_cons]; rw [hp.mem_iff])
    (ms_fold_best _ _) (ms_fold_best _ _)
  rw [this]

theorem latest_block_perm (σ σ' : V1.SchedsLB) (hσ : σ.IsSched) (hσ' : σ'.IsSched) (f : Nat)
    (paos paos' : List V1.PAO) (h : paos.Perm paos') :
    V1.consensusLatestBlock σ paos f = V1.consensusLatestBlock σ' paos' f :=
  consensusLatestBlock_perm hσ hσ' f h

/-! ## the fields handed to the codec are the consensus values of the parsed observations

so every statement above about an exported function is a statement about an emitted report -/

theorem v1_fields_from_consensus (cfg : Cfg) (codec : Codec V1.RF) (σ : V1.Scheds) (prev : Option Bytes)
    (aos : List (Option V1.Obs)) (rf : V1.RF) (b : Bytes)
    (h : V1.report cfg codec σ prev aos = .ok (some (rf, b))) :
    consensusTimestamp ((V1.parseAll aos).map (·.ts)) = .ok rf.ts ∧
    (∃ v, consensusBenchmarkPrice ((V1.parseAll aos).map fun p => (p.bp, p.pricesValid)) cfg.f = .ok v ∧ rf.bp = some v) ∧
    (∃ v, consensusBid ((V1.parseAll aos).map fun p => (p.bid, p.pricesValid)) cfg.f = .ok v ∧ rf.bid = some v) ∧
    (∃ v, consensusAsk ((V1.parseAll aos).map fun p => (p.ask, p.pricesValid)) cfg.f = .ok v ∧ rf.ask = some v) ∧
    V1.consensusLatestBlock σ.lb (V1.parseAll aos) cfg.f = .ok (rf.curHash, rf.curNum, rf.curTs) := by
  obtain ⟨_, hb, _⟩ := reportCore_some h
  obtain ⟨_, h2, h3, h4, h5, h6⟩ := V1.build_ok hb
  exact ⟨h2, h3, h4, h5, h6⟩

theorem v2_fields_from_consensus (cfg : Cfg) (codec : Codec V2.RF) (σ : Sched (Int × Nat)) (prev : Option Bytes)
    (aos : List (Option V2.Obs)) (rf : V2.RF) (b : Bytes)
    (h : V2.report cfg codec σ prev aos = .ok (some (rf, b))) :
    consensusTimestamp ((V2.parseAll aos).map (·.ts)) = .ok rf.ts ∧
    (∃ v, consensusBenchmarkPrice ((V2.parseAll aos).map fun p => (p.bp, p.pricesValid)) cfg.f = .ok v ∧ rf.bp = some v) ∧
    feeOrZero (consensusLinkFee ((V2.parseAll aos).map fun p => (p.linkFee, p.linkFeeValid)) cfg.f) = .ok rf.linkFee ∧
    feeOrZero (consensusNativeFee ((V2.parseAll aos).map fun p => (p.nativeFee, p.nativeFeeValid)) cfg.f) = .ok rf.nativeFee := by
  obtain ⟨_, hb, _⟩ := reportCore_some h
  obtain ⟨h1, _, h3, h4, h5, _⟩ := V2.build_ok hb
  exact ⟨h1, h3, h4, h5⟩

theorem v3_fields_from_consensus (cfg : Cfg) (codec : Codec V3.RF) (σ : Sched (Int × Nat)) (prev : Option Bytes)
    (aos : List (Option V3.Obs)) (rf : V3.RF) (b : Bytes)
    (h : V3.report cfg codec σ prev aos = .ok (some (rf, b))) :
    consensusTimestamp ((V3.parseAll aos).map (·.ts)) = .ok rf.ts ∧
    (∃ v, consensusBenchmarkPrice ((V3.parseAll aos).map fun p => (p.bp, p.pricesValid)) cfg.f = .ok v ∧ rf.bp = some v) ∧
    (∃ v, consensusBid ((V3.parseAll aos).map fun p => (p.bid, p.pricesValid)) cfg.f = .ok v ∧ rf.bid = some v) ∧
    (∃ v, consensusAsk ((V3.parseAll aos).map fun p => (p.ask, p.pricesValid)) cfg.f = .ok v ∧ rf.ask = some v) ∧
    feeOrZero (consensusLinkFee ((V3.parseAll aos).map fun p => (p.linkFee, p.linkFeeValid)) cfg.f) = .ok rf.linkFee ∧
    feeOrZero (consensusNativeFee ((V3.parseAll aos).map fun p => (p.nativeFee, p.nativeFeeValid)) cfg.f) = .ok rf.nativeFee := by
  obtain ⟨_, hb, _⟩ := reportCore_some h
  obtain ⟨h1, _, h3, h4, h5, h6, h7, _⟩ := V3.build_ok hb
  exact ⟨h1, h3, h4, h5, h6, h7⟩

theorem v4_fields_from_consensus (cfg : Cfg) (codec : Codec V4.RF) (σ : V4.Scheds) (prev : Option Bytes)
    (aos : List (Option V4.Obs)) (rf : V4.RF) (b : Bytes)
    (h : V4.report cfg codec σ prev aos = .ok (some (rf, b))) :
    consensusTimestamp ((V4.parseAll aos).map (·.ts)) = .ok rf.ts ∧
    (∃ v, consensusBenchmarkPrice ((V4.parseAll aos).map fun p => (p.bp, p.pricesValid)) cfg.f = .ok v ∧ rf.bp = some v) ∧
    feeOrZero (consensusLinkFee ((V4.parseAll aos).map fun p => (p.linkFee, p.linkFeeValid)) cfg.f) = .ok rf.linkFee ∧
    feeOrZero (consensusNativeFee ((V4.parseAll aos).map fun p => (p.nativeFee, p.nativeFeeValid)) cfg.f) = .ok rf.nativeFee ∧
    V4.consensusMarketStatus σ.ms ((V4.parseAll aos).map fun p => (p.marketStatus, p.marketStatusValid)) cfg.f = .ok rf.marketStatus := by
  obtain ⟨_, hb, _⟩ := reportCore_some h
  obtain ⟨h1, _, h3, h4, h5, h6, _⟩ := V4.build_ok hb
  exact ⟨h1, h3, h4, h5, h6⟩

/-- composed, at the level of `Report` (v2; the other versions compose the same way): the
    benchmark price in an emitted report lies between two valid prices of correct observers
    whenever those outnumber the valid prices of the others -/
theorem v2_report_benchmark_in_honest_range (cfg : Cfg) (codec : Codec V2.RF) (σ : Sched (Int × Nat))
    (prev : Option Bytes) (aos hs bs : List (Option V2.Obs)) (rf : V2.RF) (b : Bytes)
    (hperm : aos.Perm (hs ++ bs))
    (hmaj : (validVals ((V2.parseAll bs).map fun p => (p.bp, p.pricesValid))).length <
            (validVals ((V2.parseAll hs).map fun p => (p.bp, p.pricesValid))).length)
    (h : V2.report cfg codec σ prev aos = .ok (some (rf, b))) :
    ∃ bp, rf.bp = some bp ∧
      ∃ lo ∈ validVals ((V2.parseAll hs).map fun p => (p.bp, p.pricesValid)),
      ∃ hi ∈ validVals ((V2.parseAll hs).map fun p => (p.bp, p.pricesValid)), lo ≤ bp ∧ bp ≤ hi := by
  obtain ⟨_, ⟨v, hv, hbp⟩, _⟩ := v2_fields_from_consensus cfg codec σ prev aos rf b h
  refine ⟨v, hbp, ?_⟩
  have hp : ((V2.parseAll aos).map fun p => (p.bp, p.pricesValid)).Perm
      (((V2.parseAll hs).map fun p => (p.bp, p.pricesValid)) ++ ((V2.parseAll bs).map fun p => (p.bp, p.pricesValid))) := by
    rw [← List.map_append]
    apply List.Perm.map
    unfold V2.parseAll; rw [← List.filterMap_append]; exact List.Perm.filterMap _ hperm
  exact benchmark_in_honest_range cfg.f _ _ _ v hp hmaj hv

/-! ## non-vacuity and sharpness of the thresholds -/

/-- hypotheses of the range theorems are satisfiable: 3 honest, 1 faulty, f = 1 -/
example : ∃ v, consensusPrice [(10, true), (100000, true), (11, true), (12, true)] 1 = .ok v ∧
    ∃ lo ∈ validVals [((10 : Int), true), (11, true), (12, true)],
    ∃ hi ∈ validVals [((10 : Int), true), (11, true), (12, true)], lo ≤ v ∧ v ≤ hi :=
  price_robust 1 _ [(10, true), (11, true), (12, true)] [(100000, true)]
    (by
      refine List.Perm.cons _ ?_
      exact (List.perm_append_comm (l₁ := [((100000 : Int), true)]) (l₂ := [(11, true), (12, true)])))
    (by decide) (by decide)

/-- `f` agreeing observers are not enough, `f+1` are (max finalized timestamp, f = 1) -/
example : consensusMaxFinalizedTimestamp id [(7, true), (8, true), (9, true)] 1 = .err "no-agreement" := by decide
example : consensusMaxFinalizedTimestamp id [(7, true), (8, true), (7, true)] 1 = .ok 7 := by decide
/-- market status: ties prefer the smaller value; exactly `f` votes are refused -/
example : V4.consensusMarketStatus id [(2, true), (1, true), (2, true), (1, true)] 1 = .ok 1 := by decide
example : V4.consensusMarketStatus id [(2, true), (1, true), (3, false)] 1 = .err "too-few" := by decide
/-- too few valid values -/
example : consensusPrice [(5, true), (7, false), (6, false)] 1 = .err "too-few" := by decide
/-- negative fees do not count -/
example : consensusFee [(5, true), (-7, true)] 1 = .err "too-few" := by decide

end DSV.Props.C08
