import DSV.Props.C15
import DSV.Lemmas.Outcome
/-!
# C11 — no plugin callback panics (LLO part of the model)

The Go code has exactly one reachable-by-construction panic site in `outcome()`: the dereference
`*p.PredecessorConfigDigest` when an observation carries an attestation and the instance has no
predecessor; `ValidateObservation` rejects such observations.  The model carries that site as an
explicit `.panic` branch, and the theorems show it is unreachable for validated observations, and
that nothing else in `outcome()` panics.  (`reports()` is a total function in the model; the EVM,
Mercury and codec entry points have their own no-panic theorems in C12/C13, C07 and C10/C16.)
-/
namespace DSV.Props.C11
open DSV DSV.LLO

theorem medianDQ_no_panic (vs : List (Option SV)) (f : Nat) : medianDQ vs f ≠ .panic := by
  unfold medianDQ; simp only; split <;> simp

theorem medianAgg_no_panic (vs : List (Option SV)) (f : Nat) : medianAgg vs f ≠ .panic := by
  unfold medianAgg
  have : (mostCommonType vs) = ((mostCommonType vs).1, (mostCommonType vs).2) := rfl
  rw [this]; simp only
  split
  · have := medianDQ_no_panic ((mostCommonType vs).2.map tsvInner) f
    cases hm : medianDQ ((mostCommonType vs).2.map tsvInner) f with
    | ok v => simp
    | err e => simp
    | panic => exact absurd hm this
  · split
    · exact medianDQ_no_panic vs f
    · simp

theorem quoteAgg_no_panic (vs : List (Option SV)) (f : Nat) : quoteAgg vs f ≠ .panic := by
  unfold quoteAgg; simp only; split <;> simp

/-- no aggregator function panics on any value list -/
theorem aggregate_never_panics (agg : Nat) (vs : List (Option SV)) (f : Nat) (r : GoRes (Option SV))
    (h : aggregate agg vs f = some r) : r ≠ .panic := by
  unfold aggregate at h
  split at h
  · cases h
    have := medianAgg_no_panic vs f
    cases hm : medianAgg vs f <;> simp_all [GoRes.bind]
  · split at h
    · cases h; exact (C15.mode_never_nil_never_panics vs f).2
    · split at h
      · cases h
        have := quoteAgg_no_panic vs f
        cases hm : quoteAgg vs f <;> simp_all [GoRes.bind]
      · cases h

theorem aggregateOne_no_panic (cfg : Cfg) (prev : Outcome) (so : GoMap Nat (List (Option SV)))
    (aggs : GoMap (Nat × Nat) SV) (sid agg : Nat) : aggregateOne cfg prev so aggs sid agg ≠ .panic := by
  unfold aggregateOne
  split
  · simp
  · simp only
    cases ha : aggregate agg ((so.get? sid).getD []) cfg.f with
    | none => simp
    | some res =>
      have hnp := aggregate_never_panics agg _ cfg.f res ha
      cases res with
      | panic => exact absurd rfl hnp
      | err e => simp
      | ok r =>
        cases r with
        | none => simp
        | some v =>
          cases v with
          | dec d => simp
          | quote a b c => simp
          | tsv t w =>
            simp only
            split
            · split <;> simp
            · simp

theorem aggregateAll_no_panic (cfg : Cfg) (prev : Outcome) (so : GoMap Nat (List (Option SV)))
    (defs : List (Nat × ChanDef)) : aggregateAll cfg prev so defs ≠ .panic := by
  unfold aggregateAll
  have gen : ∀ (ss : List Stream) (acc : GoRes (GoMap (Nat × Nat) SV)), acc ≠ .panic →
      ss.foldl (fun (acc : GoRes (GoMap (Nat × Nat) SV)) s =>
        acc.bind fun aggs => aggregateOne cfg prev so aggs s.sid s.agg) acc ≠ .panic := by
    intro ss
    induction ss with
    | nil => intro acc h; exact h
    | cons s ss ih =>
      intro acc h
      simp only [List.foldl_cons]
      apply ih
      cases acc with
      | ok a => exact aggregateOne_no_panic cfg prev so a s.sid s.agg
      | err e => simp [GoRes.bind]
      | panic => exact absurd rfl h
  exact gen _ _ (by simp)

/-- the tally loop panics only at the nil-predecessor dereference -/
theorem tallyStep_no_panic (env : Env) (cfg : Cfg) (t : Tally) (o : Obs)
    (h : cfg.hasPred = true ∨ o.attested = []) : tallyStep env cfg t o ≠ .panic := by
  unfold tallyStep
  split
  · rename_i hc
    rcases h with h | h
    · simp only [h, Bool.not_true, Bool.false_eq_true, if_false]
      split <;> simp
    · simp [h] at hc
  · simp

theorem tally_no_panic (env : Env) (cfg : Cfg) (obs : List Obs)
    (h : cfg.hasPred = true ∨ ∀ o ∈ obs, o.attested = []) : tally env cfg obs ≠ .panic := by
  unfold tally
  have gen : ∀ (l : List Obs) (acc : GoRes Tally), acc ≠ .panic → (cfg.hasPred = true ∨ ∀ o ∈ l, o.attested = []) →
      l.foldl (fun (acc : GoRes Tally) o => acc.bind (fun t => tallyStep env cfg t o)) acc ≠ .panic := by
    intro l
    induction l with
    | nil => intro acc h _; exact h
    | cons x xs ih =>
      intro acc hacc hl
      simp only [List.foldl_cons]
      apply ih
      · cases acc with
        | ok t =>
          apply tallyStep_no_panic
          rcases hl with h | h
          · exact Or.inl h
          · exact Or.inr (h x (by simp))
        | err e => simp [GoRes.bind]
        | panic => exact absurd rfl hacc
      · rcases hl with h | h
        · exact Or.inl h
        · exact Or.inr (fun o ho => h o (by simp [ho]))
  exact gen obs _ (by simp) h

/-- **`outcome()` never panics** when no attestation can meet a nil predecessor digest -/
theorem outcome_no_panic (env : Env) (cfg : Cfg) (σ : Sched) (n : Nat) (prev : Outcome) (obs : List Obs)
    (h : cfg.hasPred = true ∨ ∀ o ∈ obs, o.attested = []) : outcome env cfg σ n prev obs ≠ .panic := by
  unfold outcome
  split
  · simp
  · have ht := tally_no_panic env cfg obs h
    cases htt : tally env cfg obs with
    | panic => exact absurd htt ht
    | err e => simp [GoRes.bind]
    | ok t =>
      simp only [GoRes.bind]
      split
      · simp
      · have ha := aggregateAll_no_panic cfg prev t.streamObs
          (σ.defsAgg (defsOf env cfg σ (stageOf cfg prev t) prev t))
        cases haa : aggregateAll cfg prev t.streamObs
          (σ.defsAgg (defsOf env cfg σ (stageOf cfg prev t) prev t)) with
        | panic => exact absurd haa ha
        | err e => simp
        | ok a => simp

/-- **observations that passed `ValidateObservation` cannot make `outcome()` panic** -/
theorem validated_no_panic (env : Env) (cfg : Cfg) (σ : Sched) (n seqNr : Nat) (prev : Outcome) (obs : List Obs)
    (hval : ∀ o ∈ obs, ∃ e, validateObservation env cfg seqNr e o = none) :
    outcome env cfg σ n prev obs ≠ .panic := by
  apply outcome_no_panic
  by_cases hp : cfg.hasPred = true
  · exact Or.inl hp
  · right
    intro o ho
    obtain ⟨e, he⟩ := hval o ho
    unfold validateObservation at he
    split at he
    · cases he
    · split at he
      · cases he
      · split at he
        · cases he
        · rename_i hatt
          have hpf : cfg.hasPred = false := by simpa using hp
          simp only [hpf, Bool.not_false, Bool.true_and, bne_iff_ne, ne_eq, List.length_eq_zero_iff] at hatt
          exact Classical.byContradiction hatt

/-- the codec round trip between rounds never panics -/
theorem codecRoundTrip_no_panic (cfg : Cfg) (o : Outcome) : codecRoundTrip cfg o ≠ .panic := by
  unfold codecRoundTrip; simp only
  split
  · split
    · simp
    · split <;> simp
  · simp

/-- the model does have the panic site (non-vacuity of the hypothesis): an attestation with no
    predecessor makes the tally step panic -/
example : tallyStep { check := fun _ => none, hashOf := fun _ _ => [], verifyDef := fun _ => true }
    { f := 1, version := 1, minInterval := 1, hasPred := false } {}
    { attested := [1], shouldRetire := false, ts := 0, removes := [], updates := [], values := [] } = .panic := by
  rfl

end DSV.Props.C11
