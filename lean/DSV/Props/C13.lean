import DSV.EVM.IntEnc
import DSV.Lemmas.Bytes
/-!
# C13 — Solidity integer encoders are exact and range-checked

Property theorems only.  `ty = some (signed, bits)` is the result of matching the type string
against `typeRegex`; `parse_typeChars` shows every one of the 64 type names is accepted and
`widths_mem` that an accepted width is a multiple of 8 between 8 and 256.
-/
namespace DSV.Props.C13
open DSV DSV.EVM

/-- representable in the Solidity type -/
def fits (signed : Bool) (bits : Nat) (v : Int) : Prop :=
  if signed then -((2 : Int) ^ (bits - 1)) ≤ v ∧ v ≤ (2 : Int) ^ (bits - 1) - 1
  else 0 ≤ v ∧ v < (2 : Int) ^ bits

theorem widths_mem {w : Nat} (h : w ∈ widths) : ∃ k, w = 8 * k ∧ 1 ≤ k ∧ k ≤ 32 := by
  simp only [widths, List.mem_map, List.mem_range] at h
  obtain ⟨i, hi, rfl⟩ := h
  exact ⟨i + 1, rfl, by omega, by omega⟩

/-- every one of the 64 type names `intN` / `uintN` is recognised with its own sign and width -/
theorem parse_typeChars : ∀ signed ∈ [true, false], ∀ w ∈ widths,
    parseTypeChars (typeChars signed w) = some (signed, w) := by decide

/-- a recognised type always has one of the 32 widths -/
theorem parse_width (cs : List Char) (s : Bool) (w : Nat)
    (h : parseTypeChars cs = some (s, w)) : w ∈ widths := by
  have key : ∀ sg r, findWidth sg r = some (s, w) → w ∈ widths := by
    intro sg r h
    simp only [findWidth, Option.map_eq_some_iff] at h
    obtain ⟨w', hw', heq⟩ := h
    cases heq
    exact List.mem_of_find?_eq_some hw'
  unfold parseTypeChars at h
  split at h
  · exact key _ _ h
  · exact key _ _ h
  · cases h

/-- packed encoding succeeds exactly when the value is representable -/
theorem packed_ok_iff_fits (signed : Bool) (bits : Nat) (v : Int) :
    (∃ bs, encodePackedT v (some (signed, bits)) = .ok bs) ↔ fits signed bits v := by
  cases signed
  · simp only [encodePackedT, fits, Bool.false_eq_true, if_false]
    constructor
    · rintro ⟨bs, h⟩
      split at h
      · cases h
      · split at h
        · cases h
        · omega
    · rintro ⟨h0, h1⟩
      rw [if_neg (by omega), if_neg (by omega)]
      exact ⟨_, rfl⟩
  · simp only [encodePackedT, fits, if_true]
    constructor
    · rintro ⟨bs, h⟩
      split at h
      · cases h
      · omega
    · rintro ⟨h0, h1⟩
      rw [if_neg (by omega)]
      exact ⟨_, rfl⟩

/-- an unrepresentable value is an error (never a panic, never bytes) -/
theorem packed_err_of_not_fits (signed : Bool) (bits : Nat) (v : Int) (h : ¬ fits signed bits v) :
    encodePackedT v (some (signed, bits)) = .err "out-of-range" := by
  cases signed
  · simp only [encodePackedT, fits, Bool.false_eq_true, if_false] at *
    split
    · rfl
    · split
      · rfl
      · omega
  · simp only [encodePackedT, fits, if_true] at *
    split
    · rfl
    · omega

private theorem int_pow_cast (n : Nat) : ((2 ^ n : Nat) : Int) = (2 : Int) ^ n := by
  simp [Int.natCast_pow]

/-- the packed bytes are exactly `bits/8` bytes holding `v mod 2^bits` big-endian, i.e. the
    two's-complement representation, and decoding them returns `v` -/
theorem packed_bytes (signed : Bool) (k : Nat) (hk : 1 ≤ k) (v : Int) (bs : List UInt8)
    (h : encodePackedT v (some (signed, 8 * k)) = .ok bs) :
    bs.length = k ∧ (fromBE bs : Int) = v % (2 : Int) ^ (8 * k) ∧
      (if signed then toSigned (8 * k) (fromBE bs) else (fromBE bs : Int)) = v := by
  have hk8 : 8 * k / 8 = k := by omega
  have hpos : (0 : Int) < (2 : Int) ^ (8 * k) := Int.pow_pos (by omega)
  cases signed
  · simp only [encodePackedT] at h
    split at h
    · cases h
    · split at h
      · cases h
      · rename_i h0 h1
        cases h
        rw [hk8]
        refine ⟨beBytes_length _ _, ?_, ?_⟩
        all_goals
          try simp only [Bool.false_eq_true, if_false]
          rw [fromBE_beBytes, pow256]
          have hv : v.toNat < 2 ^ (8 * k) := by
            have : (v.toNat : Int) < ((2 ^ (8 * k) : Nat) : Int) := by
              rw [int_pow_cast, Int.toNat_of_nonneg (by omega)]; omega
            exact Int.ofNat_lt.mp this
          rw [Nat.mod_eq_of_lt hv, Int.toNat_of_nonneg (by omega)]
        · rw [Int.emod_eq_of_lt (by omega) (by omega)]
  · simp only [encodePackedT] at h
    split at h
    · cases h
    · rename_i hr
      cases h
      rw [hk8]
      have hm0 : 0 ≤ v % (2 : Int) ^ (8 * k) := Int.emod_nonneg _ (by omega)
      have hm1 : v % (2 : Int) ^ (8 * k) < (2 : Int) ^ (8 * k) := Int.emod_lt_of_pos _ hpos
      have hv : (v % (2 : Int) ^ (8 * k)).toNat < 2 ^ (8 * k) := by
        have : ((v % (2 : Int) ^ (8 * k)).toNat : Int) < ((2 ^ (8 * k) : Nat) : Int) := by
          rw [int_pow_cast, Int.toNat_of_nonneg hm0]; exact hm1
        exact Int.ofNat_lt.mp this
      have hfb : (fromBE (beBytes k (v % (2 : Int) ^ (8 * k)).toNat) : Int) = v % (2 : Int) ^ (8 * k) := by
        rw [fromBE_beBytes, pow256, Nat.mod_eq_of_lt hv, Int.toNat_of_nonneg hm0]
      refine ⟨beBytes_length _ _, hfb, ?_⟩
      simp only [if_true, toSigned]
      have hhalf : (2 : Int) ^ (8 * k) = 2 * (2 : Int) ^ (8 * k - 1) := by
        have : 8 * k = (8 * k - 1) + 1 := by omega
        rw [this, Int.pow_succ]; simp; omega
      have hcast : ((2 ^ (8 * k - 1) : Nat) : Int) = (2 : Int) ^ (8 * k - 1) := int_pow_cast _
      by_cases hneg : v < 0
      · have hmod : v % (2 : Int) ^ (8 * k) = v + (2 : Int) ^ (8 * k) := by
          rw [← Int.add_emod_right, Int.emod_eq_of_lt (by omega) (by omega)]
        have hge : fromBE (beBytes k (v % (2 : Int) ^ (8 * k)).toNat) ≥ 2 ^ (8 * k - 1) := by
          have : ((2 ^ (8 * k - 1) : Nat) : Int) ≤ (fromBE (beBytes k (v % (2 : Int) ^ (8 * k)).toNat) : Int) := by
            rw [hfb, hcast, hmod]; omega
          exact Int.ofNat_le.mp this
        rw [if_pos hge, hfb, hmod]; omega
      · have hmod : v % (2 : Int) ^ (8 * k) = v := Int.emod_eq_of_lt (by omega) (by omega)
        have hlt : ¬ fromBE (beBytes k (v % (2 : Int) ^ (8 * k)).toNat) ≥ 2 ^ (8 * k - 1) := by
          intro hge
          have : ((2 ^ (8 * k - 1) : Nat) : Int) ≤ (fromBE (beBytes k (v % (2 : Int) ^ (8 * k)).toNat) : Int) :=
            Int.ofNat_le.mpr hge
          rw [hfb, hcast, hmod] at this; omega
        rw [if_neg hlt, hfb, hmod]

/-- padded encoding: 32 bytes holding `v mod 2^256`, i.e. the sign extension of the packed form -/
theorem padded_sign_extension (signed : Bool) (k : Nat) (hk : 1 ≤ k) (hk32 : k ≤ 32) (v : Int)
    (bs : List UInt8) (h : encodePaddedT v (some (signed, 8 * k)) = .ok bs) :
    bs.length = 32 ∧ (fromBE bs : Int) = v % (2 : Int) ^ 256 := by
  unfold encodePaddedT at h
  split at h
  · rename_i b hb
    obtain ⟨hlen, hval, _⟩ := packed_bytes signed k hk v b hb
    have hfits : fits signed (8 * k) v := (packed_ok_iff_fits signed (8 * k) v).mp ⟨b, hb⟩
    rw [if_neg (by omega)] at h
    have hp256 : (2 : Int) ^ 256 = (2 : Int) ^ (8 * (32 - k)) * (2 : Int) ^ (8 * k) := by
      rw [← Int.pow_add]; congr 1; omega
    have hA : (0 : Int) < (2 : Int) ^ (8 * (32 - k)) := Int.pow_pos (by omega)
    have hB : (0 : Int) < (2 : Int) ^ (8 * k) := Int.pow_pos (by omega)
    have hA1 : (1 : Int) ≤ (2 : Int) ^ (8 * (32 - k)) := hA
    split at h
    · rename_i hneg
      cases h
      refine ⟨by simp [hlen]; omega, ?_⟩
      rw [fromBE_append, fromBE_replicate_ff, hlen, pow256, pow256]
      have hsigned : signed = true := by
        cases signed
        · simp [fits] at hfits; omega
        · rfl
      subst hsigned
      simp only [fits, if_true] at hfits
      have hhalf : (2 : Int) ^ (8 * k) = 2 * (2 : Int) ^ (8 * k - 1) := by
        have : 8 * k = (8 * k - 1) + 1 := by omega
        rw [this, Int.pow_succ]; simp; omega
      have hmodk : v % (2 : Int) ^ (8 * k) = v + (2 : Int) ^ (8 * k) := by
        rw [← Int.add_emod_right, Int.emod_eq_of_lt (by omega) (by omega)]
      have hle : (2 : Int) ^ (8 * k) ≤ (2 : Int) ^ 256 := by
        rw [hp256]; have := Int.mul_le_mul_of_nonneg_right hA1 (Int.le_of_lt hB); simpa using this
      have hmod256 : v % (2 : Int) ^ 256 = v + (2 : Int) ^ 256 := by
        rw [← Int.add_emod_right, Int.emod_eq_of_lt (by omega) (by omega)]
      have hpos : 1 ≤ 2 ^ (8 * (32 - k)) := Nat.pow_pos (by omega)
      have hc1 : ((2 ^ (8 * (32 - k)) - 1 : Nat) : Int) = (2 : Int) ^ (8 * (32 - k)) - 1 := by
        rw [← int_pow_cast]; omega
      rw [hmod256, hp256, Int.natCast_add, Int.natCast_mul, hc1, int_pow_cast, hval, hmodk, Int.sub_mul]
      omega
    · rename_i hnn
      cases h
      refine ⟨by simp [hlen]; omega, ?_⟩
      rw [fromBE_append, fromBE_replicate_zero]
      simp only [Nat.zero_mul, Nat.zero_add]
      rw [hval]
      have hv0 : 0 ≤ v := by omega
      have hvlt : v < (2 : Int) ^ (8 * k) := by
        cases signed
        · simp [fits] at hfits; omega
        · simp only [fits, if_true] at hfits
          have hhalf : (2 : Int) ^ (8 * k) = 2 * (2 : Int) ^ (8 * k - 1) := by
            have : 8 * k = (8 * k - 1) + 1 := by omega
            rw [this, Int.pow_succ]; simp; omega
          have : (0 : Int) < (2 : Int) ^ (8 * k - 1) := Int.pow_pos (by omega)
          omega
      have hle : (2 : Int) ^ (8 * k) ≤ (2 : Int) ^ 256 := by
        rw [hp256]; have := Int.mul_le_mul_of_nonneg_right hA1 (Int.le_of_lt hB); simpa using this
      rw [Int.emod_eq_of_lt hv0 hvlt, Int.emod_eq_of_lt hv0 (by omega)]
  · cases h
  · cases h

/-- any string not matched by the type regex is rejected by both encoders -/
theorem bad_type_rejected (v : Int) :
    encodePackedT v none = .err "invalid-type" ∧ encodePaddedT v none = .err "invalid-type" :=
  ⟨rfl, rfl⟩

/-- no input makes either encoder panic -/
theorem never_panics (v : Int) (ty : Option (Bool × Nat)) :
    encodePackedT v ty ≠ .panic ∧ encodePaddedT v ty ≠ .panic := by
  have h1 : encodePackedT v ty ≠ .panic := by
    cases ty with
    | none => simp [encodePackedT]
    | some p =>
      obtain ⟨s, b⟩ := p
      cases s <;> simp only [encodePackedT] <;> repeat' split <;> simp
  refine ⟨h1, ?_⟩
  unfold encodePaddedT
  split
  · repeat' split <;> simp
  · simp
  · rename_i h; exact absurd h h1

/-- non-vacuity: int24 of -2 packs to 0xfffffe and pads to 29×0xff ++ 0xfffffe -/
example : encodePackedT (-2) (parseTypeChars (typeChars true 24)) = .ok [0xff, 0xff, 0xfe] := by decide

end DSV.Props.C13
