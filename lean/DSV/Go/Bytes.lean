/-!
# Fixed-width big-endian bytes (`big.Int.FillBytes`) and two's complement
-/
namespace DSV

/-- `len` big-endian bytes of `n` (low `8*len` bits) -/
def beBytes : Nat → Nat → List UInt8
  | 0, _ => []
  | len+1, n => beBytes len (n / 256) ++ [UInt8.ofNat (n % 256)]

def fromBE (bs : List UInt8) : Nat := bs.foldl (fun acc b => acc * 256 + b.toNat) 0

/-- interpret an unsigned `bits`-bit number as two's complement -/
def toSigned (bits : Nat) (u : Nat) : Int :=
  if u ≥ 2 ^ (bits - 1) then (u : Int) - (2 : Int) ^ bits else u

end DSV
