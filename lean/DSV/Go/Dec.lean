import DSV.Go.Basic
/-!
# Model of `shopspring/decimal` v1.4.0 (a dependency: modelled, validated differentially)

`value = coef * 10^exp`, `exp` an int32.  Only the operations the repository uses are modelled:
`Cmp`, `Mul`, `BigInt` (`rescale(0)`, truncating toward zero), `QuoRem`/`DivRound`,
`MarshalBinary`/`UnmarshalBinary`, `String`.

Not modelled: a `big.Int` with the sign bit set and zero magnitude ("negative zero"), which
`GobDecode` can produce from the byte `0x03`; it compares inconsistently only against other
zeros.  The correspondence generators never feed it to the model (it is exercised by the
implementation-only monitors).
-/
namespace DSV

structure Dec where
  coef : Int
  exp  : Int
  deriving DecidableEq, Repr, Inhabited

namespace Dec

def minInt32 : Int := -2147483648
def maxInt32 : Int := 2147483647
def expOk (d : Dec) : Bool := decide (minInt32 ≤ d.exp) && decide (d.exp ≤ maxInt32)

/-- coefficient of `d` at the (lower or equal) exponent `m`  -/
def coefAt (d : Dec) (m : Int) : Int := d.coef * 10 ^ (d.exp - m).toNat

/-- `d.Cmp(d2) <= 0` : both rescaled to the smaller exponent (what `RescalePair` does) -/
def le (a b : Dec) : Bool :=
  let m := min a.exp b.exp
  decide (a.coefAt m ≤ b.coefAt m)

def lt (a b : Dec) : Bool :=
  let m := min a.exp b.exp
  decide (a.coefAt m < b.coefAt m)

/-- `d.Cmp(d2)` as -1/0/1 -/
def cmp (a b : Dec) : Int := if lt a b then -1 else if lt b a then 1 else 0

def isZero (a : Dec) : Bool := a.coef == 0
def sign (a : Dec) : Int := if a.coef < 0 then -1 else if a.coef > 0 then 1 else 0
def abs (a : Dec) : Dec := ⟨a.coef.natAbs, a.exp⟩
def neg (a : Dec) : Dec := ⟨-a.coef, a.exp⟩

/-- `Decimal.Mul`: panics when the exponent sum leaves int32 -/
def mul (a b : Dec) : GoRes Dec :=
  let e := a.exp + b.exp
  if e > maxInt32 ∨ e < minInt32 then .panic else .ok ⟨a.coef * b.coef, e⟩

/-- truncated (toward zero) integer division, `big.Int.Quo` -/
def tquo (a b : Int) : Int := Int.tdiv a b
def trem (a b : Int) : Int := Int.tmod a b

/-- `Decimal.rescale(exp)` -/
def rescale (d : Dec) (e : Int) : Dec :=
  if e = d.exp then d
  else if e > d.exp then ⟨tquo d.coef (10 ^ (e - d.exp).toNat), e⟩
  else ⟨d.coef * 10 ^ (d.exp - e).toNat, e⟩

/-- `Decimal.BigInt()` -/
def bigInt (d : Dec) : Int := (d.rescale 0).coef

def add (a b : Dec) : Dec :=
  let m := min a.exp b.exp
  ⟨a.coefAt m + b.coefAt m, m⟩
def sub (a b : Dec) : Dec := add a (neg b)

/-- `Decimal.QuoRem(d2, precision)`; panics on division by zero and when the working exponent
    leaves int32 (known finding K4 lives here) -/
def quoRem (d d2 : Dec) (precision : Int) : GoRes (Dec × Dec) :=
  if d2.coef = 0 then .panic else
  let scale := -precision
  let e := d.exp - d2.exp - scale
  if e > maxInt32 ∨ e < minInt32 then .panic else
  if e < 0 then
    let aa := d.coef
    let bb := d2.coef * 10 ^ (-e).toNat
    .ok (⟨tquo aa bb, scale⟩, ⟨trem aa bb, d.exp⟩)
  else
    let aa := d.coef * 10 ^ e.toNat
    let bb := d2.coef
    .ok (⟨tquo aa bb, scale⟩, ⟨trem aa bb, scale + d2.exp⟩)

/-- `Decimal.DivRound(d2, precision)`: half away from zero at `precision` places -/
def divRound (d d2 : Dec) (precision : Int) : GoRes Dec := do
  let (q, r) ← quoRem d d2 precision
  let r2 : Dec := ⟨2 * r.coef.natAbs, r.exp + precision⟩
  if lt r2 d2.abs then pure q
  else if d.sign * d2.sign < 0 then pure (sub q ⟨1, -precision⟩)
  else pure (add q ⟨1, -precision⟩)

/-! ## binary form: 4-byte big-endian exponent ++ gob-encoded `big.Int` -/

/-- minimal big-endian bytes of a natural number (empty for 0) -/
def natBytesBE (n : Nat) : List UInt8 :=
  if _h : n = 0 then [] else natBytesBE (n / 256) ++ [UInt8.ofNat (n % 256)]
decreasing_by omega

def fromBytesBE (bs : List UInt8) : Nat := bs.foldl (fun acc b => acc * 256 + b.toNat) 0

/-- `uint32(exp)` as 4 big-endian bytes -/
def expBytes (e : Int) : List UInt8 :=
  let u := (e % 4294967296).toNat
  [UInt8.ofNat (u / 16777216), UInt8.ofNat (u / 65536 % 256), UInt8.ofNat (u / 256 % 256), UInt8.ofNat (u % 256)]

/-- `big.Int.GobEncode` : `[version(1)<<1 | sign] ++ magnitude` -/
def gobInt (c : Int) : List UInt8 :=
  (if c < 0 then (3 : UInt8) else 2) :: natBytesBE c.natAbs

def marshalBinary (d : Dec) : List UInt8 := expBytes d.exp ++ gobInt d.coef

/-- `Decimal.UnmarshalBinary`.  `none` = error.  A set sign bit with empty magnitude
    (negative zero) is outside the model and reported as `none` by the *driver* guard, not here:
    here it decodes to 0 like `big.Int.Sign()` sees it. -/
def unmarshalBinary (bs : List UInt8) : Option Dec :=
  match bs with
  | e0 :: e1 :: e2 :: e3 :: rest =>
    let u : Nat := e0.toNat * 16777216 + e1.toNat * 65536 + e2.toNat * 256 + e3.toNat
    let e : Int := if u ≥ 2147483648 then (u : Int) - 4294967296 else u
    match rest with
    | [] => some ⟨0, e⟩
    | b :: mag =>
      if b / 2 != 1 then none
      else
        let m : Int := fromBytesBE mag
        some ⟨if b % 2 == 1 then -m else m, e⟩
  | _ => none

/-! ## text form (`Decimal.String()`) -/

def digitsOfNat (n : Nat) : String := toString n

/-- `Decimal.string(true)` -/
def toStr (d : Dec) : String :=
  if d.exp ≥ 0 then toString (d.rescale 0).coef
  else
    let str : List Char := (digitsOfNat d.coef.natAbs).toList
    let k := (-d.exp).toNat
    let (ip, fp) : List Char × List Char :=
      if str.length > k then (str.take (str.length - k), str.drop (str.length - k))
      else (['0'], List.replicate (k - str.length) '0' ++ str)
    let fpTrim := (fp.reverse.dropWhile (· == '0')).reverse
    let number := if fpTrim.length > 0 then ip ++ ['.'] ++ fpTrim else ip
    String.ofList (if d.coef < 0 then '-' :: number else number)

end Dec
end DSV
