/-!
# Go semantics shared by all models

* `GoRes α` : result of a Go call — a value, an error (only a small class string is modelled,
  never the message), or a panic.
* `GoMap κ ν` : a Go map as an entry list with distinct keys.  Iteration order of a
  `for k, v := range m` is *not* a function of the map in Go; wherever a model ranges over a map
  it does so through an explicit permutation argument (`Sched`), and theorems quantify over it.
-/
namespace DSV

inductive GoRes (α : Type) where
  | ok (a : α)
  | err (cls : String)
  | panic
  deriving Repr, DecidableEq

namespace GoRes
@[inline] def bind {α β} (x : GoRes α) (f : α → GoRes β) : GoRes β :=
  match x with
  | ok a => f a
  | err c => err c
  | panic => panic

instance : Monad GoRes where
  pure := ok
  bind := bind

def isOk {α} : GoRes α → Bool | ok _ => true | _ => false
def isErr {α} : GoRes α → Bool | err _ => true | _ => false
def isPanic {α} : GoRes α → Bool | panic => true | _ => false
def toOption {α} : GoRes α → Option α | ok a => some a | _ => none

@[simp] theorem bind_ok {α β} (a : α) (f : α → GoRes β) : (ok a >>= f) = f a := rfl
@[simp] theorem bind_err {α β} (c : String) (f : α → GoRes β) : ((err c : GoRes α) >>= f) = err c := rfl
@[simp] theorem bind_panic {α β} (f : α → GoRes β) : ((panic : GoRes α) >>= f) = panic := rfl
@[simp] theorem pure_eq {α} (a : α) : (pure a : GoRes α) = ok a := rfl
end GoRes

/-- Go map = entry list; well-formed when keys are distinct. -/
abbrev GoMap (κ ν : Type) := List (κ × ν)

namespace GoMap
variable {κ ν : Type} [DecidableEq κ]

def get? (m : GoMap κ ν) (k : κ) : Option ν := (m.find? (fun e => e.1 == k)).map (·.2)
def contains (m : GoMap κ ν) (k : κ) : Bool := m.any (fun e => e.1 == k)
def erase (m : GoMap κ ν) (k : κ) : GoMap κ ν := m.filter (fun e => e.1 != k)
/-- `m[k] = v` : overwrite in place if present, else append. -/
def set (m : GoMap κ ν) (k : κ) (v : ν) : GoMap κ ν :=
  if m.contains k then m.map (fun e => if e.1 == k then (k, v) else e) else m ++ [(k, v)]
def keys (m : GoMap κ ν) : List κ := m.map (·.1)
def WF (m : GoMap κ ν) : Prop := m.keys.Nodup
/-- build from an entry list with Go semantics (later entries overwrite earlier ones) -/
def ofList (l : List (κ × ν)) : GoMap κ ν := l.foldl (fun m e => m.set e.1 e.2) []
end GoMap

/-- comparison operators as extracted from Go source by the fact extractor -/
inductive CmpOp | lt | le | gt | ge | eq | ne
  deriving Repr, DecidableEq

def CmpOp.evalNat : CmpOp → Nat → Nat → Bool
  | .lt, a, b => a < b | .le, a, b => a ≤ b | .gt, a, b => a > b
  | .ge, a, b => a ≥ b | .eq, a, b => a == b | .ne, a, b => a != b

/-- insertion into a list sorted by `le` (stable: goes after equal elements) -/
def insertSorted {α} (le : α → α → Bool) (a : α) : List α → List α
  | [] => [a]
  | b :: bs => if le b a then b :: insertSorted le a bs else a :: b :: bs

end DSV
