import DSV.Go.Dec
/-!
# `decimal.NewFromString` (shopspring/decimal v1.4.0) — the parser behind `UnmarshalText`

Modelled on ASCII character lists: optional exponent part after the first `E`/`e`
(`strconv.ParseInt(…, 10, 32)`), at most one `.`, the remaining characters with the `.` removed
parsed as a signed integer (`strconv.ParseInt` for ≤ 18 characters, `big.Int.SetString`
otherwise — both accept an optional `+`/`-` followed by at least one decimal digit), final
exponent checked against the `int32` range.  `none` = error.

Left out: non-ASCII input (Go works on bytes; the model on characters — lengths only matter when
the parse succeeds, and then every character is ASCII).
-/
namespace DSV.LLO
open DSV

/-- optional sign followed by at least one decimal digit -/
def parseSignedDigits (cs : List Char) : Option Int :=
  let go (neg : Bool) (ds : List Char) : Option Int :=
    if ds.isEmpty then none
    else if ds.all Char.isDigit then
      let n : Int := (Nat.ofDigitChars 10 ds 0 : Nat)
      some (if neg then -n else n)
    else none
  match cs with
  | '-' :: r => go true r
  | '+' :: r => go false r
  | r => go false r

/-- split at the first `E` or `e` (`strings.IndexAny(value, "Ee")`) -/
def splitExp : List Char → List Char × Option (List Char)
  | [] => ([], none)
  | c :: cs =>
    if c = 'E' ∨ c = 'e' then ([], some cs)
    else
      let (m, e) := splitExp cs
      (c :: m, e)

/-- split at the first `.`: (before, after) or `none` when there is no `.` -/
def splitDot : List Char → Option (List Char × List Char)
  | [] => none
  | c :: cs =>
    if c = '.' then some ([], cs)
    else (splitDot cs).map (fun p => (c :: p.1, p.2))

/-- `decimal.NewFromString` -/
def parseDec (s : List Char) : Option Dec :=
  let (value, expStr) := splitExp s
  let exp0 : Option Int :=
    match expStr with
    | none => some 0
    | some es =>
      match parseSignedDigits es with
      | none => none
      | some e => if e < Dec.minInt32 ∨ e > Dec.maxInt32 then none else some e
  match exp0 with
  | none => none
  | some e0 =>
    if value.count '.' > 1 then none
    else
      let (intString, fracLen) : List Char × Nat :=
        match splitDot value with
        | none => (value, 0)
        | some (ip, fp) => (ip ++ fp, fp.length)
      match parseSignedDigits intString with
      | none => none
      | some coef =>
        let e : Int := e0 - fracLen
        if e < Dec.minInt32 ∨ e > Dec.maxInt32 then none else some ⟨coef, e⟩

end DSV.LLO
