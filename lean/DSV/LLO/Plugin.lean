import DSV.LLO.Types
import DSV.LLO.Aggregators
/-!
# `llo/plugin_outcome.go`, `plugin_reports.go`, `plugin_observation.go`, `channel_definitions.go`

Transcription of the OCR3 callbacks at the level of decoded values.  Every `for … range m` over a
Go map goes through a field of `Sched` (an arbitrary permutation of the entries), so the model
exposes any dependence on map iteration order; theorems quantify over all schedules.

External collaborators are parameters (`Env`): the predecessor retirement-report cache
(`check`), the channel hash (`hashOf`, SHA-256 in the driver), the report codecs' `Verify`
(`verifyDef`), the set of configured report formats.
-/
namespace DSV.LLO
open DSV

structure Cfg where
  f : Nat
  version : Nat          -- OffchainConfig.ProtocolVersion
  minInterval : Nat      -- OffchainConfig.DefaultMinReportIntervalNanoseconds
  hasPred : Bool         -- PredecessorConfigDigest != nil
  deriving Repr, DecidableEq

/-- `OffchainConfig.Validate` -/
def Cfg.valid (c : Cfg) : Bool :=
  (c.version == 0 && c.minInterval == 0) || (c.version == 1 && c.minInterval != 0)

abbrev Hash := List UInt8

structure Env where
  /-- `PredecessorRetirementReportCache.CheckAttestedRetirementReport` (error = `none`) -/
  check : List UInt8 → Option RetirementReport
  /-- `MakeChannelHash` -/
  hashOf : Nat → ChanDef → Hash
  /-- `codec.Verify(cd)` of the codec configured for the definition's format (true = nil error,
      also when no codec is configured for the format) -/
  verifyDef : ChanDef → Bool
  /-- `MaxOutcomeChannelDefinitionsLength` -/
  maxChannels : Nat := 2000
  maxStreamsPerChannel : Nat := 10000
  maxStreamValues : Nat := 10000
  maxRemove : Nat := 5
  maxUpdate : Nat := 5

/-- iteration orders of the Go map ranges in `outcome()` / `ReportableChannels` -/
structure Sched where
  rmVotes : List (Nat × Nat) → List (Nat × Nat) := id
  updDefs : List (Hash × (Nat × ChanDef)) → List (Hash × (Nat × ChanDef)) := id
  prevVA  : List (Nat × Nat) → List (Nat × Nat) := id
  defsVA  : List (Nat × ChanDef) → List (Nat × ChanDef) := id
  defsAgg : List (Nat × ChanDef) → List (Nat × ChanDef) := id
  defsRep : List (Nat × ChanDef) → List (Nat × ChanDef) := id

def Sched.IsSched (σ : Sched) : Prop :=
  (∀ l, (σ.rmVotes l).Perm l) ∧ (∀ l, (σ.updDefs l).Perm l) ∧ (∀ l, (σ.prevVA l).Perm l) ∧
  (∀ l, (σ.defsVA l).Perm l) ∧ (∀ l, (σ.defsAgg l).Perm l) ∧ (∀ l, (σ.defsRep l).Perm l)

/-! ## IsReportable -/

inductive Unreportable | retired | noDef | noVA | tooSoon | sameSecond
  deriving DecidableEq, Repr

/-- `IsSecondsResolution` -/
def isSecondsResolution (format : Nat) : Bool :=
  format == fmtEVMPremiumLegacy || format == fmtEVMABIEncodeUnpacked

/-- `Outcome.IsReportable` (`none` = reportable).  The interval test is the overflow-free one. -/
def isReportable (o : Outcome) (cid : Nat) (version minInterval : Nat) : Option Unreportable :=
  if o.stage == stageRetired then some .retired else
  match o.defs.get? cid with
  | none => some .noDef
  | some cd =>
    match o.va.get? cid with
    | none => some .noVA
    | some va =>
      if version > 0 ∧ (o.ts < va ∨ o.ts - va < minInterval) then some .tooSoon
      else if (version == 0 || isSecondsResolution cd.format) ∧ va / 1000000000 ≥ o.ts / 1000000000 then
        some .sameSecond
      else none

/-! ## decodeObservations -/

structure Tally where
  tss : List Nat := []
  validRR : Option RetirementReport := none
  retireVotes : Nat := 0
  rmVotes : GoMap Nat Nat := []
  updDefs : GoMap Hash (Nat × ChanDef) := []
  updVotes : GoMap Hash Nat := []
  streamObs : GoMap Nat (List (Option SV)) := []

def incr {κ} [DecidableEq κ] (m : GoMap κ Nat) (k : κ) : GoMap κ Nat := m.set k ((m.get? k).getD 0 + 1)

/-- the update-vote loop of one observation -/
def addUpdates (env : Env) (t : Tally) (updates : GoMap Nat ChanDef) : Tally :=
  updates.foldl (fun (t : Tally) e =>
    let h := env.hashOf e.1 e.2
    { t with updVotes := incr t.updVotes h, updDefs := t.updDefs.set h (e.1, e.2) }) t

/-- the part of the loop body after the attestation check: count this observation -/
def tallyAdd (env : Env) (t : Tally) (o : Obs) : Tally :=
  let t := if o.shouldRetire then { t with retireVotes := t.retireVotes + 1 } else t
  let t := { t with tss := t.tss ++ [o.ts] }
  let t := { t with rmVotes := o.removes.foldl incr t.rmVotes }
  let t := addUpdates env t o.updates
  { t with streamObs := o.values.foldl (fun m e => m.set e.1 ((m.get? e.1).getD [] ++ [some e.2])) t.streamObs }

/-- one iteration of the loop in `decodeObservations` for a successfully decoded observation -/
def tallyStep (env : Env) (cfg : Cfg) (t : Tally) (o : Obs) : GoRes Tally :=
  -- attestation: a single valid retirement report is enough
  if o.attested.length != 0 && t.validRR.isNone then
    if !cfg.hasPred then .panic     -- `*p.PredecessorConfigDigest` with a nil pointer
    else match env.check o.attested with
      | none => .ok t               -- invalid attestation: whole observation ignored
      | some rr => .ok (tallyAdd env { t with validRR := some rr } o)
  else .ok (tallyAdd env t o)

def tally (env : Env) (cfg : Cfg) (obs : List Obs) : GoRes Tally :=
  obs.foldl (fun acc o => acc.bind (fun t => tallyStep env cfg t o)) (.ok {})

/-- `medianTimestamp` -/
def medianTimestamp (tss : List Nat) : Nat := medianOf (fun a b => decide (a ≤ b)) tss

/-! ## outcome() sections -/

/-- removal loop: returns (removedChannelIDs, definitions after deletion) -/
def applyRemovals (cfg : Cfg) (votes : List (Nat × Nat)) (defs : GoMap Nat ChanDef) :
    List Nat × GoMap Nat ChanDef :=
  votes.foldl (fun (acc : List Nat × GoMap Nat ChanDef) e =>
    if e.2 ≤ cfg.f then acc else (acc.1 ++ [e.1], acc.2.erase e.1)) ([], defs)

/-- order of the update candidates: channel id ascending, then channel hash ascending -/
def candLe (a b : Hash × (Nat × ChanDef)) : Bool :=
  a.2.1 < b.2.1 || (a.2.1 == b.2.1 && bytesLe a.1 b.1)

/-- addition/replacement loop over the sorted candidates -/
def applyUpdates (env : Env) (cfg : Cfg) (updVotes : GoMap Hash Nat)
    (cands : List (Hash × (Nat × ChanDef))) (defs : GoMap Nat ChanDef) : GoMap Nat ChanDef :=
  cands.foldl (fun defs c =>
    if (updVotes.get? c.1).getD 0 ≤ cfg.f then defs
    else if defs.contains c.2.1 then defs.set c.2.1 c.2.2
    else if defs.length ≥ env.maxChannels then defs
    else defs.set c.2.1 c.2.2) defs

/-- the `ValidAfterNanoseconds` section when no promotion happened -/
def carryValidAfter (cfg : Cfg) (prev : Outcome) (entries : List (Nat × Nat)) : GoMap Nat Nat :=
  entries.foldl (fun m e =>
    match isReportable prev e.1 cfg.version cfg.minInterval with
    | some _ => m.set e.1 e.2
    | none => m.set e.1 prev.ts) []

def fillValidAfter (ts : Nat) (defs : List (Nat × ChanDef)) (va : GoMap Nat Nat) : GoMap Nat Nat :=
  defs.foldl (fun m e => if m.contains e.1 then m else m.set e.1 ts) va

/-- handling of one (stream, aggregator) pair in the `StreamAggregates` section.
    `.err` = `return nil, err` (no aggregator function defined). -/
def aggregateOne (cfg : Cfg) (prev : Outcome) (streamObs : GoMap Nat (List (Option SV)))
    (aggs : GoMap (Nat × Nat) SV) (sid agg : Nat) : GoRes (GoMap (Nat × Nat) SV) :=
  if aggs.contains (sid, agg) then .ok aggs else
  -- copy previous result if it is a TimestampedStreamValue
  let aggs := match prev.aggs.get? (sid, agg) with
    | some (.tsv t v) => aggs.set (sid, agg) (.tsv t v)
    | _ => aggs
  match aggregate agg ((streamObs.get? sid).getD []) cfg.f with
  | none => .err "no-aggregator"
  | some res =>
    match res with
    | .ok (some (.tsv t v)) =>
      match aggs.get? (sid, agg) with
      | some (.tsv pt _) => if t ≤ pt then .ok aggs else .ok (aggs.set (sid, agg) (.tsv t v))
      | _ => .ok (aggs.set (sid, agg) (.tsv t v))
    | .ok (some v) => .ok (aggs.set (sid, agg) v)
    | .ok none => .ok aggs    -- `m[agg] = nil`: unreachable (mode never returns nil without error)
    | .err _ => .ok aggs      -- aggregation failed: keep what was copied (if anything)
    | .panic => .panic

/-- the nested loops `for _, cd := range defs { for _, strm := range cd.Streams {…} }` visit the
    streams of all definitions in order: a fold over the flattened stream list -/
def aggregateAll (cfg : Cfg) (prev : Outcome) (streamObs : GoMap Nat (List (Option SV)))
    (defs : List (Nat × ChanDef)) : GoRes (GoMap (Nat × Nat) SV) :=
  (defs.flatMap (·.2.streams)).foldl
    (fun acc s => acc.bind fun aggs => aggregateOne cfg prev streamObs aggs s.sid s.agg) (.ok [])

/-- promotion: previous stage is staging and some observation carried a verified attestation -/
def promotedBy (prev : Outcome) (t : Tally) : Bool := prev.stage == stageStaging && t.validRR.isSome

/-- the `LifeCycleStage` section -/
def stageOf (cfg : Cfg) (prev : Outcome) (t : Tally) : String :=
  let stage0 := if promotedBy prev t then stageProduction else prev.stage
  if stage0 == stageProduction && t.retireVotes > cfg.f then stageRetired else stage0

/-- removal loop of the `ChannelDefinitions` section (votes discarded when retired) -/
def removalsOf (cfg : Cfg) (σ : Sched) (stage : String) (prev : Outcome) (t : Tally) : List Nat × GoMap Nat ChanDef :=
  applyRemovals cfg (σ.rmVotes (if stage == stageRetired then [] else t.rmVotes)) prev.defs

/-- the `ChannelDefinitions` section -/
def defsOf (env : Env) (cfg : Cfg) (σ : Sched) (stage : String) (prev : Outcome) (t : Tally) : GoMap Nat ChanDef :=
  applyUpdates env cfg t.updVotes
    ((σ.updDefs (if stage == stageRetired then [] else t.updDefs)).mergeSort candLe)
    (removalsOf cfg σ stage prev t).2

/-- the `ValidAfterNanoseconds` section.  On promotion the retirement report's map is adopted; a
    nil map (no entries: what decoding a retirement report without entries yields) falls through
    to the carry-forward branch. -/
def va0Of (cfg : Cfg) (σ : Sched) (prev : Outcome) (t : Tally) : GoMap Nat Nat :=
  match (if promotedBy prev t then t.validRR else none) with
  | some rr => if rr.va.isEmpty then carryValidAfter cfg prev (σ.prevVA prev.va) else rr.va
  | none => carryValidAfter cfg prev (σ.prevVA prev.va)

def vaOf (cfg : Cfg) (σ : Sched) (prev : Outcome) (t : Tally) (ts : Nat) (defs : GoMap Nat ChanDef)
    (removed : List Nat) : GoMap Nat Nat :=
  let va1 := fillValidAfter ts (σ.defsVA defs) (va0Of cfg σ prev t)
  removed.foldl (fun m id => m.erase id) va1

/-- `Plugin.outcome` for `SeqNr > 1`, on the decoded previous outcome and the decoded
    observations (observations that fail to decode are simply absent from `obs`; `nAos` is the
    length of the attributed-observation list including those). -/
def outcome (env : Env) (cfg : Cfg) (σ : Sched) (nAos : Nat) (prev : Outcome) (obs : List Obs) :
    GoRes Outcome :=
  if nAos < 2 * cfg.f + 1 then .err "too-few-observations" else
  (tally env cfg obs).bind fun t =>
  if t.tss.length == 0 then .err "no-valid-observations" else
  let ts := medianTimestamp t.tss
  let stage := stageOf cfg prev t
  let defs := defsOf env cfg σ stage prev t
  let va := vaOf cfg σ prev t ts defs (removalsOf cfg σ stage prev t).1
  (aggregateAll cfg prev t.streamObs (σ.defsAgg defs)).bind fun aggs =>
  .ok { stage := stage, ts := ts, defs := defs, va := va, aggs := aggs }

/-- the initial outcome (`SeqNr <= 1`) -/
def initialOutcome (cfg : Cfg) : Outcome :=
  { stage := if cfg.hasPred then stageStaging else stageProduction, ts := 0, defs := [], va := [], aggs := [] }

/-! ## outcome codec round trip between rounds (what `Encode` then `Decode` does to an outcome) -/

/-- encode with the configured codec, then decode: v0 keeps validity starts to whole seconds and
    rejects seconds above 2^32−1 and timestamps above 2^63−1; v1 is the identity.  Map entries are
    returned sorted by key (as they sit in the message). -/
def codecRoundTrip (cfg : Cfg) (o : Outcome) : GoRes Outcome :=
  let sortK {ν} (m : GoMap Nat ν) : GoMap Nat ν := m.mergeSort (fun a b => decide (a.1 ≤ b.1))
  let aggs := o.aggs.mergeSort (fun a b => decide (a.1.1 < b.1.1 ∨ (a.1.1 = b.1.1 ∧ a.1.2 ≤ b.1.2)))
  if cfg.version == 0 then
    if o.va.any (fun e => e.2 / 1000000000 > 4294967295) then .err "encode"
    else if o.ts > 9223372036854775807 then .err "encode"
    else .ok { o with defs := sortK o.defs, aggs := aggs,
                      va := sortK (o.va.map fun e => (e.1, e.2 / 1000000000 * 1000000000)) }
  else .ok { o with defs := sortK o.defs, va := sortK o.va, aggs := aggs }

/-! ## reports() -/

inductive ReportOut where
  | retirement (rr : RetirementReport)
  | channel (r : Report) (format : Nat) (stage : String)
  deriving Repr, DecidableEq

/-- the id of a definition entry if the channel is reportable -/
def reportableId (cfg : Cfg) (o : Outcome) (e : Nat × ChanDef) : Option Nat :=
  match isReportable o e.1 cfg.version cfg.minInterval with
  | none => some e.1
  | some _ => none

/-- `Outcome.ReportableChannels` (reportable ids, ascending) -/
def reportableChannels (σ : Sched) (cfg : Cfg) (o : Outcome) : List Nat :=
  ((σ.defsRep o.defs).filterMap (reportableId cfg o)).mergeSort (fun a b => decide (a ≤ b))

/-- the report built for one reportable channel (`none` when the codec is missing or fails) -/
def channelReport (cfg : Cfg) (encodes : Report → Nat → Bool) (seqNr : Nat) (o : Outcome) (cid : Nat) : Option ReportOut :=
  match o.defs.get? cid with
  | none => none
  | some cd =>
    let values := cd.streams.map fun s => o.aggs.get? (s.sid, s.agg)
    let r : Report := { seqNr := seqNr, channelID := cid, validAfter := (o.va.get? cid).getD 0,
                        obsTs := o.ts, values := values, specimen := o.stage != stageProduction }
    if encodes r cd.format then some (.channel r cd.format o.stage) else none

/-- `Plugin.reports` on the decoded outcome.  `encodes r format` says whether the report codec for
    `format` exists and its `Encode` succeeds (a failing codec just skips the report). -/
def reports (cfg : Cfg) (σ : Sched) (encodes : Report → Nat → Bool) (seqNr : Nat) (o : Outcome) :
    List ReportOut :=
  if seqNr ≤ 1 then [] else
  let retire : List ReportOut :=
    if o.stage == stageRetired then [.retirement { version := cfg.version, va := o.va }] else []
  retire ++ (reportableChannels σ cfg o).filterMap (channelReport cfg encodes seqNr o)

/-! ## VerifyChannelDefinitions, observation() votes -/

/-- `VerifyChannelDefinitions(codecs, defs)` (true = nil error) -/
def verifyChannelDefinitions (env : Env) (defs : GoMap Nat ChanDef) : Bool :=
  if defs.length > env.maxChannels then false else
  let perDef := defs.all fun e =>
    e.2.streams.length != 0 && e.2.streams.length ≤ env.maxStreamsPerChannel &&
    e.2.streams.all (fun s => s.agg != 0) && env.verifyDef e.2
  if !perDef then false else
  let sids := (defs.flatMap fun e => e.2.streams.map (·.sid)).eraseDups
  sids.length ≤ env.maxStreamValues

/-- a stream value `ValidateObservation` accepts: a timestamped value wraps a decimal -/
def svAcceptable : SV → Bool
  | .tsv _ (.dec _) => true
  | .tsv _ _ => false
  | _ => true

/-- `Plugin.ValidateObservation` on a decoded observation (`none` = accepted, `some cls` = rejected).
    `emptyBytes` says whether the raw observation was the empty byte string (required for SeqNr 1);
    a decode failure is reported by the caller before this function is reached. -/
def validateObservation (env : Env) (cfg : Cfg) (seqNr : Nat) (emptyBytes : Bool) (o : Obs) : Option String :=
  if seqNr < 1 then some "invalid-seqnr"
  else if seqNr == 1 && !emptyBytes then some "non-empty-first-round"
  else if !cfg.hasPred && o.attested.length != 0 then some "attestation-without-predecessor"
  else if o.updates.length > env.maxUpdate then some "too-many-updates"
  else if o.removes.length > env.maxRemove then some "too-many-removes"
  else if !verifyChannelDefinitions env o.updates then some "invalid-definitions"
  else if o.values.length > env.maxStreamValues then some "too-many-values"
  else if o.values.any (fun e => !svAcceptable e.2) then some "nested-not-decimal"
  else none

/-- `ChannelDefinition.Equals` -/
def ChanDef.equals (a b : ChanDef) : Bool := a.format == b.format && a.streams == b.streams && a.opts == b.opts

/-- the channel votes of `observation()`: removals = first `maxRemove` ids (ascending) defined in the
    previous outcome but not expected; updates = first `maxUpdate` expected ids (ascending) that are
    missing or differ.  `none` = the node refuses to observe (previous definitions invalid).
    Expected definitions that fail verification produce no votes at all. -/
def observationVotes (env : Env) (prev : Outcome) (expected : GoMap Nat ChanDef) :
    Option (List Nat × GoMap Nat ChanDef) :=
  if prev.stage == stageRetired then some ([], []) else
  if !verifyChannelDefinitions env prev.defs then none else
  if !verifyChannelDefinitions env expected then some ([], []) else
  let sortK {ν} (m : GoMap Nat ν) : GoMap Nat ν := m.mergeSort (fun a b => decide (a.1 ≤ b.1))
  let removes := ((sortK prev.defs).filter (fun e => !expected.contains e.1)).map (·.1) |>.take env.maxRemove
  let updates := ((sortK expected).filter fun e =>
    match prev.defs.get? e.1 with
    | some p => !p.equals e.2
    | none => true).take env.maxUpdate
  some (removes, updates)

end DSV.LLO
