import DSV.LLO.TextSV
/-!
# `JSONReportCodec` at struct level (`llo/json_report_codec.go`)

`encoding/json` is trusted for the struct ↔ bytes step: `JsonMsg` / `PackedMsg` are the local
`encode`/`decode`/`packed` structs.  What is modelled is the code around it: the typed text
envelope of every value, the hexadecimal config digest (`ConfigDigest.MarshalText` prints 64
lower-case hex digits, `hex.DecodeString` + `BytesToConfigDigest` read them back), the `SeqNr == 0`
check.
-/
namespace DSV.LLO
open DSV

def errMissingSeqNr : String := "missing-seqnr"
def errBadDigest : String := "bad-digest"

/-! ## hex -/

def hexDigitChar (n : Nat) : Char := if n < 10 then Char.ofNat (48 + n) else Char.ofNat (87 + n)

/-- `fmt.Sprintf("%x", bytes)` -/
def hexEncode : List UInt8 → List Char
  | [] => []
  | b :: bs => hexDigitChar (b.toNat / 16) :: hexDigitChar (b.toNat % 16) :: hexEncode bs

/-- `encoding/hex.fromHexChar` -/
def hexCharVal (c : Char) : Option Nat :=
  if '0' ≤ c ∧ c ≤ '9' then some (c.toNat - 48)
  else if 'a' ≤ c ∧ c ≤ 'f' then some (c.toNat - 87)
  else if 'A' ≤ c ∧ c ≤ 'F' then some (c.toNat - 55)
  else none

/-- `hex.DecodeString` (`none` = any error) -/
def hexDecode : List Char → Option (List UInt8)
  | [] => some []
  | [_] => none
  | a :: b :: rest =>
    match hexCharVal a, hexCharVal b, hexDecode rest with
    | some x, some y, some r => some (UInt8.ofNat (x * 16 + y) :: r)
    | _, _, _ => none

/-- `hex.DecodeString` followed by `BytesToConfigDigest` -/
def digestFromHex (s : List Char) : GoRes (List UInt8) :=
  match hexDecode s with
  | none => .err errBadDigest
  | some bs => if bs.length ≠ 32 then .err errBadDigest else .ok bs

/-! ## Encode / Decode -/

/-- the local structs `encode` / `decode` of `JSONReportCodec` (same JSON shape; `ConfigDigest`
    is printed through `MarshalText`, read as a string) -/
structure JsonMsg where
  configDigest : List Char
  seqNr        : Nat
  channelID    : Nat
  validAfter   : Nat
  obsTs        : Nat
  values       : List (Int × List Char)
  specimen     : Bool
  deriving DecidableEq, Repr, Inhabited

def errNilValueJson : String := "nil-value"

/-- the value loop of `Encode` (`NewTypedTextStreamValue`) -/
def jsonEncodeValues : List (Option SV) → GoRes (List (Int × List Char))
  | [] => .ok []
  | none :: _ => .err errNilValueJson
  | some v :: rest =>
    match jsonEncodeValues rest with
    | .ok l => .ok ((Int.ofNat v.type, textSV v) :: l)
    | .err c => .err c
    | .panic => .panic

/-- `JSONReportCodec.Encode` up to `json.Marshal`; `digest` is `r.ConfigDigest` -/
def jsonEncode (digest : List UInt8) (r : Report) : GoRes JsonMsg :=
  match jsonEncodeValues r.values with
  | .err c => .err c
  | .panic => .panic
  | .ok vs =>
    .ok { configDigest := hexEncode digest, seqNr := r.seqNr, channelID := r.channelID,
          validAfter := r.validAfter, obsTs := r.obsTs, values := vs, specimen := r.specimen }

/-- the value loop of `Decode` -/
def jsonDecodeValues : List (Int × List Char) → GoRes (List (Option SV))
  | [] => .ok []
  | (t, s) :: rest =>
    match untextSV s.length t s with
    | .err c => .err c
    | .panic => .panic
    | .ok v =>
      match jsonDecodeValues rest with
      | .ok l => .ok (some v :: l)
      | .err c => .err c
      | .panic => .panic

/-- `JSONReportCodec.Decode` after `json.Unmarshal` : (config digest, report) -/
def jsonDecode (m : JsonMsg) : GoRes (List UInt8 × Report) :=
  if m.seqNr = 0 then .err errMissingSeqNr
  else
    match digestFromHex m.configDigest with
    | .err c => .err c
    | .panic => .panic
    | .ok cd =>
      match jsonDecodeValues m.values with
      | .err c => .err c
      | .panic => .panic
      | .ok vs =>
        .ok (cd, { seqNr := m.seqNr, channelID := m.channelID, validAfter := m.validAfter,
                   obsTs := m.obsTs, values := vs, specimen := m.specimen })

/-! ## Pack / Unpack -/

/-- the local struct `packed`; a signature is (`Signature` bytes, `Signer` uint8) -/
structure PackedMsg where
  configDigest : List Char
  seqNr  : Nat
  report : List UInt8
  sigs   : List (List UInt8 × Nat)
  deriving DecidableEq, Repr, Inhabited

/-- `JSONReportCodec.Pack` up to `json.Marshal`.  `report` must be compact valid JSON (as produced
    by `Encode`): `json.Marshal` re-validates and compacts a `json.RawMessage`. -/
def jsonPack (digest : List UInt8) (seqNr : Nat) (report : List UInt8) (sigs : List (List UInt8 × Nat)) : PackedMsg :=
  ⟨hexEncode digest, seqNr, report, sigs⟩

/-- `JSONReportCodec.Unpack` after `json.Unmarshal` -/
def jsonUnpack (m : PackedMsg) : GoRes (List UInt8 × Nat × List UInt8 × List (List UInt8 × Nat)) :=
  match digestFromHex m.configDigest with
  | .err c => .err c
  | .panic => .panic
  | .ok cd => .ok (cd, m.seqNr, m.report, m.sigs)

end DSV.LLO
