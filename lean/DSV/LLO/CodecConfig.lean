import DSV.LLO.Types
import DSV.LLO.CodecBigEndian
/-!
# LLO configuration codecs
* `llo/offchain_config.go` : `DecodeOffchainConfig`, `Validate` (message level)
* `llo/onchain_config_codec.go` : `EVMOnchainConfigCodec` (byte level, two 32-byte EVM words)
* `llo/retirement_report_codec.go` : `StandardRetirementReportCodec` (struct level; `encoding/json` trusted)
-/
namespace DSV.LLO
open DSV

/-! ## off-chain config -/

/-- `llo.OffchainConfig` and, with the same fields, `LLOOffchainConfigProto` -/
structure OffchainCfg where
  version  : Nat
  interval : Nat
  deriving DecidableEq, Repr, Inhabited

def errUnknownVersion : String := "unknown-version"
def errBadInterval : String := "bad-interval"

/-- `OffchainConfig.Validate` -/
def OffchainCfg.validate (c : OffchainCfg) : GoRes Unit :=
  if c.version = 0 then (if c.interval ≠ 0 then .err errBadInterval else .ok ())
  else if c.version = 1 then (if c.interval = 0 then .err errBadInterval else .ok ())
  else .err errUnknownVersion

/-- the property's notion of a valid configuration -/
def OffchainCfg.valid (c : OffchainCfg) : Bool :=
  (c.version == 0 && c.interval == 0) || (c.version == 1 && c.interval ≥ 1)

/-- `DecodeOffchainConfig` after `proto.Unmarshal`; `none` = the bytes are not a protobuf message
    (the documented HACK returns the zero config without an error) -/
def decodeOffchain (pbuf : Option OffchainCfg) : GoRes OffchainCfg :=
  match pbuf with
  | none => .ok ⟨0, 0⟩
  | some p =>
    let o : OffchainCfg := ⟨p.version, p.interval⟩
    match o.validate with
    | .ok _ => .ok o
    | .err c => .err c
    | .panic => .panic

/-- `OffchainConfig.Encode` up to `proto.Marshal` -/
def encodeOffchain (c : OffchainCfg) : OffchainCfg := ⟨c.version, c.interval⟩

/-! ## on-chain config -/

/-- `llo.OnchainConfig`; the digest is a `*[32]byte` -/
structure OnchainCfg where
  version : Nat
  pred    : Option (List UInt8)
  deriving DecidableEq, Repr, Inhabited

def onchainConfigVersion : Nat := 1
def onchainConfigEncodedLength : Nat := 64
def errBadVersion : String := "bad-version"

/-- `EVMOnchainConfigCodec.Decode` -/
def decodeOnchain (b : List UInt8) : GoRes OnchainCfg :=
  if b.length ≠ onchainConfigEncodedLength then .err errBadLength
  else
    match deserializeSigned 32 (b.take 32) with
    | .err c => .err c
    | .panic => .panic
    | .ok v =>
      if v ≠ (onchainConfigVersion : Int) then .err errBadVersion
      else if v.toNat > 255 then .err errBadVersion
      else
        let cd := (b.drop 32).take 32
        .ok { version := v.toNat, pred := if cd = List.replicate 32 0 then none else some cd }

/-- `EVMOnchainConfigCodec.Encode` -/
def encodeOnchain (c : OnchainCfg) : GoRes (List UInt8) :=
  if c.version ≠ onchainConfigVersion then .err errBadVersion
  else
    match serializeSigned 32 (onchainConfigVersion : Int) with
    | .err e => .err e
    | .panic => .panic
    | .ok verBytes =>
      let cdBytes : List UInt8 :=
        match c.pred with
        | none => List.replicate 32 0
        | some d => (d ++ List.replicate 32 0).take 32
      .ok (verBytes ++ cdBytes)

/-! ## retirement report (JSON; struct level) -/

/-- the JSON object `{"ProtocolVersion":…,"ValidAfterNanoseconds":{…}}` as `encoding/json` sees it:
    an object's members are an entry list, later duplicates overwrite earlier ones on decode -/
structure RetirementMsg where
  version : Nat
  va : List (Nat × Nat)
  deriving DecidableEq, Repr, Inhabited

/-- `StandardRetirementReportCodec.Encode` up to `json.Marshal` (which lists map members in an
    order of its own: a permutation) -/
def retirementToMsg (σ : List (Nat × Nat) → List (Nat × Nat)) (r : RetirementReport) : RetirementMsg :=
  ⟨r.version, σ r.va⟩

/-- `StandardRetirementReportCodec.Decode` after `json.Unmarshal` -/
def retirementFromMsg (m : RetirementMsg) : RetirementReport :=
  ⟨m.version, GoMap.ofList m.va⟩

end DSV.LLO
