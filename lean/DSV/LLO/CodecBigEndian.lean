import DSV.Go.Basic
import DSV.Go.Bytes
/-!
# `libocr/bigbigendian` : fixed-size big-endian two's complement (`SerializeSigned`, `DeserializeSigned`)
-/
namespace DSV.LLO
open DSV

def errBadSize : String := "bad-size"
def errDoesNotFit : String := "does-not-fit"
def errBadLength : String := "bad-length"

/-- `bigbigendian.SerializeSigned(size, i)` for non-nil `i`.
    `bitSize <= x.BitLen()` is written `x ≥ 2^(bitSize-1)` (same thing for `bitSize ≥ 1`). -/
def serializeSigned (size : Nat) (i : Int) : GoRes (List UInt8) :=
  if ¬ (0 < size ∧ size ≤ 128) then .err errBadSize
  else
    let bitSize := size * 8
    if i < 0 then
      -- tmp = i + 1; abs(tmp) is filled into b, then every byte is inverted
      let tmp := (i + 1).natAbs
      if tmp ≥ 2 ^ (bitSize - 1) then .err errDoesNotFit
      else .ok ((beBytes size tmp).map (fun b => b ^^^ 0xff))
    else
      if i.toNat ≥ 2 ^ (bitSize - 1) then .err errDoesNotFit
      else .ok (beBytes size i.toNat)

/-- `bigbigendian.DeserializeSigned(size, b)` -/
def deserializeSigned (size : Nat) (b : List UInt8) : GoRes Int :=
  if ¬ (0 < size ∧ size ≤ 128) then .err errBadSize
  else if b.length ≠ size then .err errBadLength
  else
    let bitSize := size * 8
    let val : Int := fromBE b
    match b with
    | [] => .panic   -- b[0] with size = 0: unreachable (size > 0 and len(b) = size)
    | b0 :: _ =>
      if b0.toNat ≥ 128 then .ok (val - (2 : Int) ^ bitSize) else .ok val

end DSV.LLO
