import DSV.Go.Basic
import DSV.Go.Dec
/-!
# LLO value types (`llo/stream_value.go`, `chainlink-common/pkg/types/llo`)
-/
namespace DSV.LLO
open DSV

/-- `StreamValue`: `*Decimal`, `*Quote`, `*TimestampedStreamValue`.  A nil interface is
    `Option SV = none` at the use sites.  The nested value of a decoded timestamped value is never
    nil (`UnmarshalProtoStreamValue` rejects nil), so `inner` is not optional. -/
inductive SV where
  | dec (d : Dec)
  | quote (bid bench ask : Dec)
  | tsv (observedAt : Nat) (inner : SV)
  deriving DecidableEq, Repr, Inhabited

/-- `LLOStreamValue_Type` enum: Decimal = 0, Quote = 1, TimestampedStreamValue = 2 -/
def SV.type : SV → Nat
  | .dec _ => 0
  | .quote .. => 1
  | .tsv .. => 2

/-- `Quote.IsValid` -/
def quoteValid (bid bench ask : Dec) : Bool := Dec.le bid bench && Dec.le bench ask

structure Stream where
  sid : Nat
  agg : Nat
  deriving DecidableEq, Repr, Inhabited

structure ChanDef where
  format  : Nat
  streams : List Stream
  opts    : List UInt8
  deriving DecidableEq, Repr, Inhabited

/-- aggregator enum of chainlink-common: Median = 1, Mode = 2, Quote = 3 -/
def aggMedian : Nat := 1
def aggMode : Nat := 2
def aggQuote : Nat := 3

end DSV.LLO
