import DSV.Go.Basic
import DSV.Go.Dec
/-!
# LLO value types (`llo/stream_value.go`, `chainlink-common/pkg/types/llo`)
-/
namespace DSV.LLO
open DSV

/-- `StreamValue`: `*Decimal`, `*Quote`, `*TimestampedStreamValue`.  A nil interface is
    `Option SV = none` at the use sites.  The nested value of a decoded timestamped value is never
    nil (`UnmarshalProtoStreamValue` rejects nil), so `inner` is not optional. -/
inductive SV where
  | dec (d : Dec)
  | quote (bid bench ask : Dec)
  | tsv (observedAt : Nat) (inner : SV)
  deriving DecidableEq, Repr, Inhabited

/-- `LLOStreamValue_Type` enum: Decimal = 0, Quote = 1, TimestampedStreamValue = 2 -/
def SV.type : SV → Nat
  | .dec _ => 0
  | .quote .. => 1
  | .tsv .. => 2

/-- `Quote.IsValid` -/
def quoteValid (bid bench ask : Dec) : Bool := Dec.le bid bench && Dec.le bench ask

structure Stream where
  sid : Nat
  agg : Nat
  deriving DecidableEq, Repr, Inhabited

structure ChanDef where
  format  : Nat
  streams : List Stream
  opts    : List UInt8
  deriving DecidableEq, Repr, Inhabited

/-- aggregator enum of chainlink-common: Median = 1, Mode = 2, Quote = 3 -/
def aggMedian : Nat := 1
def aggMode : Nat := 2
def aggQuote : Nat := 3

/-- report formats of chainlink-common -/
def fmtEVMPremiumLegacy : Nat := 1
def fmtJSON : Nat := 2
def fmtRetirement : Nat := 3
def fmtEVMABIEncodeUnpacked : Nat := 4

def stageStaging : String := "staging"
def stageProduction : String := "production"
def stageRetired : String := "retired"

/-- `llo.Outcome`.  `LifeCycleStage` is a Go string (any string can come out of a decoder).
    `StreamAggregates` (`map[StreamID]map[Aggregator]StreamValue`) is flattened to a map keyed by
    `(streamID, aggregator)`: an empty inner map is unobservable (both codecs and the telemetry
    skip it). -/
structure Outcome where
  stage : String
  ts    : Nat
  defs  : GoMap Nat ChanDef
  va    : GoMap Nat Nat
  aggs  : GoMap (Nat × Nat) SV
  deriving Repr, Inhabited, DecidableEq

/-- `llo.RetirementReport` -/
structure RetirementReport where
  version : Nat
  va : GoMap Nat Nat
  deriving Repr, Inhabited, DecidableEq

/-- a decoded `llo.Observation` (`StreamValues` never holds nil after `Decode`) -/
structure Obs where
  attested     : List UInt8
  shouldRetire : Bool
  ts           : Nat
  removes      : List Nat
  updates      : GoMap Nat ChanDef
  values       : GoMap Nat SV
  deriving Repr, Inhabited, DecidableEq

/-- `llo.Report` as handed to a `ReportCodec` -/
structure Report where
  seqNr     : Nat
  channelID : Nat
  validAfter : Nat
  obsTs     : Nat
  values    : List (Option SV)
  specimen  : Bool
  deriving Repr, Inhabited, DecidableEq

end DSV.LLO
