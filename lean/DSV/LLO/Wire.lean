import DSV.LLO.Types
/-!
# Binary form of stream values (`MarshalBinary`) — protobuf wire format, proto3 implicit presence

Only what `Quote.MarshalBinary`, `TimestampedStreamValue.MarshalBinary` and
`Decimal.MarshalBinary` produce is modelled (encode direction); it is needed because
`ModeAggregator` counts and tie-breaks on these bytes.
-/
namespace DSV.LLO
open DSV

/-- protobuf base-128 varint -/
def varint (n : Nat) : List UInt8 :=
  if h : n < 128 then [UInt8.ofNat n]
  else UInt8.ofNat (n % 128 + 128) :: varint (n / 128)
decreasing_by omega

/-- length-delimited field (wire type 2) -/
def fieldBytes (num : Nat) (bs : List UInt8) : List UInt8 :=
  varint (num * 8 + 2) ++ varint bs.length ++ bs

/-- proto3 `bytes` field with implicit presence: omitted when empty -/
def optBytes (num : Nat) (bs : List UInt8) : List UInt8 :=
  if bs.isEmpty then [] else fieldBytes num bs

/-- proto3 varint scalar with implicit presence: omitted when zero -/
def optVarint (num : Nat) (v : Nat) : List UInt8 :=
  if v = 0 then [] else varint (num * 8) ++ varint v

/-- `sv.MarshalBinary()` -/
def marshalSV : SV → List UInt8
  | .dec d => d.marshalBinary
  | .quote bid bm ask =>
      optBytes 1 bid.marshalBinary ++ optBytes 2 bm.marshalBinary ++ optBytes 3 ask.marshalBinary
  | .tsv t inner =>
      optVarint 1 t ++ fieldBytes 2 (optVarint 1 inner.type ++ optBytes 2 (marshalSV inner))

end DSV.LLO
