import DSV.LLO.CodecSV
/-!
# Outcome codecs v0 / v1 at message level
(`llo/outcome_codec_common.go`, `outcome_codec_v0.go`, `outcome_codec_v1.go`)

`OutcomeMsg` mirrors the generated structs `LLOOutcomeProtoV0` / `LLOOutcomeProtoV1`: repeated
fields are *ordered lists* (this is where sorting and canonicity live), singular message fields
are optional (`nil` when absent on the wire).  Bytes ↔ message is protobuf-go
(`proto.MarshalOptions{Deterministic: true}.Marshal`, `proto.Unmarshal`) and is trusted:
marshal is an injective function of the message, unmarshal inverts it, elements of repeated
message fields are never nil after `Unmarshal`.

Every `for k, v := range m` of the encoders goes through a `CodecSched` (one permutation per range
site); theorems quantify over it.
-/
namespace DSV.LLO
open DSV

/-- sequential `for … { x, err := f(a); if err != nil { return err } }` -/
def goMapM {α β : Type} (f : α → GoRes β) : List α → GoRes (List β)
  | [] => .ok []
  | a :: as =>
    match f a with
    | .ok b =>
      (match goMapM f as with
       | .ok bs => .ok (b :: bs)
       | .err c => .err c
       | .panic => .panic)
    | .err c => .err c
    | .panic => .panic

/-- `*LLOStreamAggregate` -/
structure AggMsg where
  sid : Nat
  sv  : Option SVMsg
  agg : Nat
  deriving DecidableEq, Repr, Inhabited

/-- `LLOOutcomeProtoV0` / `LLOOutcomeProtoV1`.  `ts` is `int64` in v0 and `uint64` in v1;
    `va` holds seconds (`uint32`) in v0 and nanoseconds (`uint64`) in v1.
    `ChannelDefinition` of a `LLOChannelIDAndDefinitionProto` may be nil. -/
structure OutcomeMsg where
  stage : String
  ts    : Int
  defs  : List (Nat × Option ChanDef)
  va    : List (Nat × Nat)
  aggs  : List AggMsg
  deriving DecidableEq, Repr, Inhabited

/-- iteration orders of the three map-range sites of an encoder
    (`channelDefinitionsToProtoOutcome`, `validAfter…ToProtoOutcome…`, and the nested loops of
    `StreamAggregatesToProtoOutcome` flattened) -/
structure CodecSched where
  defs : List (Nat × ChanDef) → List (Nat × ChanDef)
  va   : List (Nat × Nat) → List (Nat × Nat)
  aggs : List ((Nat × Nat) × SV) → List ((Nat × Nat) × SV)

def CodecSched.id : CodecSched := ⟨fun l => l, fun l => l, fun l => l⟩

structure CodecSched.IsSched (σ : CodecSched) : Prop where
  defs : ∀ l, (σ.defs l).Perm l
  va   : ∀ l, (σ.va l).Perm l
  aggs : ∀ l, (σ.aggs l).Perm l

def maxUint32 : Nat := 4294967295
def maxInt64 : Nat := 9223372036854775807

def errNilDef : String := "nil-def"
def errVATooLarge : String := "va-too-large"
def errTsTooLarge : String := "ts-too-large"
def errBadTimestamp : String := "bad-timestamp"

/-! ## encode -/

def leKey {ν : Type} (a b : Nat × ν) : Bool := decide (a.1 ≤ b.1)

/-- `!less(b, a)` for the `less` of `StreamAggregatesToProtoOutcome` -/
def leAgg (a b : AggMsg) : Bool :=
  decide (a.sid < b.sid ∨ (a.sid = b.sid ∧ a.agg ≤ b.agg))

/-- `channelDefinitionsToProtoOutcome` -/
def defsToMsg (σ : CodecSched) (m : GoMap Nat ChanDef) : List (Nat × Option ChanDef) :=
  ((σ.defs m).map (fun e => (e.1, some e.2))).mergeSort leKey

/-- `StreamAggregatesToProtoOutcome` (values are never nil in the model's `Outcome`, so the
    error branches of `makeLLOStreamValue` are outside the model) -/
def aggsToMsg (σ : CodecSched) (m : GoMap (Nat × Nat) SV) : List AggMsg :=
  ((σ.aggs m).map (fun e => (⟨e.1.1, some (makeSVMsg e.2), e.1.2⟩ : AggMsg))).mergeSort leAgg

/-- `validAfterNanosecondsToProtoOutcomeNanoseconds` -/
def vaToMsgV1 (σ : CodecSched) (m : GoMap Nat Nat) : List (Nat × Nat) :=
  (σ.va m).mergeSort leKey

/-- `validAfterNanosecondsToProtoOutcomeSeconds` -/
def vaToMsgV0 (σ : CodecSched) (m : GoMap Nat Nat) : GoRes (List (Nat × Nat)) :=
  match goMapM (fun (e : Nat × Nat) =>
      let seconds := e.2 / 1000000000
      if seconds > maxUint32 then GoRes.err errVATooLarge else GoRes.ok (e.1, seconds)) (σ.va m) with
  | .ok l => .ok (l.mergeSort leKey)
  | .err c => .err c
  | .panic => .panic

/-- `protoOutcomeCodecV1.Encode` up to `proto.Marshal` -/
def toMsgV1 (σ : CodecSched) (o : Outcome) : GoRes OutcomeMsg :=
  .ok { stage := o.stage, ts := (o.ts : Int), defs := defsToMsg σ o.defs,
        va := vaToMsgV1 σ o.va, aggs := aggsToMsg σ o.aggs }

/-- `protoOutcomeCodecV0.Encode` up to `proto.Marshal` -/
def toMsgV0 (σ : CodecSched) (o : Outcome) : GoRes OutcomeMsg :=
  let dfns := defsToMsg σ o.defs
  let aggs := aggsToMsg σ o.aggs
  match vaToMsgV0 σ o.va with
  | .err c => .err c
  | .panic => .panic
  | .ok va =>
    if o.ts > maxInt64 then .err errTsTooLarge
    else .ok { stage := o.stage, ts := (o.ts : Int), defs := dfns, va := va, aggs := aggs }

/-! ## decode -/

/-- `channelDefinitionsFromProtoOutcome` -/
def defsFromMsg (l : List (Nat × Option ChanDef)) : GoRes (GoMap Nat ChanDef) :=
  match goMapM (fun (e : Nat × Option ChanDef) =>
      match e.2 with
      | none => GoRes.err errNilDef
      | some d => GoRes.ok (e.1, d)) l with
  | .ok es => .ok (GoMap.ofList es)
  | .err c => .err c
  | .panic => .panic

/-- `streamAggregatesFromProtoOutcome` -/
def aggsFromMsg (l : List AggMsg) : GoRes (GoMap (Nat × Nat) SV) :=
  match goMapM (fun (e : AggMsg) =>
      match unmarshalProtoSV e.sv with
      | .ok v => GoRes.ok ((e.sid, e.agg), v)
      | .err c => .err c
      | .panic => .panic) l with
  | .ok es => .ok (GoMap.ofList es)
  | .err c => .err c
  | .panic => .panic

/-- `validAfterNanosecondsFromProtoOutcomeNanoseconds` -/
def vaFromMsgV1 (l : List (Nat × Nat)) : GoMap Nat Nat := GoMap.ofList l

/-- `validAfterNanosecondsFromProtoOutcomeSeconds` (`uint64(seconds) * 1e9` cannot wrap: seconds is a `uint32`) -/
def vaFromMsgV0 (l : List (Nat × Nat)) : GoMap Nat Nat :=
  GoMap.ofList (l.map (fun e => (e.1, e.2 * 1000000000)))

/-- `protoOutcomeCodecV1.Decode` after `proto.Unmarshal` -/
def fromMsgV1 (m : OutcomeMsg) : GoRes Outcome :=
  match defsFromMsg m.defs with
  | .err c => .err c
  | .panic => .panic
  | .ok dfns =>
    match aggsFromMsg m.aggs with
    | .err c => .err c
    | .panic => .panic
    | .ok aggs =>
      .ok { stage := m.stage, ts := m.ts.toNat, defs := dfns, va := vaFromMsgV1 m.va, aggs := aggs }

/-- `protoOutcomeCodecV0.Decode` after `proto.Unmarshal` -/
def fromMsgV0 (m : OutcomeMsg) : GoRes Outcome :=
  match defsFromMsg m.defs with
  | .err c => .err c
  | .panic => .panic
  | .ok dfns =>
    match aggsFromMsg m.aggs with
    | .err c => .err c
    | .panic => .panic
    | .ok aggs =>
      if m.ts < 0 then .err errBadTimestamp
      else .ok { stage := m.stage, ts := m.ts.toNat, defs := dfns, va := vaFromMsgV0 m.va, aggs := aggs }

/-- well-formed outcome: the three maps have distinct keys -/
structure Outcome.WF (o : Outcome) : Prop where
  defs : GoMap.WF o.defs
  va   : GoMap.WF o.va
  aggs : GoMap.WF o.aggs

/-- same outcome as maps (entry lists are permutations of each other) -/
structure Outcome.Equiv (o o' : Outcome) : Prop where
  stage : o.stage = o'.stage
  ts    : o.ts = o'.ts
  defs  : o.defs.Perm o'.defs
  va    : o.va.Perm o'.va
  aggs  : o.aggs.Perm o'.aggs

end DSV.LLO
