import DSV.LLO.Types
import DSV.LLO.Wire
/-!
# Binary form of stream values — decode direction (`llo/stream_value.go`)

`Quote.UnmarshalBinary`, `TimestampedStreamValue.unmarshalBinary` (with the nesting-depth limit
`maxTimestampedStreamValueNesting`), `Decimal.UnmarshalBinary` (in `DSV/Go/Dec.lean`) and
`UnmarshalProtoStreamValue`.

The two small messages `LLOStreamValueQuote` and `LLOTimestampedStreamValue` are decoded at
**byte level**: `parseMsg` is a model of protobuf-go's `unmarshalPointerEager` loop restricted to
what is observable for these messages (tag parsing, the four scalar wire types, group skipping,
unknown fields skipped, wrong wire type for a known field = unknown field, last value wins,
repeated occurrences of an embedded message are merged).  It is a model of a dependency and is
validated differentially, including on mutated bytes.
-/
namespace DSV.LLO
open DSV

/-! ## protowire -/

/-- `protowire.ConsumeVarint` starting at byte index `i` (at most 10 bytes; the tenth may only be 0 or 1) -/
def consumeVarintAux : Nat → List UInt8 → Option (Nat × List UInt8)
  | _, [] => none
  | i, b :: rest =>
    if b.toNat < 128 then
      (if i ≥ 9 ∧ b.toNat > 1 then none else some (b.toNat, rest))
    else if i ≥ 9 then none
    else
      match consumeVarintAux (i + 1) rest with
      | some (v, r) => some (b.toNat - 128 + 128 * v, r)
      | none => none

def consumeVarint (bs : List UInt8) : Option (Nat × List UInt8) := consumeVarintAux 0 bs

/-- `protowire.ConsumeBytes` -/
def consumeBytes (bs : List UInt8) : Option (List UInt8 × List UInt8) :=
  match consumeVarint bs with
  | none => none
  | some (m, rest) => if m > rest.length then none else some (rest.take m, rest.drop m)

/-- `protowire.consumeFieldValueD` used to skip a field (returns the remaining bytes).
    `fuel` bounds the recursion (every step consumes at least one byte). -/
def skipValue : Nat → Nat → Nat → List UInt8 → Nat → Option (List UInt8)
  | 0, _, _, _, _ => none
  | fuel + 1, num, typ, bs, depth =>
    if typ = 0 then (consumeVarint bs).map (·.2)
    else if typ = 5 then (if bs.length < 4 then none else some (bs.drop 4))
    else if typ = 1 then (if bs.length < 8 then none else some (bs.drop 8))
    else if typ = 2 then (consumeBytes bs).map (·.2)
    else if typ = 3 then
      -- loop of the StartGroup case: tag, then either the matching EndGroup or a nested value
      match consumeVarint bs with
      | none => none
      | some (t, rest) =>
        let num2 := t / 8
        let typ2 := t % 8
        -- `DecodeTag`: numbers above MaxInt32 become -1; `ConsumeTag` rejects numbers below 1
        if num2 > 2147483647 ∨ num2 < 1 then none
        else if typ2 = 4 then (if num = num2 then some rest else none)
        else if depth = 0 then
          -- `depth < 0` check of the nested call for a nested StartGroup; other types ignore depth
          (if typ2 = 3 then none else
            match skipValue fuel num2 typ2 rest 0 with
            | none => none
            | some rest2 => skipValue fuel num 3 rest2 depth)
        else
          match skipValue fuel num2 typ2 rest (depth - 1) with
          | none => none
          | some rest2 => skipValue fuel num 3 rest2 depth
    else none

/-- what the decoder keeps of one field -/
inductive WVal where
  | varint (v : Nat)
  | bytes (b : List UInt8)
  | other
  deriving DecidableEq, Repr, Inhabited

/-- the field loop of `unmarshalPointerEager` with `groupTag = 0`: the fields in wire order,
    or `none` for `errDecode` -/
def parseMsgAux : Nat → List UInt8 → Option (List (Nat × WVal))
  | _, [] => some []
  | 0, _ :: _ => none
  | fuel + 1, bs =>
    match consumeVarint bs with
    | none => none
    | some (tag, rest) =>
      let num := tag / 8
      let typ := tag % 8
      if num < 1 ∨ num > 536870911 then none
      else if typ = 4 then none
      else if typ = 0 then
        match consumeVarint rest with
        | none => none
        | some (v, rest2) => (parseMsgAux fuel rest2).map ((num, WVal.varint v) :: ·)
      else if typ = 2 then
        match consumeBytes rest with
        | none => none
        | some (b, rest2) => (parseMsgAux fuel rest2).map ((num, WVal.bytes b) :: ·)
      else
        match skipValue (2 * rest.length + 2) num typ rest 10000 with
        | none => none
        | some rest2 => (parseMsgAux fuel rest2).map ((num, WVal.other) :: ·)

def parseMsg (bs : List UInt8) : Option (List (Nat × WVal)) := parseMsgAux bs.length bs

/-- last `bytes` value of field `num` (proto3 default: empty) -/
def lastBytes (num : Nat) (fs : List (Nat × WVal)) : List UInt8 :=
  fs.foldl (fun acc f => match f with
    | (n, .bytes b) => if n = num then b else acc
    | _ => acc) []

/-- last varint value of field `num` (proto3 default: 0) -/
def lastVarint (num : Nat) (fs : List (Nat × WVal)) : Nat :=
  fs.foldl (fun acc f => match f with
    | (n, .varint v) => if n = num then v else acc
    | _ => acc) 0

/-- all `bytes` occurrences of field `num`, in wire order -/
def allBytes (num : Nat) (fs : List (Nat × WVal)) : List (List UInt8) :=
  fs.filterMap (fun f => match f with
    | (n, .bytes b) => if n = num then some b else none
    | _ => none)

/-- `int32(v)` of a varint (enum fields) -/
def toInt32 (v : Nat) : Int :=
  let u := v % 4294967296
  if u ≥ 2147483648 then (u : Int) - 4294967296 else u

/-! ## messages -/

/-- `*LLOStreamValue` (the pointer itself may be nil: `Option SVMsg`) -/
structure SVMsg where
  ty : Int
  value : List UInt8
  deriving DecidableEq, Repr, Inhabited

/-- `makeLLOStreamValue` / the literal in `TimestampedStreamValue.MarshalBinary` -/
def makeSVMsg (v : SV) : SVMsg := ⟨v.type, marshalSV v⟩

/-- parse a sequence of occurrences of an embedded message field and merge them -/
def mergeOcc : List (List UInt8) → Option (List (Nat × WVal))
  | [] => some []
  | b :: bs =>
    match parseMsg b with
    | none => none
    | some fs => (mergeOcc bs).map (fs ++ ·)

/-- `proto.Unmarshal(data, &LLOTimestampedStreamValue{})` : (observedAt, streamValue) -/
def parseTSVMsg (data : List UInt8) : Option (Nat × Option SVMsg) :=
  match parseMsg data with
  | none => none
  | some fs =>
    let occ := allBytes 2 fs
    match mergeOcc occ with
    | none => none
    | some inner =>
      let sv : Option SVMsg :=
        if occ.isEmpty then none else some ⟨toInt32 (lastVarint 1 inner), lastBytes 2 inner⟩
      some (lastVarint 1 fs, sv)

/-- `proto.Unmarshal(data, &LLOStreamValueQuote{})` : (bid, benchmark, ask) -/
def parseQuoteMsg (data : List UInt8) : Option (List UInt8 × List UInt8 × List UInt8) :=
  (parseMsg data).map fun fs => (lastBytes 1 fs, lastBytes 2 fs, lastBytes 3 fs)

/-! ## `UnmarshalBinary` -/

def errBadValue : String := "bad-value"
def errNilValue : String := "nil-value"
def errUnknownType : String := "unknown-type"
def errTooDeep : String := "too-deep"

/-- `(*decimal.Decimal).UnmarshalBinary` -/
def unmarshalDec (bs : List UInt8) : GoRes Dec :=
  match Dec.unmarshalBinary bs with
  | some d => .ok d
  | none => .err errBadValue

/-- `(*Quote).UnmarshalBinary` -/
def unmarshalQuote (data : List UInt8) : GoRes SV :=
  match parseQuoteMsg data with
  | none => .err errBadValue
  | some (b, m, a) => do
    let bid ← unmarshalDec b
    let bm ← unmarshalDec m
    let ask ← unmarshalDec a
    pure (.quote bid bm ask)

/-- `maxTimestampedStreamValueNesting` -/
def maxTSVNesting : Nat := 1

/-- `(*TimestampedStreamValue).unmarshalBinary(data, depth)`; the first argument is
    `maxTimestampedStreamValueNesting - depth` -/
def unmarshalTSV : Nat → List UInt8 → GoRes SV
  | rem, data =>
    match parseTSVMsg data with
    | none => .err errBadValue
    | some (at_, sv) =>
      match sv with
      | none => .err errNilValue
      | some m =>
        if m.ty = 2 then
          match rem with
          | 0 => .err errTooDeep
          | r + 1 =>
            match unmarshalTSV r m.value with
            | .ok inner => .ok (.tsv at_ inner)
            | .err c => .err c
            | .panic => .panic
        else if m.ty = 1 then
          match unmarshalQuote m.value with
          | .ok inner => .ok (.tsv at_ inner)
          | .err c => .err c
          | .panic => .panic
        else if m.ty = 0 then
          match unmarshalDec m.value with
          | .ok d => .ok (.tsv at_ (.dec d))
          | .err c => .err c
          | .panic => .panic
        else .err errUnknownType

/-- `UnmarshalProtoStreamValue` -/
def unmarshalProtoSV (enc : Option SVMsg) : GoRes SV :=
  match enc with
  | none => .err errNilValue
  | some m =>
    if m.ty = 1 then unmarshalQuote m.value
    else if m.ty = 0 then (unmarshalDec m.value).bind (fun d => .ok (.dec d))
    else if m.ty = 2 then unmarshalTSV maxTSVNesting m.value
    else .err errUnknownType

/-- nesting depth of timestamped values: 0 for decimals and quotes -/
def SV.tsvDepth : SV → Nat
  | .dec _ => 0
  | .quote .. => 0
  | .tsv _ inner => inner.tsvDepth + 1

/-- every decimal exponent is an `int32` (type invariant of `decimal.Decimal`) and every
    observation time a `uint64` -/
def SV.inRange : SV → Bool
  | .dec d => d.expOk
  | .quote a b c => a.expOk && b.expOk && c.expOk
  | .tsv t inner => decide (t < 2 ^ 64) && inner.inRange

end DSV.LLO
