import DSV.LLO.Plugin
/-!
# Multi-round histories

One OCR3 round = `Outcome()` followed by the outcome codec's encode∘decode (every node decodes the
agreed bytes at the start of the next round).  A round whose `Outcome()` or encoding fails does
not advance the state (OCR3 retries the sequence number with other inputs).
-/
namespace DSV.LLO
open DSV

structure Round where
  nAos : Nat
  obs : List Obs
  σ : Sched

def step (env : Env) (cfg : Cfg) (r : Round) (prev : Outcome) : GoRes Outcome :=
  (outcome env cfg r.σ r.nAos prev r.obs).bind (codecRoundTrip cfg)

/-- the successive agreed outcomes of a history starting from `o` -/
def run (env : Env) (cfg : Cfg) : Outcome → List Round → List Outcome
  | _, [] => []
  | o, r :: rs =>
    match step env cfg r o with
    | .ok o' => o' :: run env cfg o' rs
    | _ => run env cfg o rs

/-- truncation applied by the codec to validity starts: whole seconds under protocol version 0 -/
def truncVA (cfg : Cfg) (v : Nat) : Nat := if cfg.version == 0 then v / 1000000000 * 1000000000 else v

end DSV.LLO
