import DSV.LLO.CodecOutcome
/-!
# Observation codec at message level (`llo/observation_codec.go`)

`ObsMsg` mirrors `LLOObservationProto`.  Its two map fields are Go maps in the generated struct
(`GoMap` entry lists here); protobuf-go guarantees that map *values* are non-nil after
`Unmarshal`, the decoder nevertheless checks stream values for nil, so those stay optional.
`UpdateChannelDefinitions` values are dereferenced without a check by the decoder; they are
modelled as non-optional (protobuf assumption, stated in the obligations).
-/
namespace DSV.LLO
open DSV

/-- `llo.Observation` as handed to `Encode`: `StreamValues` may hold nil values -/
structure ObsE where
  attested     : List UInt8
  shouldRetire : Bool
  ts           : Nat
  removes      : List Nat
  updates      : GoMap Nat ChanDef
  values       : GoMap Nat (Option SV)
  deriving Repr, Inhabited, DecidableEq

/-- `LLOObservationProto` -/
structure ObsMsg where
  attested     : List UInt8
  shouldRetire : Bool
  tsLegacy     : Int
  ts           : Nat
  removes      : List Nat
  updates      : GoMap Nat ChanDef
  values       : GoMap Nat (Option SVMsg)
  deriving Repr, Inhabited, DecidableEq

/-- iteration orders of the map ranges in `Encode` / `Decode` -/
structure ObsSched where
  removes : List Nat → List Nat
  updates : List (Nat × ChanDef) → List (Nat × ChanDef)
  values  : List (Nat × Option SV) → List (Nat × Option SV)
  msgValues : List (Nat × Option SVMsg) → List (Nat × Option SVMsg)

def ObsSched.id : ObsSched := ⟨fun l => l, fun l => l, fun l => l, fun l => l⟩

structure ObsSched.IsSched (σ : ObsSched) : Prop where
  removes : ∀ l, (σ.removes l).Perm l
  updates : ∀ l, (σ.updates l).Perm l
  values  : ∀ l, (σ.values l).Perm l
  msgValues : ∀ l, (σ.msgValues l).Perm l

/-- `int64(x)` of a `uint64` -/
def toInt64 (x : Nat) : Int :=
  let u := x % 18446744073709551616
  if u ≥ 9223372036854775808 then (u : Int) - 18446744073709551616 else u

def errDuplicateRemove : String := "duplicate-remove"
def errNegativeTimestamp : String := "negative-timestamp"

/-- the body of the `StreamValues` loop of `Encode`: nil values are skipped -/
def encValueOpt (e : Nat × Option SV) : Option (Nat × Option SVMsg) :=
  match e.2 with
  | none => none
  | some v => some (e.1, some (makeSVMsg v))

/-- `protoObservationCodec.Encode` up to `proto.Marshal` (nil stream values are skipped) -/
def obsToMsg (σ : ObsSched) (o : ObsE) : GoRes ObsMsg :=
  .ok { attested := o.attested, shouldRetire := o.shouldRetire,
        tsLegacy := toInt64 o.ts, ts := o.ts,
        removes := σ.removes o.removes,
        updates := GoMap.ofList (σ.updates o.updates),
        values := GoMap.ofList ((σ.values o.values).filterMap encValueOpt) }

/-- the duplicate check of the `RemoveChannelIDs` loop: `seen` is the set built so far -/
def removesFromMsg : List Nat → List Nat → GoRes (List Nat)
  | seen, [] => .ok seen
  | seen, id :: rest =>
    if seen.contains id then .err errDuplicateRemove else removesFromMsg (seen ++ [id]) rest

/-- `protoObservationCodec.Decode` after `proto.Unmarshal` -/
def obsFromMsg (σ : ObsSched) (m : ObsMsg) : GoRes Obs :=
  match removesFromMsg [] m.removes with
  | .err c => .err c
  | .panic => .panic
  | .ok removes =>
    let dfns := GoMap.ofList (σ.updates m.updates)
    match goMapM (fun (e : Nat × Option SVMsg) =>
        match unmarshalProtoSV e.2 with
        | .ok v => GoRes.ok (e.1, v)
        | .err _ => GoRes.err errBadValue
        | .panic => .panic) (σ.msgValues m.values) with
    | .err c => .err c
    | .panic => .panic
    | .ok vals =>
      if m.ts > 0 then
        .ok { attested := m.attested, shouldRetire := m.shouldRetire, ts := m.ts,
              removes := removes, updates := dfns, values := GoMap.ofList vals }
      else if m.tsLegacy ≥ 0 then
        .ok { attested := m.attested, shouldRetire := m.shouldRetire, ts := m.tsLegacy.toNat,
              removes := removes, updates := dfns, values := GoMap.ofList vals }
      else .err errNegativeTimestamp

end DSV.LLO
