import DSV.LLO.Plugin
/-!
# `llo/plugin_observation.go` — the whole `observation()` callback of a correct node

`observationVotes` (in `Plugin.lean`) is the channel-vote part.  Here is the rest: sequence-number
guard, the node's clock, the retired short-cut, the refusal on an invalid previous definition set,
the attested predecessor retirement report (only with a configured predecessor and only while
staging), the should-retire vote, the stream values requested from the data source (exactly the
stream ids referenced by the previous outcome's definitions) and what the observation codec keeps
of them (nil values are dropped).

The node's local collaborators are a parameter (`Node`).
-/
namespace DSV.LLO
open DSV

/-- what a node's local collaborators answer during one `Observation()` call -/
structure Node where
  /-- `time.Now().UnixNano()` -/
  now : Int
  /-- `PredecessorRetirementReportCache.AttestedRetirementReport(predecessorDigest)` -/
  attested : GoRes (List UInt8)
  /-- `ShouldRetireCache.ShouldRetire(ownDigest)` -/
  shouldRetire : GoRes Bool
  /-- `ChannelDefinitionCache.Definitions()` -/
  expected : GoMap Nat ChanDef
  /-- `DataSource.Observe`: given the requested stream ids (the keys pre-populated with nil), the
      non-nil entries of the map afterwards -/
  ds : List Nat → GoRes (GoMap Nat SV)

/-- the stream ids `observation()` asks the data source for -/
def requestedStreams (defs : GoMap Nat ChanDef) : List Nat :=
  (defs.flatMap fun e => e.2.streams.map (·.sid)).eraseDups

def emptyObs (ts : Nat) : Obs :=
  { attested := [], shouldRetire := false, ts := ts, removes := [], updates := [], values := [] }

/-- the attested retirement report is fetched only with a configured predecessor and only while staging -/
def callAttested (cfg : Cfg) (prev : Outcome) (nd : Node) : GoRes (List UInt8) :=
  if cfg.hasPred && prev.stage == stageStaging then
    match nd.attested with
    | .ok b => .ok b
    | .err _ => .err "attested-cache"
    | .panic => .panic
  else .ok []

def callShouldRetire (nd : Node) : GoRes Bool :=
  match nd.shouldRetire with
  | .ok b => .ok b
  | .err _ => .err "should-retire-cache"
  | .panic => .panic

/-- the data source is asked only when the previous outcome defines at least one channel -/
def callDs (prev : Outcome) (nd : Node) : GoRes (GoMap Nat SV) :=
  if prev.defs.isEmpty then .ok []
  else match nd.ds (requestedStreams prev.defs) with
    | .ok vs => .ok vs
    | .err _ => .err "datasource"
    | .panic => .panic

/-- `Plugin.observation`; `.ok none` is the empty byte string of the first round -/
def observation (env : Env) (cfg : Cfg) (seqNr : Nat) (prev : Outcome) (nd : Node) : GoRes (Option Obs) :=
  if seqNr < 1 then .err "invalid-seqnr"
  else if seqNr == 1 then .ok none
  else if nd.now < 0 then .err "negative-time"
  else if prev.stage == stageRetired then .ok (some (emptyObs nd.now.toNat))
  else
    match observationVotes env prev nd.expected with
    | none => .err "refuse"
    | some (rm, upd) =>
      (callAttested cfg prev nd).bind fun att =>
      (callShouldRetire nd).bind fun sr =>
      (callDs prev nd).bind fun vals =>
      .ok (some { attested := att, shouldRetire := sr, ts := nd.now.toNat, removes := rm, updates := upd, values := vals })

/-- contract of a correct data source: it writes only keys it was asked for (the Go map keeps keys
    distinct) and produces no nested timestamped value -/
def Node.DsOk (nd : Node) : Prop :=
  ∀ req vs, nd.ds req = .ok vs → GoMap.WF vs ∧ (∀ e ∈ vs, e.1 ∈ req) ∧ (∀ e ∈ vs, svAcceptable e.2 = true)

end DSV.LLO
