import DSV.LLO.Types
import DSV.LLO.TextDec
/-!
# Text forms of stream values (`llo/stream_value.go`: `MarshalText` / `UnmarshalText`,
`NewTypedTextStreamValue` / `UnmarshalTypedTextStreamValue`)

* printing: `Dec.toStr` (shopspring `String()`), the two `Sprintf` formats (extracted facts
  `llo_Quote_MarshalText_fmt`, `llo_TSV_MarshalText_fmt`) and `json.Marshal` of the
  `{"t":…,"v":…}` envelope.  `jsonEscape` only escapes `"` and `\`: the texts produced by
  `MarshalText` contain no other character that `encoding/json` escapes.
* parsing: Lean matchers for the two extracted regexes (`llo_quoteRegex`: unanchored,
  leftmost match, groups `-?[0-9.]+`; `llo_timestampedStreamValueRegex`: anchored,
  `([0-9]+)` and `(.+)` where `.` excludes `\n`), `fmt.Sscanf("%d")` into a `uint64`, a *strict*
  parser for the JSON envelope (exactly the form `json.Marshal` prints; other JSON spellings of
  the same object — whitespace, reordered / duplicate / unknown keys, `\u` escapes — are left
  out and reported as an error by the model), and `parseDec`.
-/
namespace DSV.LLO
open DSV

def errBadText : String := "bad-text"
def errUnknownTypeText : String := "unknown-type"

/-! ## printing -/

def quotePre1 : List Char := "Q{Bid: ".toList
def quotePre2 : List Char := ", Benchmark: ".toList
def quotePre3 : List Char := ", Ask: ".toList
def tsvPre1 : List Char := "TSV{ObservedAtNanoseconds: ".toList
def tsvPre2 : List Char := ", StreamValue: ".toList
def ttPre1 : List Char := "{\"t\":".toList
def ttPre2 : List Char := ",\"v\":\"".toList

/-- what `json.Marshal` does to the characters of a string that occur in stream value texts -/
def jsonEscape : List Char → List Char
  | [] => []
  | c :: cs =>
    if c = '"' then '\\' :: '"' :: jsonEscape cs
    else if c = '\\' then '\\' :: '\\' :: jsonEscape cs
    else c :: jsonEscape cs

/-- `json.Marshal(TypedTextStreamValue{Type: ty, SerializedStreamValue: v})` for `ty ≥ 0` -/
def ttJson (ty : Nat) (v : List Char) : List Char :=
  ttPre1 ++ (toString ty).toList ++ ttPre2 ++ jsonEscape v ++ ['"', '}']

/-- `sv.MarshalText()` -/
def textSV : SV → List Char
  | .dec d => d.toStr.toList
  | .quote b m a =>
    quotePre1 ++ b.toStr.toList ++ quotePre2 ++ m.toStr.toList ++ quotePre3 ++ a.toStr.toList ++ ['}']
  | .tsv t inner =>
    tsvPre1 ++ (toString t).toList ++ tsvPre2 ++ ttJson inner.type (textSV inner) ++ ['}']

/-! ## parsing -/

/-- `s` without the prefix `p`, or `none` -/
def stripPrefix : List Char → List Char → Option (List Char)
  | [], s => some s
  | _ :: _, [] => none
  | p :: ps, c :: cs => if p = c then stripPrefix ps cs else none

def isNumChar (c : Char) : Bool := c.isDigit || c == '.'

/-- the group `(-?[0-9.]+)` at the head of `s`: (matched text, rest) -/
def takeNumGroup (s : List Char) : Option (List Char × List Char) :=
  match s with
  | '-' :: r =>
    let ds := r.takeWhile isNumChar
    if ds.isEmpty then none else some ('-' :: ds, r.dropWhile isNumChar)
  | r =>
    let ds := r.takeWhile isNumChar
    if ds.isEmpty then none else some (ds, r.dropWhile isNumChar)

/-- the quote regex anchored at the head of `s` -/
def matchQuoteAt (s : List Char) : Option (List Char × List Char × List Char) :=
  match stripPrefix quotePre1 s with
  | none => none
  | some r1 =>
    match takeNumGroup r1 with
    | none => none
    | some (g1, r2) =>
      match stripPrefix quotePre2 r2 with
      | none => none
      | some r3 =>
        match takeNumGroup r3 with
        | none => none
        | some (g2, r4) =>
          match stripPrefix quotePre3 r4 with
          | none => none
          | some r5 =>
            match takeNumGroup r5 with
            | none => none
            | some (g3, r6) =>
              match r6 with
              | '}' :: _ => some (g1, g2, g3)
              | _ => none

/-- `quoteRegex.FindStringSubmatch`: leftmost match -/
def findQuote : List Char → Option (List Char × List Char × List Char)
  | [] => none
  | c :: cs =>
    match matchQuoteAt (c :: cs) with
    | some g => some g
    | none => findQuote cs

/-- `timestampedStreamValueRegex.FindStringSubmatch`: (digits, serialized typed value) -/
def matchTSV (s : List Char) : Option (List Char × List Char) :=
  match stripPrefix tsvPre1 s with
  | none => none
  | some r1 =>
    let ds := r1.takeWhile Char.isDigit
    if ds.isEmpty then none
    else
      match stripPrefix tsvPre2 (r1.dropWhile Char.isDigit) with
      | none => none
      | some r2 =>
        match r2.reverse with
        | '}' :: bodyRev =>
          let body := bodyRev.reverse
          if body.isEmpty ∨ body.contains '\n' then none else some (ds, body)
        | _ => none

/-- the characters of a JSON string literal up to its closing quote: (content, rest after the quote) -/
def jsonUnescape : List Char → Option (List Char × List Char)
  | [] => none
  | c :: rest =>
    if c = '"' then some ([], rest)
    else if c = '\\' then
      match rest with
      | [] => none
      | d :: rest' =>
        if d = '"' ∨ d = '\\' then (jsonUnescape rest').map (fun p => (d :: p.1, p.2)) else none
    else if c.toNat < 32 then none
    else (jsonUnescape rest).map (fun p => (c :: p.1, p.2))

/-- a JSON integer literal `-?(0|[1-9][0-9]*)` at the head of `s` -/
def takeJsonInt (s : List Char) : Option (Int × List Char) :=
  let go (neg : Bool) (r : List Char) : Option (Int × List Char) :=
    let ds := r.takeWhile Char.isDigit
    if ds.isEmpty then none
    else if ds.length > 1 ∧ ds.head? = some '0' then none
    else
      let n : Int := (Nat.ofDigitChars 10 ds 0 : Nat)
      some (if neg then -n else n, r.dropWhile Char.isDigit)
  match s with
  | '-' :: r => go true r
  | r => go false r

/-- strict parser for `{"t":<int32>,"v":"<string>"}` -/
def decodeTT (s : List Char) : Option (Int × List Char) :=
  match stripPrefix ttPre1 s with
  | none => none
  | some r1 =>
    match takeJsonInt r1 with
    | none => none
    | some (t, r2) =>
      if t < Dec.minInt32 ∨ t > Dec.maxInt32 then none
      else
        match stripPrefix ttPre2 r2 with
        | none => none
        | some r3 =>
          match jsonUnescape r3 with
          | some (v, ['}']) => some (t, v)
          | _ => none

/-- `(*Decimal).UnmarshalText` -/
def untextDec (s : List Char) : GoRes SV :=
  match parseDec s with
  | some d => .ok (.dec d)
  | none => .err errBadText

/-- `(*Quote).UnmarshalText` -/
def untextQuote (s : List Char) : GoRes SV :=
  match findQuote s with
  | none => .err errBadText
  | some (g1, g2, g3) =>
    match parseDec g1, parseDec g2, parseDec g3 with
    | some b, some m, some a => .ok (.quote b m a)
    | _, _, _ => .err errBadText

/-- `UnmarshalTypedTextStreamValue(&TypedTextStreamValue{ty, s})`; `fuel` bounds the nesting
    (every level is strictly shorter than the one around it) -/
def untextSV : Nat → Int → List Char → GoRes SV
  | fuel, ty, s =>
    if ty = 0 then untextDec s
    else if ty = 1 then untextQuote s
    else if ty = 2 then
      match fuel with
      | 0 => .err errBadText
      | f + 1 =>
        match matchTSV s with
        | none => .err errBadText
        | some (ds, body) =>
          let ts := Nat.ofDigitChars 10 ds 0
          if ts ≥ 2 ^ 64 then .err errBadText
          else
            match decodeTT body with
            | none => .err errBadText
            | some (t, v) =>
              match untextSV f t v with
              | .ok inner => .ok (.tsv ts inner)
              | .err c => .err c
              | .panic => .panic
    else .err errUnknownTypeText

/-- numerically equal decimals -/
def decEqv (a b : Dec) : Prop :=
  a.coefAt (min a.exp b.exp) = b.coefAt (min a.exp b.exp)

/-- same value up to the representation of its decimals -/
def svEqv : SV → SV → Prop
  | .dec a, .dec b => decEqv a b
  | .quote a b c, .quote a' b' c' => decEqv a a' ∧ decEqv b b' ∧ decEqv c c'
  | .tsv t v, .tsv t' v' => t = t' ∧ svEqv v v'
  | _, _ => False

end DSV.LLO
