import DSV.LLO.Types
import DSV.LLO.Wire
/-!
# `llo/aggregators.go` — transcription

`sort.Slice(x, less)` is modelled by the stable `List.mergeSort` with `le a b := ¬ less b a`.
Theorems never depend on which sorted permutation the sort produces (they are stated for every
sorted permutation); the executable model agrees bit-for-bit with Go's insertion sort (≤ 12
elements, stable) and numerically beyond that.
-/
namespace DSV.LLO
open DSV

/-- state of the loop in `mostCommonType`: the three buckets, the current winner and its bucket -/
structure MCTState where
  bDec : List SV := []
  bQuote : List SV := []
  bTsv : List SV := []
  typ : Nat := 0
  largest : List SV := []

def MCTState.bucket (s : MCTState) (t : Nat) : List SV :=
  if t = 0 then s.bDec else if t = 1 then s.bQuote else s.bTsv

def mctStep (s : MCTState) (value : Option SV) : MCTState :=
  match value with
  | none => s
  | some v =>
    let t := v.type
    let s1 : MCTState :=
      if t = 0 then { s with bDec := s.bDec ++ [v] }
      else if t = 1 then { s with bQuote := s.bQuote ++ [v] }
      else { s with bTsv := s.bTsv ++ [v] }
    let b := s1.bucket t
    if b.length > s1.largest.length || (b.length == s1.largest.length && t < s1.typ) then
      { s1 with largest := b, typ := t }
    else s1

/-- `mostCommonType(values)` -/
def mostCommonType (values : List (Option SV)) : Nat × List SV :=
  let s := values.foldl mctStep {}
  (s.typ, s.largest)

/-- rank-k median: element at index `len/2` of the sorted list -/
def medianOf {α} [Inhabited α] (le : α → α → Bool) (xs : List α) : α :=
  (xs.mergeSort le)[xs.length / 2]!

/-- what the decimal/quote branch of `MedianAggregator` extracts from one value -/
def usableDec : Option SV → Option Dec
  | some (.dec d) => some d
  | some (.quote _ bm _) => some bm
  | _ => none

/-- the `case LLOStreamValue_Decimal, LLOStreamValue_Quote` branch of `MedianAggregator`:
    iterates over *all* values, takes `Benchmark` of quotes, skips everything else -/
def medianDQ (values : List (Option SV)) (f : Nat) : GoRes SV :=
  let observations : List Dec := values.filterMap usableDec
  if observations.length ≤ f then .err "not-enough"
  else .ok (.dec (medianOf Dec.le observations))

/-- `svalues[i]` of the timestamped branch: the nested decimal, nil for anything else -/
def tsvInner : SV → Option SV
  | .tsv _ (.dec d) => some (.dec d)
  | _ => none

/-- `timestamps[i]` of the timestamped branch: observed-at, 0 for skipped entries -/
def tsvTime : SV → Nat
  | .tsv t (.dec _) => t
  | _ => 0

/-- `MedianAggregator`.  The timestamped branch builds `svalues` (nil for skipped entries) and
    `timestamps` (0 for skipped entries) and recurses once; since `svalues` only holds decimals
    and nils the recursive call always lands in the decimal branch. -/
def medianAgg (values : List (Option SV)) (f : Nat) : GoRes SV :=
  let (typ, typValues) := mostCommonType values
  if typ = 2 then
    let svalues : List (Option SV) := typValues.map tsvInner
    let timestamps : List Nat := typValues.map tsvTime
    match medianDQ svalues f with
    | .ok mv => .ok (.tsv (medianOf (fun a b => decide (a ≤ b)) timestamps) mv)
    | .err e => .err e
    | .panic => .panic
  else if typ = 0 || typ = 1 then medianDQ values f
  else .err "unsupported-type"

/-- a quote that passes `IsValid`, as (bid, benchmark, ask) -/
def validQuote : Option SV → Option (Dec × Dec × Dec)
  | some (.quote bid bm ask) => if quoteValid bid bm ask then some (bid, bm, ask) else none
  | _ => none

/-- `QuoteAggregator`: three successive sorts of the same slice -/
def quoteAgg (values : List (Option SV)) (f : Nat) : GoRes SV :=
  let observations : List (Dec × Dec × Dec) := values.filterMap validQuote
  if observations.length ≤ f then .err "not-enough"
  else
    let n := observations.length
    let s1 := observations.mergeSort (fun a b => Dec.le a.2.1 b.2.1)
    let bm := (s1[n / 2]!).2.1
    let s2 := s1.mergeSort (fun a b => Dec.le a.1 b.1)
    let bid := (s2[n / 2]!).1
    let s3 := s2.mergeSort (fun a b => Dec.le a.2.2 b.2.2)
    let ask := (s3[n / 2]!).2.2
    .ok (.quote bid bm ask)

/-- lexicographic `<` on byte strings (Go string comparison) -/
def bytesLt : List UInt8 → List UInt8 → Bool
  | [], [] => false
  | [], _ :: _ => true
  | _ :: _, [] => false
  | a :: as, b :: bs => a < b || (a == b && bytesLt as bs)

def bytesLe (a b : List UInt8) : Bool := !bytesLt b a

/-- number of bucket entries whose serialized form is `k` (`counts[k]`) -/
def countKey (keyed : List (List UInt8 × SV)) (k : List UInt8) : Nat :=
  (keyed.filter (fun e => e.1 == k)).length

/-- the loop over the sorted keys: a key replaces the current mode only with a strictly larger count -/
def pickMode (cnt : List UInt8 → Nat) (keys : List (List UInt8)) : List UInt8 × Nat :=
  keys.foldl (fun acc k => if cnt k > acc.2 then (k, cnt k) else acc) ([], 0)

/-- bucket entries with their serialized form (`value.MarshalBinary()`) -/
def keyedOf (bucket : List SV) : List (List UInt8 × SV) := bucket.map fun v => (marshalSV v, v)

/-- `keys := maps.Keys(counts); slices.Sort(keys)` -/
def sortedKeys (keyed : List (List UInt8 × SV)) : List (List UInt8) :=
  (keyed.map (·.1)).eraseDups.mergeSort bytesLe

/-- (modeSerialized, modeCount) -/
def modeOf (keyed : List (List UInt8 × SV)) : List UInt8 × Nat :=
  pickMode (countKey keyed) (sortedKeys keyed)

/-- `ModeAggregator`.  Counting is by serialized value; keys are visited in ascending byte order
    and a key replaces the current mode only with a strictly larger count. -/
def modeAgg (values : List (Option SV)) (f : Nat) : GoRes (Option SV) :=
  let keyed := keyedOf (mostCommonType values).2
  let m := modeOf keyed
  if m.2 < f + 1 then .err "not-enough"
  else if m.1.isEmpty then .ok none
  else
    match keyed.find? (fun e => e.1 == m.1) with
    | some e => .ok (some e.2)   -- `UnmarshalProtoStreamValue` of the winning bytes
    | none => .err "unmarshal"

/-- `GetAggregatorFunc` + call; `none` = no aggregator function defined -/
def aggregate (agg : Nat) (values : List (Option SV)) (f : Nat) : Option (GoRes (Option SV)) :=
  if agg = aggMedian then some ((medianAgg values f).bind (fun v => .ok (some v)))
  else if agg = aggMode then some (modeAgg values f)
  else if agg = aggQuote then some ((quoteAgg values f).bind (fun v => .ok (some v)))
  else none

end DSV.LLO
