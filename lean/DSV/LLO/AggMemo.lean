import DSV.LLO.Plugin
/-!
# The stream-aggregation loop with the `attempted` set (the tree after repair K8)

`Plugin.outcome` (after commit "fix: aggregate each (stream, aggregator) pair at most once per round")
keeps, next to `outcome.StreamAggregates`, a set of the pairs it has already tried.  For every mention
of a pair the loop body is, in source order:

1. `if _, exists := outcome.StreamAggregates[sid][agg]; exists { continue }`
2. copy the previous outcome's value forward when it is timestamped
3. `if _, tried := attempted[strm]; tried { continue }`, then `attempted[strm] = struct{}{}`
4. run the aggregator and store according to the result.

`aggregateOneMemo` is that body (steps 2 and 4 are `aggregateOne` on a pair that is not stored yet);
`DSV/Lemmas/AggMemo.lean` proves that the extra state changes nothing: `aggregateAllMemo` computes
exactly the aggregates of `aggregateAll`, the loop every other theorem is stated over.
-/
namespace DSV.LLO
open DSV

/-- step 2 alone -/
def copyPrevTsv (prev : Outcome) (aggs : GoMap (Nat × Nat) SV) (k : Nat × Nat) : GoMap (Nat × Nat) SV :=
  match prev.aggs.get? k with
  | some (.tsv t v) => aggs.set k (.tsv t v)
  | _ => aggs

def aggregateOneMemo (cfg : Cfg) (prev : Outcome) (streamObs : GoMap Nat (List (Option SV)))
    (st : GoMap (Nat × Nat) SV × List (Nat × Nat)) (sid agg : Nat) :
    GoRes (GoMap (Nat × Nat) SV × List (Nat × Nat)) :=
  if st.1.contains (sid, agg) then .ok st
  else if st.2.contains (sid, agg) then .ok (copyPrevTsv prev st.1 (sid, agg), st.2)
  else (aggregateOne cfg prev streamObs st.1 sid agg).bind fun aggs => .ok (aggs, (sid, agg) :: st.2)

def aggregateAllMemo (cfg : Cfg) (prev : Outcome) (streamObs : GoMap Nat (List (Option SV)))
    (defs : List (Nat × ChanDef)) : GoRes (GoMap (Nat × Nat) SV × List (Nat × Nat)) :=
  (defs.flatMap (·.2.streams)).foldl
    (fun acc s => acc.bind fun st => aggregateOneMemo cfg prev streamObs st s.sid s.agg) (.ok ([], []))

end DSV.LLO
