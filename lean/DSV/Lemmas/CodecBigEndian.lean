import DSV.LLO.CodecBigEndian
import DSV.Lemmas.Bytes
/-!
# `bigbigendian.SerializeSigned` / `DeserializeSigned` : two's complement round trips
-/
namespace DSV.LLO
open DSV

theorem xor_ff_toNat (b : UInt8) : (b ^^^ 0xff).toNat = 255 - b.toNat := by
  have h : (0xff : UInt8) = -1 := by decide
  rw [h, UInt8.xor_neg_one, UInt8.toNat_not]
  simp [UInt8.size]

theorem fromBE_cons (b : UInt8) (bs : List UInt8) : fromBE (b :: bs) = b.toNat * 256 ^ bs.length + fromBE bs := by
  have h : fromBE (b :: bs) = fromBE ([b] ++ bs) := rfl
  rw [h, fromBE_append, fromBE_single]

theorem fromBE_map_xor (bs : List UInt8) :
    fromBE (bs.map (fun b => b ^^^ 0xff)) + fromBE bs + 1 = 256 ^ bs.length := by
  induction bs with
  | nil => simp [fromBE]
  | cons b bs ih =>
    simp only [List.map_cons, fromBE_cons, List.length_map, List.length_cons, xor_ff_toNat]
    have hb : b.toNat < 256 := b.toNat_lt
    have hp : 256 ^ (bs.length + 1) = 256 * 256 ^ bs.length := by rw [Nat.pow_succ]; omega
    rw [hp]
    have e1 : (255 - b.toNat) * 256 ^ bs.length + b.toNat * 256 ^ bs.length = 255 * 256 ^ bs.length := by
      rw [← Nat.add_mul]; congr 1; omega
    omega

/-- most significant byte first -/
theorem beBytes_succ_head (k n : Nat) :
    beBytes (k + 1) n = UInt8.ofNat (n / 256 ^ k % 256) :: beBytes k n := by
  induction k generalizing n with
  | zero => simp [beBytes]
  | succ k ih =>
    rw [beBytes, ih (n / 256)]
    simp only [List.cons_append]
    rw [beBytes]
    congr 2
    rw [Nat.div_div_eq_div_mul, Nat.pow_succ, Nat.mul_comm]

private theorem toNat_ofNat_lt (n : Nat) (h : n < 256) : (UInt8.ofNat n).toNat = n := by
  rw [UInt8.toNat_ofNat']; omega

/-- the value range of a `size`-byte two's complement number -/
def fitsSigned (size : Nat) (i : Int) : Prop :=
  -((2 : Int) ^ (size * 8 - 1)) ≤ i ∧ i < (2 : Int) ^ (size * 8 - 1)

private theorem int_pow_cast (n : Nat) : ((2 ^ n : Nat) : Int) = (2 : Int) ^ n := by
  simp [Int.natCast_pow]

theorem serializeSigned_ok_iff (size : Nat) (hs : 0 < size ∧ size ≤ 128) (i : Int) :
    (∃ bs, serializeSigned size i = .ok bs) ↔ fitsSigned size i := by
  unfold serializeSigned fitsSigned
  rw [if_neg (by simp; omega)]
  simp only
  have hpos : (0 : Int) < (2 : Int) ^ (size * 8 - 1) := Int.pow_pos (by omega)
  by_cases hneg : i < 0
  · rw [if_pos hneg]
    have hc : (((i + 1).natAbs : Nat) : Int) = -(i + 1) := by omega
    by_cases hbig : (i + 1).natAbs ≥ 2 ^ (size * 8 - 1)
    · rw [if_pos hbig]
      have : ((2 ^ (size * 8 - 1) : Nat) : Int) ≤ (((i + 1).natAbs : Nat) : Int) := Int.ofNat_le.mpr hbig
      rw [int_pow_cast, hc] at this
      constructor
      · rintro ⟨bs, h⟩; cases h
      · rintro ⟨h1, _⟩; omega
    · rw [if_neg hbig]
      have : (((i + 1).natAbs : Nat) : Int) < ((2 ^ (size * 8 - 1) : Nat) : Int) := Int.ofNat_lt.mpr (by omega)
      rw [int_pow_cast, hc] at this
      exact ⟨fun _ => ⟨by omega, by omega⟩, fun _ => ⟨_, rfl⟩⟩
  · rw [if_neg hneg]
    have hc : ((i.toNat : Nat) : Int) = i := by omega
    by_cases hbig : i.toNat ≥ 2 ^ (size * 8 - 1)
    · rw [if_pos hbig]
      have : ((2 ^ (size * 8 - 1) : Nat) : Int) ≤ ((i.toNat : Nat) : Int) := Int.ofNat_le.mpr hbig
      rw [int_pow_cast, hc] at this
      constructor
      · rintro ⟨bs, h⟩; cases h
      · rintro ⟨_, h2⟩; omega
    · rw [if_neg hbig]
      have : ((i.toNat : Nat) : Int) < ((2 ^ (size * 8 - 1) : Nat) : Int) := Int.ofNat_lt.mpr (by omega)
      rw [int_pow_cast, hc] at this
      exact ⟨fun _ => ⟨by omega, by omega⟩, fun _ => ⟨_, rfl⟩⟩

theorem serializeSigned_length (size : Nat) (i : Int) (bs : List UInt8) (h : serializeSigned size i = .ok bs) :
    bs.length = size := by
  unfold serializeSigned at h
  split at h
  · cases h
  · simp only at h
    split at h
    · split at h
      · cases h
      · cases h; simp [beBytes_length]
    · split at h
      · cases h
      · cases h; simp [beBytes_length]

theorem pow256_half (k : Nat) : 2 ^ ((k + 1) * 8 - 1) = 128 * 256 ^ k := by
  have : (k + 1) * 8 - 1 = 8 * k + 7 := by omega
  rw [this, Nat.pow_add, pow256]
  omega

/-- decoding what `SerializeSigned` wrote returns the number -/
theorem deserialize_serialize (size : Nat) (i : Int) (bs : List UInt8)
    (h : serializeSigned size i = .ok bs) : deserializeSigned size bs = .ok i := by
  have hlen := serializeSigned_length size i bs h
  unfold serializeSigned at h
  split at h
  · cases h
  · rename_i hs
    have hs' : 0 < size ∧ size ≤ 128 := by
      apply Classical.byContradiction; intro hn; exact hs hn
    obtain ⟨k, rfl⟩ : ∃ k, size = k + 1 := ⟨size - 1, by omega⟩
    simp only at h
    unfold deserializeSigned
    rw [if_neg hs, if_neg (by omega)]
    simp only
    have hp256 : ((2 : Int) ^ ((k + 1) * 8)) = ((256 ^ (k + 1) : Nat) : Int) := by
      rw [pow256, int_pow_cast]; congr 1; omega
    split at h
    · rename_i hneg
      split at h
      · cases h
      · rename_i hsmall
        cases h
        rw [pow256_half] at hsmall
        have ht : (i + 1).natAbs < 128 * 256 ^ k := by omega
        have hc : (((i + 1).natAbs : Nat) : Int) = -(i + 1) := by omega
        have hx := fromBE_map_xor (beBytes (k + 1) (i + 1).natAbs)
        rw [beBytes_length, fromBE_beBytes] at hx
        have hlt : (i + 1).natAbs < 256 ^ (k + 1) := by rw [Nat.pow_succ]; omega
        rw [Nat.mod_eq_of_lt hlt] at hx
        rw [beBytes_succ_head]
        simp only [List.map_cons]
        have hd : (i + 1).natAbs / 256 ^ k < 128 := by
          rw [Nat.div_lt_iff_lt_mul (Nat.pow_pos (by omega))]; omega
        have hm : (i + 1).natAbs / 256 ^ k % 256 = (i + 1).natAbs / 256 ^ k := Nat.mod_eq_of_lt (by omega)
        have hb0 : (UInt8.ofNat ((i + 1).natAbs / 256 ^ k % 256) ^^^ 0xff).toNat ≥ 128 := by
          rw [xor_ff_toNat, hm, toNat_ofNat_lt _ (by omega)]; omega
        rw [if_pos hb0]
        congr 1
        rw [beBytes_succ_head] at hx
        simp only [List.map_cons] at hx
        rw [hp256]
        have hx' : ((fromBE ((UInt8.ofNat ((i + 1).natAbs / 256 ^ k % 256) ^^^ 0xff) ::
            List.map (fun b => b ^^^ 0xff) (beBytes k (i + 1).natAbs)) : Nat) : Int) + ((i + 1).natAbs : Nat) + 1 =
            ((256 ^ (k + 1) : Nat) : Int) := by
          exact_mod_cast hx
        omega
    · rename_i hneg
      split at h
      · cases h
      · rename_i hsmall
        cases h
        rw [pow256_half] at hsmall
        have ht : i.toNat < 128 * 256 ^ k := by omega
        have hc : ((i.toNat : Nat) : Int) = i := by omega
        have hlt : i.toNat < 256 ^ (k + 1) := by rw [Nat.pow_succ]; omega
        have hv : fromBE (beBytes (k + 1) i.toNat) = i.toNat := by
          rw [fromBE_beBytes, Nat.mod_eq_of_lt hlt]
        rw [hv, beBytes_succ_head]
        simp only
        have hd : i.toNat / 256 ^ k < 128 := by
          rw [Nat.div_lt_iff_lt_mul (Nat.pow_pos (by omega))]; omega
        have hm : i.toNat / 256 ^ k % 256 = i.toNat / 256 ^ k := Nat.mod_eq_of_lt (by omega)
        have hb0 : ¬ (UInt8.ofNat (i.toNat / 256 ^ k % 256)).toNat ≥ 128 := by
          rw [hm, toNat_ofNat_lt _ (by omega)]; omega
        rw [if_neg hb0, hc]

/-- decoding succeeds exactly on `size` bytes and never panics -/
theorem deserializeSigned_ok_iff (size : Nat) (hs : 0 < size ∧ size ≤ 128) (b : List UInt8) :
    (∃ v, deserializeSigned size b = .ok v) ↔ b.length = size := by
  unfold deserializeSigned
  rw [if_neg (by simp; omega)]
  by_cases hl : b.length = size
  · rw [if_neg (by omega)]
    cases b with
    | nil => simp at hl; omega
    | cons b0 bs =>
      simp only
      constructor
      · intro _; exact hl
      · intro _; split <;> exact ⟨_, rfl⟩
  · rw [if_pos hl]
    constructor
    · rintro ⟨v, h⟩; cases h
    · intro h; exact absurd h hl

theorem deserializeSigned_err_of_length (size : Nat) (hs : 0 < size ∧ size ≤ 128) (b : List UInt8)
    (h : b.length ≠ size) : deserializeSigned size b = .err errBadLength := by
  unfold deserializeSigned
  rw [if_neg (by simp; omega), if_pos h]

/-- every decoded value fits the two's complement range -/
theorem deserializeSigned_fits (size : Nat) (b : List UInt8) (v : Int) (h : deserializeSigned size b = .ok v) :
    fitsSigned size v := by
  unfold deserializeSigned at h
  split at h
  · cases h
  · rename_i hs
    have hs' : 0 < size ∧ size ≤ 128 := by
      apply Classical.byContradiction; intro hn; exact hs hn
    split at h
    · cases h
    · rename_i hl
      have hl' : b.length = size := by
        apply Classical.byContradiction; intro hn; exact hl hn
      obtain ⟨k, rfl⟩ : ∃ k, size = k + 1 := ⟨size - 1, by omega⟩
      cases b with
      | nil => simp at hl'
      | cons b0 bs =>
        simp only at h
        have hbs : bs.length = k := by simp at hl'; omega
        have hrest := fromBE_lt bs
        rw [hbs] at hrest
        have hb0 : b0.toNat < 256 := b0.toNat_lt
        have hval : fromBE (b0 :: bs) = b0.toNat * 256 ^ k + fromBE bs := by rw [fromBE_cons, hbs]
        have hp : (0 : Nat) < 256 ^ k := Nat.pow_pos (by omega)
        have hp256 : ((2 : Int) ^ ((k + 1) * 8)) = ((256 ^ (k + 1) : Nat) : Int) := by
          rw [pow256, int_pow_cast]; congr 1; omega
        have hhalf : ((2 : Int) ^ ((k + 1) * 8 - 1)) = ((128 * 256 ^ k : Nat) : Int) := by
          rw [← pow256_half, int_pow_cast]
        have hsucc : 256 ^ (k + 1) = 256 * 256 ^ k := by rw [Nat.pow_succ]; omega
        unfold fitsSigned
        rw [hhalf]
        split at h
        · rename_i hge
          cases h
          rw [hp256, hval, hsucc]
          have h1 : 128 * 256 ^ k ≤ b0.toNat * 256 ^ k := Nat.mul_le_mul_right _ hge
          have h2 : b0.toNat * 256 ^ k ≤ 255 * 256 ^ k := Nat.mul_le_mul_right _ (by omega)
          generalize b0.toNat * 256 ^ k = M at h1 h2 ⊢
          generalize 256 ^ k = P at *
          omega
        · rename_i hlt
          cases h
          rw [hval]
          have h2 : b0.toNat * 256 ^ k ≤ 127 * 256 ^ k := Nat.mul_le_mul_right _ (by omega)
          generalize b0.toNat * 256 ^ k = M at h2 ⊢
          generalize 256 ^ k = P at *
          omega

end DSV.LLO
