import DSV.Go.Dec
import DSV.Lemmas.Bytes
/-!
# `Decimal.MarshalBinary` / `UnmarshalBinary` round trip (byte level)
-/
namespace DSV.Dec
open DSV

theorem fromBytesBE_eq_fromBE (bs : List UInt8) : fromBytesBE bs = fromBE bs := rfl

theorem natBytesBE_zero : natBytesBE 0 = [] := by
  rw [natBytesBE]; simp

theorem natBytesBE_pos (n : Nat) (h : n ≠ 0) :
    natBytesBE n = natBytesBE (n / 256) ++ [UInt8.ofNat (n % 256)] := by
  rw [natBytesBE]; simp [h]

theorem fromBytesBE_natBytesBE (n : Nat) : fromBytesBE (natBytesBE n) = n := by
  induction n using Nat.strongRecOn with
  | _ n ih =>
    by_cases h : n = 0
    · subst h; rw [natBytesBE_zero]; rfl
    · rw [natBytesBE_pos n h, fromBytesBE_eq_fromBE, fromBE_append, ← fromBytesBE_eq_fromBE,
        ih (n / 256) (by omega), fromBE_single, uint8_ofNat_mod]
      simp only [List.length_singleton, Nat.pow_one]
      omega

theorem marshalBinary_length_ge (d : Dec) : 5 ≤ d.marshalBinary.length := by
  simp [marshalBinary, expBytes, gobInt]

theorem marshalBinary_ne_nil (d : Dec) : d.marshalBinary ≠ [] := by
  intro h
  have := marshalBinary_length_ge d
  rw [h] at this
  simp at this

private theorem toNat_ofNat_lt (n : Nat) (h : n < 256) : (UInt8.ofNat n).toNat = n := by
  rw [UInt8.toNat_ofNat']; omega

/-- byte-level round trip of a decimal whose exponent is an `int32` -/
theorem unmarshalBinary_marshalBinary (d : Dec) (h : d.expOk = true) :
    unmarshalBinary d.marshalBinary = some d := by
  obtain ⟨c, e⟩ := d
  simp [expOk, minInt32, maxInt32] at h
  obtain ⟨h1, h2⟩ := h
  have h1 := of_decide_eq_true h1
  have h2 := of_decide_eq_true h2
  simp only [marshalBinary, expBytes, gobInt, List.cons_append, List.nil_append, unmarshalBinary]
  have hu0 : (((e % 4294967296).toNat : Nat) : Int) = e % 4294967296 := by omega
  generalize (e % 4294967296).toNat = u at hu0 ⊢
  have hu : u < 4294967296 := by omega
  rw [toNat_ofNat_lt _ (by omega), toNat_ofNat_lt _ (by omega), toNat_ofNat_lt _ (by omega),
    toNat_ofNat_lt _ (by omega)]
  have hsum : u / 16777216 * 16777216 + u / 65536 % 256 * 65536 + u / 256 % 256 * 256 + u % 256 = u := by
    omega
  rw [hsum]
  have he : (if u ≥ 2147483648 then (u : Int) - 4294967296 else (u : Int)) = e := by
    split <;> omega
  rw [he, fromBytesBE_natBytesBE]
  by_cases hc : c < 0
  · simp only [hc, if_true]
    have h3 : ((3 : UInt8) / 2 != 1) = false := by decide
    have h4 : ((3 : UInt8) % 2 == 1) = true := by decide
    simp only [h3, h4, if_true, Bool.false_eq_true, if_false]
    congr 2
    omega
  · simp only [hc, if_false]
    have h3 : ((2 : UInt8) / 2 != 1) = false := by decide
    have h4 : ((2 : UInt8) % 2 == 1) = false := by decide
    simp only [h3, h4, Bool.false_eq_true, if_false]
    congr 2
    omega

end DSV.Dec
