import DSV.Lemmas.Outcome
import DSV.Lemmas.Tally
import DSV.Lemmas.AggsFun
import DSV.Props.C11
/-!
The aggregate an `Outcome()` round stores for a referenced `(stream, aggregator)` pair, in closed
form: the aggregator applied to exactly what the contributing observations reported for the stream
(`counted`), post-processed by the timestamped carry-forward rule (`valueOf`).  The per-aggregator
lifts of C02 and C15 are corollaries.
-/
namespace DSV.LLO
open DSV DSV.GoMap

theorem outcome_agg_lookup (env : Env) (cfg : Cfg) (σ : Sched) (hσ : σ.IsSched) (n : Nat) (prev o : Outcome)
    (obs : List Obs) (hvals : ∀ x ∈ obs, GoMap.WF x.values) (h : outcome env cfg σ n prev obs = .ok o)
    (sid agg : Nat) (href : ∃ e ∈ o.defs, (⟨sid, agg⟩ : Stream) ∈ e.2.streams) :
    ∃ so : GoMap Nat (List (Option SV)),
      (so.get? sid).getD [] = (counted env obs).filterMap (obsValue sid) ∧
      o.aggs.get? (sid, agg) = valueOf cfg prev so (sid, agg) := by
  obtain ⟨_, t, ht, _, _, _, _, _, hagg⟩ := outcome_ok h
  have hso := tally_streamObs env cfg obs t hvals ht sid
  have hnp : ∀ k, aggOneValue cfg prev t.streamObs k ≠ .panic := fun k =>
    aggOneValue_no_panic cfg prev t.streamObs k (fun r hr => DSV.Props.C11.aggregate_never_panics _ _ _ r hr)
  have hfun := aggregateAll_fun cfg prev t.streamObs (σ.defsAgg o.defs) hnp
  rw [hagg] at hfun
  obtain ⟨_, _, hget⟩ := hfun
  have hmem : (sid, agg) ∈ ((σ.defsAgg o.defs).flatMap (·.2.streams)).map (fun s => (s.sid, s.agg)) := by
    obtain ⟨e, he, hs'⟩ := href
    simp only [List.mem_map, List.mem_flatMap]
    exact ⟨⟨sid, agg⟩, ⟨e, (hσ.2.2.2.2.1 o.defs).mem_iff.mpr he, hs'⟩, rfl⟩
  exact ⟨t.streamObs, hso, by rw [hget, if_pos hmem]⟩

end DSV.LLO
