import DSV.LLO.Aggregators
import DSV.Lemmas.Mct
/-!
# `ModeAggregator` lemmas: byte order, the picking loop, permutation invariance
-/
namespace DSV.LLO
open DSV

/-! ## lexicographic order on byte strings -/

theorem bytesLt_irrefl (a : List UInt8) : bytesLt a a = false := by
  induction a with
  | nil => rfl
  | cons x xs ih => simp [bytesLt, ih]

theorem bytesLt_trichotomy (a b : List UInt8) : bytesLt a b = true ∨ a = b ∨ bytesLt b a = true := by
  induction a generalizing b with
  | nil => cases b <;> simp [bytesLt]
  | cons x xs ih =>
    cases b with
    | nil => simp [bytesLt]
    | cons y ys =>
      simp only [bytesLt, Bool.or_eq_true, decide_eq_true_eq, Bool.and_eq_true, beq_iff_eq, List.cons.injEq]
      rcases Nat.lt_trichotomy x.toNat y.toNat with h | h | h
      · left; left; exact UInt8.lt_iff_toNat_lt.mpr h
      · have hxy : x = y := UInt8.toNat_inj.mp h
        subst hxy
        rcases ih ys with h' | h' | h'
        · left; right; exact ⟨rfl, h'⟩
        · right; left; exact ⟨rfl, h'⟩
        · right; right; right; exact ⟨rfl, h'⟩
      · right; right; left; exact UInt8.lt_iff_toNat_lt.mpr h

theorem bytesLt_asymm (a b : List UInt8) (h : bytesLt a b = true) : bytesLt b a = false := by
  induction a generalizing b with
  | nil => cases b <;> simp_all [bytesLt]
  | cons x xs ih =>
    cases b with
    | nil => simp [bytesLt] at h
    | cons y ys =>
      simp only [bytesLt, Bool.or_eq_true, decide_eq_true_eq, Bool.and_eq_true, beq_iff_eq] at h
      simp only [bytesLt, Bool.or_eq_false_iff, decide_eq_false_iff_not, Bool.and_eq_false_imp, beq_iff_eq]
      rcases h with h | ⟨rfl, h⟩
      · have := UInt8.lt_iff_toNat_lt.mp h
        refine ⟨fun hc => ?_, fun hc => ?_⟩
        · have := UInt8.lt_iff_toNat_lt.mp hc; omega
        · subst hc; omega
      · refine ⟨fun hc => ?_, fun _ => ih ys h⟩
        have := UInt8.lt_iff_toNat_lt.mp hc; omega

theorem bytesLt_trans (a b c : List UInt8) (h1 : bytesLt a b = true) (h2 : bytesLt b c = true) :
    bytesLt a c = true := by
  induction a generalizing b c with
  | nil => cases c <;> cases b <;> simp_all [bytesLt]
  | cons x xs ih =>
    cases b with
    | nil => simp [bytesLt] at h1
    | cons y ys =>
      cases c with
      | nil => simp [bytesLt] at h2
      | cons z zs =>
        simp only [bytesLt, Bool.or_eq_true, decide_eq_true_eq, Bool.and_eq_true, beq_iff_eq] at h1 h2 ⊢
        rcases h1 with h1 | ⟨rfl, h1⟩ <;> rcases h2 with h2 | ⟨rfl, h2⟩
        · left
          have := UInt8.lt_iff_toNat_lt.mp h1; have := UInt8.lt_iff_toNat_lt.mp h2
          exact UInt8.lt_iff_toNat_lt.mpr (by omega)
        · left; exact h1
        · left; exact h2
        · right; exact ⟨rfl, ih ys zs h1 h2⟩

theorem bytesLe_total (a b : List UInt8) : bytesLe a b = true ∨ bytesLe b a = true := by
  unfold bytesLe
  rcases bytesLt_trichotomy a b with h | h | h
  · left; simp [bytesLt_asymm a b h]
  · subst h; left; simp [bytesLt_irrefl]
  · right; simp [bytesLt_asymm b a h]

theorem bytesLe_trans (a b c : List UInt8) (h1 : bytesLe a b = true) (h2 : bytesLe b c = true) :
    bytesLe a c = true := by
  unfold bytesLe at *
  simp only [Bool.not_eq_true', ] at *
  rcases bytesLt_trichotomy a b with h | h | h
  · rcases bytesLt_trichotomy b c with h' | h' | h'
    · exact bytesLt_asymm _ _ (bytesLt_trans _ _ _ h h')
    · subst h'; exact bytesLt_asymm _ _ h
    · rw [h2] at h'; cases h'
  · subst h; exact h2
  · rw [h1] at h; cases h

theorem bytesLe_antisymm (a b : List UInt8) (h1 : bytesLe a b = true) (h2 : bytesLe b a = true) : a = b := by
  unfold bytesLe at *
  simp only [Bool.not_eq_true'] at *
  rcases bytesLt_trichotomy a b with h | h | h
  · rw [h2] at h; cases h
  · exact h
  · rw [h1] at h; cases h

/-! ## the picking loop -/

theorem pickMode_foldl_spec (cnt : List UInt8 → Nat) (keys : List (List UInt8)) (acc : List UInt8 × Nat) :
    let r := keys.foldl (fun acc k => if cnt k > acc.2 then (k, cnt k) else acc) acc
    acc.2 ≤ r.2 ∧ (∀ k ∈ keys, cnt k ≤ r.2) ∧ (r = acc ∨ (r.1 ∈ keys ∧ cnt r.1 = r.2 ∧ acc.2 < r.2)) := by
  induction keys generalizing acc with
  | nil => simp
  | cons k ks ih =>
    simp only [List.foldl_cons]
    by_cases hc : cnt k > acc.2
    · simp only [hc, if_true]
      obtain ⟨h1, h2, h3⟩ := ih (k, cnt k)
      simp only at h1 h2 h3
      refine ⟨by omega, ?_, ?_⟩
      · intro k' hk'
        simp only [List.mem_cons] at hk'
        rcases hk' with rfl | hk'
        · exact h1
        · exact h2 k' hk'
      · right
        rcases h3 with h3 | ⟨h3a, h3b, h3c⟩
        · rw [h3]; exact ⟨by simp, rfl, hc⟩
        · exact ⟨by simp [h3a], h3b, by omega⟩
    · simp only [hc, if_false]
      obtain ⟨h1, h2, h3⟩ := ih acc
      refine ⟨h1, ?_, ?_⟩
      · intro k' hk'
        simp only [List.mem_cons] at hk'
        rcases hk' with rfl | hk'
        · omega
        · exact h2 k' hk'
      · rcases h3 with h3 | ⟨h3a, h3b, h3c⟩
        · left; exact h3
        · right; exact ⟨by simp [h3a], h3b, h3c⟩

/-- the mode count is the maximum count; a positive mode count belongs to the returned key -/
theorem pickMode_spec (cnt : List UInt8 → Nat) (keys : List (List UInt8)) :
    let r := pickMode cnt keys
    (∀ k ∈ keys, cnt k ≤ r.2) ∧ (r = ([], 0) ∨ (r.1 ∈ keys ∧ cnt r.1 = r.2 ∧ 0 < r.2)) := by
  have := pickMode_foldl_spec cnt keys ([], 0)
  exact ⟨this.2.1, this.2.2⟩

/-! ## eraseDups -/

theorem nodup_eraseDups (l : List (List UInt8)) : l.eraseDups.Nodup := by
  generalize hn : l.length = n
  induction n using Nat.strongRecOn generalizing l with
  | _ n ih =>
    cases l with
    | nil => simp
    | cons a as =>
      rw [List.eraseDups_cons]
      have hlen : (as.filter fun b => !b == a).length < n := by
        have := List.length_filter_le (fun b => !b == a) as
        simp at hn; omega
      refine List.nodup_cons.mpr ⟨?_, ih _ hlen _ rfl⟩
      simp [List.mem_eraseDups]

theorem eraseDups_perm {a b : List (List UInt8)} (h : a.Perm b) : a.eraseDups.Perm b.eraseDups := by
  rw [List.perm_iff_count]
  intro x
  rw [(nodup_eraseDups a).count, (nodup_eraseDups b).count]
  simp only [List.mem_eraseDups]
  have : x ∈ a ↔ x ∈ b := h.mem_iff
  by_cases hx : x ∈ a
  · simp [hx, this.mp hx]
  · have hb : x ∉ b := fun hb => hx (this.mpr hb)
    simp [hx, hb]

/-- the sorted key list only depends on the multiset of serialized values -/
theorem sortedKeys_perm' {a b : List (List UInt8)} (h : a.Perm b) :
    a.eraseDups.mergeSort bytesLe = b.eraseDups.mergeSort bytesLe := by
  apply List.Perm.eq_of_pairwise (le := fun x y => bytesLe x y = true)
  · intro x y _ _ h1 h2; exact bytesLe_antisymm x y h1 h2
  · exact List.pairwise_mergeSort (fun x y z => bytesLe_trans x y z) (fun x y => by
      simpa using bytesLe_total x y) _
  · exact List.pairwise_mergeSort (fun x y z => bytesLe_trans x y z) (fun x y => by
      simpa using bytesLe_total x y) _
  · exact ((List.mergeSort_perm _ _).trans (eraseDups_perm h)).trans (List.mergeSort_perm _ _).symm

theorem countKey_perm {a b : List (List UInt8 × SV)} (h : a.Perm b) (k : List UInt8) :
    countKey a k = countKey b k := by
  unfold countKey
  exact (h.filter _).length_eq

theorem sortedKeys_perm {a b : List (List UInt8 × SV)} (h : a.Perm b) : sortedKeys a = sortedKeys b :=
  sortedKeys_perm' (h.map _)

theorem modeOf_perm {a b : List (List UInt8 × SV)} (h : a.Perm b) : modeOf a = modeOf b := by
  unfold modeOf
  rw [sortedKeys_perm h]
  congr 1
  funext k; exact countKey_perm h k

/-- specification of the mode: its count is maximal; if positive it is the count of the mode key,
    which is the serialized form of some bucket entry -/
theorem modeOf_spec (keyed : List (List UInt8 × SV)) :
    (∀ e ∈ keyed, countKey keyed e.1 ≤ (modeOf keyed).2) ∧
    (modeOf keyed = ([], 0) ∨
      ((∃ e ∈ keyed, e.1 = (modeOf keyed).1) ∧ countKey keyed (modeOf keyed).1 = (modeOf keyed).2 ∧ 0 < (modeOf keyed).2)) := by
  have h := pickMode_spec (countKey keyed) (sortedKeys keyed)
  simp only at h
  have hmem : ∀ k, k ∈ sortedKeys keyed ↔ ∃ e ∈ keyed, e.1 = k := by
    intro k
    unfold sortedKeys
    rw [(List.mergeSort_perm _ _).mem_iff, List.mem_eraseDups, List.mem_map]
  refine ⟨fun e he => h.1 e.1 ((hmem _).mpr ⟨e, he, rfl⟩), ?_⟩
  rcases h.2 with h0 | ⟨h1, h2, h3⟩
  · left; exact h0
  · right; exact ⟨(hmem _).mp h1, h2, h3⟩

end DSV.LLO
