import DSV.LLO.Plugin
import DSV.Lemmas.GoMap
/-!
# `decodeObservations`: the tallies count observers

`counted` is the sub-list of observations that contribute to the tallies: an observation that
carries an attestation while no verified one has been seen yet is dropped entirely when its
attestation does not verify.
-/
namespace DSV.LLO
open DSV DSV.GoMap

/-- state of the filter: (has a verified attestation been seen, contributing observations so far) -/
def countedStep (env : Env) (acc : Bool × List Obs) (o : Obs) : Bool × List Obs :=
  if o.attested.length != 0 && !acc.1 then
    match env.check o.attested with
    | none => acc
    | some _ => (true, acc.2 ++ [o])
  else (acc.1, acc.2 ++ [o])

def countedAcc (env : Env) (obs : List Obs) : Bool × List Obs := obs.foldl (countedStep env) (false, [])

/-- the observations that contribute to the tallies -/
def counted (env : Env) (obs : List Obs) : List Obs := (countedAcc env obs).2

theorem counted_sublist_aux (env : Env) (obs : List Obs) (acc : Bool × List Obs) :
    ∀ o ∈ (obs.foldl (countedStep env) acc).2, o ∈ acc.2 ∨ o ∈ obs := by
  induction obs generalizing acc with
  | nil => intro o ho; exact Or.inl ho
  | cons x xs ih =>
    intro o ho
    simp only [List.foldl_cons] at ho
    rcases ih _ o ho with h | h
    · unfold countedStep at h
      split at h
      · split at h
        · exact Or.inl h
        · simp only [List.mem_append, List.mem_singleton] at h
          rcases h with h | rfl
          · exact Or.inl h
          · exact Or.inr (by simp)
      · simp only [List.mem_append, List.mem_singleton] at h
        rcases h with h | rfl
        · exact Or.inl h
        · exact Or.inr (by simp)
    · exact Or.inr (by simp [h])

theorem mem_counted (env : Env) (obs : List Obs) (o : Obs) (h : o ∈ counted env obs) : o ∈ obs := by
  rcases counted_sublist_aux env obs (false, []) o h with h | h
  · cases h
  · exact h

theorem countedStep_snd (env : Env) (acc : Bool × List Obs) (x : Obs) :
    (countedStep env acc x).2 = acc.2 ∨ (countedStep env acc x).2 = acc.2 ++ [x] := by
  unfold countedStep
  split
  · split
    · left; rfl
    · right; rfl
  · right; rfl

theorem counted_foldl_sublist (env : Env) (obs : List Obs) (acc : Bool × List Obs) :
    ∃ rest, (obs.foldl (countedStep env) acc).2 = acc.2 ++ rest ∧ rest.Sublist obs := by
  induction obs generalizing acc with
  | nil => exact ⟨[], by simp, List.Sublist.refl _⟩
  | cons x xs ih =>
    simp only [List.foldl_cons]
    obtain ⟨rest, h1, h2⟩ := ih (countedStep env acc x)
    rcases countedStep_snd env acc x with h | h
    · rw [h] at h1; exact ⟨rest, h1, h2.cons _⟩
    · rw [h] at h1; exact ⟨x :: rest, by simpa using h1, h2.cons_cons _⟩

theorem counted_sublist (env : Env) (obs : List Obs) : (counted env obs).Sublist obs := by
  obtain ⟨rest, h1, h2⟩ := counted_foldl_sublist env obs (false, [])
  unfold counted countedAcc
  rw [h1]; simpa using h2

/-- number of votes of the contributing observations for an item -/
def votesFor (p : Obs → Bool) (l : List Obs) : Nat := l.countP p

def votesRemove (c : Nat) (o : Obs) : Bool := o.removes.contains c
def votesUpdate (env : Env) (h : Hash) (o : Obs) : Bool := o.updates.any (fun e => env.hashOf e.1 e.2 == h)

/-- observations are well-formed: distinct removal ids, distinct update ids (they are Go maps), and
    within one observation distinct update entries have distinct hashes -/
def ObsWF (env : Env) (o : Obs) : Prop :=
  o.removes.Nodup ∧ (o.updates.map fun e => env.hashOf e.1 e.2).Nodup

theorem getD_incr {κ : Type} [DecidableEq κ] (m : GoMap κ Nat) (k k' : κ) :
    ((incr m k).get? k').getD 0 = (m.get? k').getD 0 + (if k' = k then 1 else 0) := by
  unfold incr
  rw [get?_set]
  by_cases h : k' = k
  · subst h; simp
  · simp [h]

theorem getD_foldl_incr {κ : Type} [DecidableEq κ] (m : GoMap κ Nat) (ks : List κ) (k' : κ) :
    ((ks.foldl incr m).get? k').getD 0 = (m.get? k').getD 0 + ks.count k' := by
  induction ks generalizing m with
  | nil => simp
  | cons k ks ih =>
    simp only [List.foldl_cons, ih, getD_incr, List.count_cons]
    by_cases h : k' = k
    · subst h; simp; omega
    · have : ¬ (k == k') = true := by simp; exact fun e => h e.symm
      simp [h, this]

/-- loop invariant of `decodeObservations` relating the tallies to the contributing observations -/
structure TallyInv (env : Env) (acc : Bool × List Obs) (t : Tally) : Prop where
  seen : t.validRR.isSome = acc.1
  tss : t.tss = acc.2.map (·.ts)
  retire : t.retireVotes = votesFor (·.shouldRetire) acc.2
  rm : ∀ c, (t.rmVotes.get? c).getD 0 = votesFor (votesRemove c) acc.2
  upd : ∀ h, (t.updVotes.get? h).getD 0 = votesFor (votesUpdate env h) acc.2
  defsFrom : ∀ h e, t.updDefs.get? h = some e → env.hashOf e.1 e.2 = h ∧ ∃ o ∈ acc.2, e ∈ o.updates
  wfRm : WF t.rmVotes
  wfUpd : WF t.updDefs

theorem count_eq_of_nodup {α : Type} [BEq α] [LawfulBEq α] (l : List α) (h : l.Nodup) (a : α) :
    l.count a = if l.contains a then 1 else 0 := by
  rw [h.count]
  by_cases hm : a ∈ l <;> simp [hm]

theorem addUpdates_fields (env : Env) (t : Tally) (us : GoMap Nat ChanDef) :
    (addUpdates env t us).tss = t.tss ∧ (addUpdates env t us).validRR = t.validRR ∧
    (addUpdates env t us).retireVotes = t.retireVotes ∧ (addUpdates env t us).rmVotes = t.rmVotes ∧
    (addUpdates env t us).streamObs = t.streamObs := by
  unfold addUpdates
  induction us generalizing t with
  | nil => simp
  | cons e es ih =>
    simp only [List.foldl_cons]
    have := ih { t with updVotes := incr t.updVotes (env.hashOf e.1 e.2), updDefs := t.updDefs.set (env.hashOf e.1 e.2) (e.1, e.2) }
    simpa using this

theorem addUpdates_votes (env : Env) (t : Tally) (us : GoMap Nat ChanDef) (h : Hash) :
    (((addUpdates env t us).updVotes).get? h).getD 0 =
      (t.updVotes.get? h).getD 0 + (us.map fun e => env.hashOf e.1 e.2).count h := by
  unfold addUpdates
  induction us generalizing t with
  | nil => simp
  | cons e es ih =>
    simp only [List.foldl_cons, List.map_cons, List.count_cons]
    rw [ih]
    simp only [getD_incr]
    by_cases hh : h = env.hashOf e.1 e.2
    · subst hh; simp; omega
    · have : ¬ (env.hashOf e.1 e.2 == h) = true := by simp; exact fun e' => hh e'.symm
      simp [hh, this]

theorem wf_foldl_incr {κ : Type} [DecidableEq κ] (m : GoMap κ Nat) (ks : List κ) (h : WF m) : WF (ks.foldl incr m) := by
  induction ks generalizing m with
  | nil => exact h
  | cons k ks ih => exact ih _ (wf_set _ _ _ h)

theorem addUpdates_wf (env : Env) (t : Tally) (us : GoMap Nat ChanDef) (h : WF t.updDefs) :
    WF (addUpdates env t us).updDefs := by
  unfold addUpdates
  induction us generalizing t with
  | nil => exact h
  | cons u us ih => simp only [List.foldl_cons]; exact ih _ (wf_set _ _ _ h)

theorem addUpdates_defs (env : Env) (t : Tally) (us : GoMap Nat ChanDef) (h : Hash) (e : Nat × ChanDef)
    (hg : (addUpdates env t us).updDefs.get? h = some e) :
    t.updDefs.get? h = some e ∨ (env.hashOf e.1 e.2 = h ∧ e ∈ us) := by
  unfold addUpdates at hg
  induction us generalizing t with
  | nil => left; simpa using hg
  | cons u us ih =>
    simp only [List.foldl_cons] at hg
    rcases ih _ hg with h1 | ⟨h1, h2⟩
    · simp only at h1
      rw [get?_set] at h1
      by_cases hh : h = env.hashOf u.1 u.2
      · simp only [hh, if_true, Option.some.injEq] at h1
        right; subst h1; exact ⟨hh.symm, by simp⟩
      · simp only [hh, if_false] at h1
        left; exact h1
    · right; exact ⟨h1, by simp [h2]⟩

/-- the tally after the scalar updates of one observation -/
def tallyBase (t : Tally) (o : Obs) : Tally :=
  { t with retireVotes := t.retireVotes + (if o.shouldRetire then 1 else 0), tss := t.tss ++ [o.ts],
           rmVotes := o.removes.foldl incr t.rmVotes }

theorem tallyAdd_eq (env : Env) (t : Tally) (o : Obs) :
    tallyAdd env t o = { addUpdates env (tallyBase t o) o.updates with
      streamObs := o.values.foldl (fun m e => m.set e.1 ((m.get? e.1).getD [] ++ [some e.2]))
        (addUpdates env (tallyBase t o) o.updates).streamObs } := by
  unfold tallyAdd tallyBase
  cases o.shouldRetire <;> simp

/-- counting one more observation extends the invariant -/
theorem tallyAdd_inv (env : Env) (b : Bool) (l : List Obs) (t : Tally) (o : Obs) (hwf : ObsWF env o)
    (hinv : TallyInv env (b, l) t) : TallyInv env (b, l ++ [o]) (tallyAdd env t o) := by
  obtain ⟨h1, h2, h3, h4, h5, h7, h8, h9⟩ := hinv
  simp only at h1 h2 h3 h4 h5 h7
  rw [tallyAdd_eq]
  obtain ⟨f1, f2, f3, f4, _⟩ := addUpdates_fields env (tallyBase t o) o.updates
  constructor
  · show (addUpdates env (tallyBase t o) o.updates).validRR.isSome = b
    rw [f2]; exact h1
  · show (addUpdates env (tallyBase t o) o.updates).tss = _
    rw [f1]
    simp only [tallyBase, h2, List.map_append, List.map_cons, List.map_nil]
  · show (addUpdates env (tallyBase t o) o.updates).retireVotes = _
    rw [f3]
    simp only [tallyBase, h3, votesFor, List.countP_append, List.countP_cons, List.countP_nil]
    cases o.shouldRetire <;> simp
  · intro c
    show (((addUpdates env (tallyBase t o) o.updates).rmVotes).get? c).getD 0 = _
    rw [f4]
    simp only [tallyBase, getD_foldl_incr, h4 c, votesFor, List.countP_append, List.countP_cons, List.countP_nil, votesRemove]
    rw [count_eq_of_nodup _ hwf.1]
    simp
  · intro h
    show (((addUpdates env (tallyBase t o) o.updates).updVotes).get? h).getD 0 = _
    rw [addUpdates_votes]
    simp only [tallyBase, h5 h, votesFor, List.countP_append, List.countP_cons, List.countP_nil, votesUpdate]
    rw [count_eq_of_nodup _ hwf.2]
    have : (List.map (fun e => env.hashOf e.1 e.2) o.updates).contains h = o.updates.any (fun e => env.hashOf e.1 e.2 == h) := by
      rw [List.contains_eq_any_beq, List.any_map]
      congr 1; funext e; simp [Function.comp, BEq.comm]
    rw [this]
    by_cases hany : (o.updates.any fun e => env.hashOf e.1 e.2 == h) = true <;> simp [hany]
  · intro h e hg
    have hg' : (addUpdates env (tallyBase t o) o.updates).updDefs.get? h = some e := hg
    rcases addUpdates_defs env _ o.updates h e hg' with hd | ⟨hd1, hd2⟩
    · simp only [tallyBase] at hd
      obtain ⟨hh, o', ho', he⟩ := h7 h e hd
      exact ⟨hh, o', by simp [ho'], he⟩
    · exact ⟨hd1, o, by simp, hd2⟩
  · show WF (addUpdates env (tallyBase t o) o.updates).rmVotes
    rw [f4]; exact wf_foldl_incr _ _ h8
  · show WF (addUpdates env (tallyBase t o) o.updates).updDefs
    exact addUpdates_wf env _ _ h9

theorem tallyAdd_validRR (env : Env) (t : Tally) (o : Obs) : (tallyAdd env t o).validRR = t.validRR := by
  rw [tallyAdd_eq]
  exact (addUpdates_fields env (tallyBase t o) o.updates).2.1

/-- where the verified retirement report came from -/
def RROrigin (env : Env) (l : List Obs) (t : Tally) : Prop :=
  ∀ rr, t.validRR = some rr → ∃ o ∈ l, env.check o.attested = some rr

theorem tallyStep_inv (env : Env) (cfg : Cfg) (acc : Bool × List Obs) (t t' : Tally) (o : Obs)
    (hwf : ObsWF env o) (hinv : TallyInv env acc t) (horig : RROrigin env acc.2 t)
    (hs : tallyStep env cfg t o = .ok t') :
    TallyInv env (countedStep env acc o) t' ∧ RROrigin env (countedStep env acc o).2 t' := by
  unfold tallyStep at hs
  unfold countedStep
  have hseen := hinv.seen
  by_cases hatt : (o.attested.length != 0 && t.validRR.isNone) = true
  · have hacc : (o.attested.length != 0 && !acc.1) = true := by
      rw [← hseen]
      cases h1 : (o.attested.length != 0) <;> cases h2 : t.validRR <;> simp_all
    simp only [hatt, if_true] at hs
    simp only [hacc, if_true]
    by_cases hp : cfg.hasPred = true
    · simp only [hp, Bool.not_true, Bool.false_eq_true, if_false] at hs
      cases hc : env.check o.attested with
      | none =>
        simp only [hc] at hs
        cases hs
        exact ⟨hinv, horig⟩
      | some rr =>
        simp only [hc] at hs
        cases hs
        obtain ⟨h1, h2, h3, h4, h5, h7, h8, h9⟩ := hinv
        refine ⟨tallyAdd_inv env true acc.2 _ o hwf ⟨rfl, h2, h3, h4, h5, h7, h8, h9⟩, ?_⟩
        intro rr' hrr'
        rw [tallyAdd_validRR] at hrr'
        simp only [Option.some.injEq] at hrr'
        subst hrr'
        exact ⟨o, by simp, hc⟩
    · simp [hp] at hs
  · have hacc : (o.attested.length != 0 && !acc.1) = false := by
      rw [← hseen]
      cases h1 : (o.attested.length != 0) <;> cases h2 : t.validRR <;> simp_all
    simp only [hatt, Bool.false_eq_true, if_false] at hs
    simp only [hacc, Bool.false_eq_true, if_false]
    cases hs
    refine ⟨tallyAdd_inv env acc.1 acc.2 t o hwf hinv, ?_⟩
    intro rr hrr
    rw [tallyAdd_validRR] at hrr
    obtain ⟨o', ho', hc⟩ := horig rr hrr
    exact ⟨o', by simp [ho'], hc⟩

/-- **specification of `decodeObservations`**: the tallies count the contributing observations -/
theorem tally_spec (env : Env) (cfg : Cfg) (obs : List Obs) (t : Tally) (hwf : ∀ o ∈ obs, ObsWF env o)
    (h : tally env cfg obs = .ok t) :
    TallyInv env (countedAcc env obs) t ∧ RROrigin env (counted env obs) t := by
  unfold tally at h
  unfold counted countedAcc
  have gen : ∀ (l : List Obs) (acc : Bool × List Obs) (t0 t : Tally), (∀ o ∈ l, ObsWF env o) →
      TallyInv env acc t0 → RROrigin env acc.2 t0 →
      l.foldl (fun (a : GoRes Tally) o => a.bind (fun t => tallyStep env cfg t o)) (GoRes.ok t0) = GoRes.ok t →
      TallyInv env (l.foldl (countedStep env) acc) t ∧ RROrigin env (l.foldl (countedStep env) acc).2 t := by
    intro l
    induction l with
    | nil =>
      intro acc t0 t _ hi ho hf
      simp only [List.foldl_nil] at hf ⊢
      cases hf; exact ⟨hi, ho⟩
    | cons x xs ih =>
      intro acc t0 t hw hi ho hf
      simp only [List.foldl_cons] at hf ⊢
      have hb : (GoRes.ok t0).bind (fun t => tallyStep env cfg t x) = tallyStep env cfg t0 x := rfl
      rw [hb] at hf
      cases hs : tallyStep env cfg t0 x with
      | ok t1 =>
        rw [hs] at hf
        obtain ⟨i1, o1⟩ := tallyStep_inv env cfg acc t0 t1 x (hw x (by simp)) hi ho hs
        exact ih _ t1 t (fun o ho => hw o (by simp [ho])) i1 o1 hf
      | err e =>
        rw [hs] at hf
        exfalso
        have : ∀ (l : List Obs), l.foldl (fun (a : GoRes Tally) o => a.bind (fun t => tallyStep env cfg t o)) (GoRes.err e) = GoRes.err e := by
          intro l; induction l with
          | nil => rfl
          | cons y ys ih' => simp only [List.foldl_cons]; exact ih'
        rw [this] at hf; cases hf
      | panic =>
        rw [hs] at hf
        exfalso
        have : ∀ (l : List Obs), l.foldl (fun (a : GoRes Tally) o => a.bind (fun t => tallyStep env cfg t o)) GoRes.panic = GoRes.panic := by
          intro l; induction l with
          | nil => rfl
          | cons y ys ih' => simp only [List.foldl_cons]; exact ih'
        rw [this] at hf; cases hf
  exact gen obs (false, []) {} t hwf
    ⟨rfl, rfl, rfl, fun _ => rfl, fun _ => rfl, fun _ _ h => by simp at h, by simp [WF, keys], by simp [WF, keys]⟩
    (fun _ h => by cases h) h

theorem votesFor_counted_le (env : Env) (obs : List Obs) (p : Obs → Bool) :
    votesFor p (counted env obs) ≤ votesFor p obs :=
  (counted_sublist env obs).countP_le

end DSV.LLO

namespace DSV.LLO
open DSV DSV.GoMap

/-! ## the per-stream value lists collected by `decodeObservations` -/

/-- what one observation contributes to stream `sid` -/
def obsValue (sid : Nat) (o : Obs) : Option (Option SV) := (o.values.get? sid).map some

theorem foldl_values_getD (vals : GoMap Nat SV) (hwf : WF vals) (m : GoMap Nat (List (Option SV))) (sid : Nat) :
    ((vals.foldl (fun m e => m.set e.1 ((m.get? e.1).getD [] ++ [some e.2])) m).get? sid).getD [] =
      (m.get? sid).getD [] ++ (match vals.get? sid with | some v => [some v] | none => []) := by
  induction vals generalizing m with
  | nil => simp
  | cons e es ih =>
    unfold WF keys at hwf
    simp only [List.map_cons, List.nodup_cons] at hwf
    simp only [List.foldl_cons]
    rw [ih hwf.2, get?_set, get?_cons]
    by_cases h : sid = e.1
    · subst h
      have hn : get? es e.1 = none := get?_eq_none_of_not_mem_keys es e.1 hwf.1
      simp [hn]
    · have h' : ¬ e.1 = sid := fun x => h x.symm
      simp [h, h']

theorem tallyAdd_streamObs (env : Env) (t : Tally) (o : Obs) (hwf : WF o.values) (sid : Nat) :
    ((tallyAdd env t o).streamObs.get? sid).getD [] =
      (t.streamObs.get? sid).getD [] ++ (match obsValue sid o with | some v => [v] | none => []) := by
  rw [tallyAdd_eq]
  simp only
  rw [foldl_values_getD o.values hwf, (addUpdates_fields env (tallyBase t o) o.updates).2.2.2.2]
  unfold obsValue tallyBase
  cases o.values.get? sid <;> simp

theorem tallyStep_streamObs (env : Env) (cfg : Cfg) (acc : Bool × List Obs) (t0 t1 : Tally) (x : Obs) (sid : Nat)
    (hwx : WF x.values) (hseen : t0.validRR.isSome = acc.1)
    (hs : (t0.streamObs.get? sid).getD [] = acc.2.filterMap (obsValue sid))
    (h : tallyStep env cfg t0 x = .ok t1) :
    t1.validRR.isSome = (countedStep env acc x).1 ∧
    (t1.streamObs.get? sid).getD [] = (countedStep env acc x).2.filterMap (obsValue sid) := by
  have addInv : ∀ (t' : Tally), (t'.streamObs.get? sid).getD [] = acc.2.filterMap (obsValue sid) →
      ((tallyAdd env t' x).streamObs.get? sid).getD [] = (acc.2 ++ [x]).filterMap (obsValue sid) := by
    intro t' h1
    rw [tallyAdd_streamObs env t' x hwx sid, h1, List.filterMap_append]
    congr 1
    simp only [List.filterMap_cons, List.filterMap_nil]
    cases obsValue sid x <;> rfl
  unfold tallyStep at h
  unfold countedStep
  by_cases hatt : (x.attested.length != 0 && t0.validRR.isNone) = true
  · have hacc : (x.attested.length != 0 && !acc.1) = true := by
      rw [← hseen]
      cases h1 : (x.attested.length != 0) <;> cases h2 : t0.validRR <;> simp_all
    simp only [hatt, if_true] at h
    simp only [hacc, if_true]
    by_cases hp : cfg.hasPred = true
    · simp only [hp, Bool.not_true, Bool.false_eq_true, if_false] at h
      cases hc : env.check x.attested with
      | none =>
        simp only [hc] at h
        cases h
        exact ⟨hseen, hs⟩
      | some rr =>
        simp only [hc] at h
        cases h
        exact ⟨by rw [tallyAdd_validRR]; rfl, addInv { t0 with validRR := some rr } hs⟩
    · simp [hp] at h
  · have hacc : (x.attested.length != 0 && !acc.1) = false := by
      rw [← hseen]
      cases h1 : (x.attested.length != 0) <;> cases h2 : t0.validRR <;> simp_all
    simp only [hatt, Bool.false_eq_true, if_false] at h
    simp only [hacc, Bool.false_eq_true, if_false]
    cases h
    exact ⟨by rw [tallyAdd_validRR]; exact hseen, addInv t0 hs⟩

/-- **the value list of a stream is exactly what the contributing observations reported for it,
    in order** -/
theorem tally_streamObs (env : Env) (cfg : Cfg) (obs : List Obs) (t : Tally)
    (hwf : ∀ o ∈ obs, WF o.values) (h : tally env cfg obs = .ok t) (sid : Nat) :
    (t.streamObs.get? sid).getD [] = (counted env obs).filterMap (obsValue sid) := by
  unfold tally at h
  unfold counted countedAcc
  have gen : ∀ (l : List Obs) (acc : Bool × List Obs) (t0 t : Tally), (∀ o ∈ l, WF o.values) →
      t0.validRR.isSome = acc.1 →
      (t0.streamObs.get? sid).getD [] = acc.2.filterMap (obsValue sid) →
      l.foldl (fun (a : GoRes Tally) o => a.bind (fun t => tallyStep env cfg t o)) (GoRes.ok t0) = GoRes.ok t →
      (t.streamObs.get? sid).getD [] = (l.foldl (countedStep env) acc).2.filterMap (obsValue sid) := by
    intro l
    induction l with
    | nil =>
      intro acc t0 t _ _ hs hf
      simp only [List.foldl_nil] at hf ⊢
      cases hf; exact hs
    | cons x xs ih =>
      intro acc t0 t hw hseen hs hf
      simp only [List.foldl_cons] at hf ⊢
      have hb : (GoRes.ok t0).bind (fun t => tallyStep env cfg t x) = tallyStep env cfg t0 x := rfl
      rw [hb] at hf
      cases hst : tallyStep env cfg t0 x with
      | ok t1 =>
        rw [hst] at hf
        obtain ⟨h1, h2⟩ := tallyStep_streamObs env cfg acc t0 t1 x sid (hw x (by simp)) hseen hs hst
        exact ih _ t1 t (fun o ho => hw o (by simp [ho])) h1 h2 hf
      | err e =>
        rw [hst] at hf
        exfalso
        have : ∀ (l : List Obs), l.foldl (fun (a : GoRes Tally) o => a.bind (fun t => tallyStep env cfg t o)) (GoRes.err e) = GoRes.err e := by
          intro l; induction l with
          | nil => rfl
          | cons y ys ih' => simp only [List.foldl_cons]; exact ih'
        rw [this] at hf; cases hf
      | panic =>
        rw [hst] at hf
        exfalso
        have : ∀ (l : List Obs), l.foldl (fun (a : GoRes Tally) o => a.bind (fun t => tallyStep env cfg t o)) GoRes.panic = GoRes.panic := by
          intro l; induction l with
          | nil => rfl
          | cons y ys ih' => simp only [List.foldl_cons]; exact ih'
        rw [this] at hf; cases hf
  exact gen obs (false, []) {} t hwf rfl (by simp) h

end DSV.LLO
