import DSV.Cost.Wire
/-!
# Lemmas about the byte-level decode cost model (`DSV.Cost.Wire`)

* varint reader: consumes input, inverts the encoder `varint` of `DSV.LLO.Wire`;
* field parser: the `raw` sizes of the fields of a message add up to the message length, a payload
  is strictly shorter than its field;
* message folds: bytes copied while parsing ≤ message length, every extracted `bytes` value is no
  longer than the message;
* decoders: cost bounds per decoder; with the nesting limit `L` a timestamped value costs at most
  `(2·(L − depth) + 9)·|data| + 3`;
* the nested family `nestBytes d`: exact parse of one level, size between `12 + 8d` and `12 + 24d`,
  and — without the limit — at least `(d+1)²` bytes scanned.
-/
namespace DSV.Cost
open DSV DSV.LLO

theorem varint_small (n : Nat) (h : n < 128) : varint n = [UInt8.ofNat n] := by
  rw [varint]; simp [h]

theorem varint_big (n : Nat) (h : ¬ n < 128) : varint n = UInt8.ofNat (n % 128 + 128) :: varint (n / 128) := by
  rw [varint]; simp [h]

theorem readVarint_length : ∀ (k : Nat) (b : Bytes) (v : Nat) (r : Bytes),
    readVarint k b = some (v, r) → r.length < b.length := by
  intro k
  induction k with
  | zero => intro b v r h; simp [readVarint] at h
  | succ k ih =>
    intro b v r h
    cases b with
    | nil => simp [readVarint] at h
    | cons x rest =>
      simp only [readVarint] at h
      split at h
      · split at h
        · cases h
        · cases h; simp
      · split at h
        · rename_i v' r' hr
          cases h
          have := ih rest v' r hr
          simp; omega
        · cases h

theorem toNat_ofNat_lt (m : Nat) (h : m < 256) : (UInt8.ofNat m).toNat = m := by
  simp [Nat.mod_eq_of_lt h]

theorem readVarint_varint : ∀ (k n : Nat) (rest : Bytes), n < 128 ^ k →
    readVarint (k + 1) (varint n ++ rest) = some (n, rest) := by
  intro k
  induction k with
  | zero =>
    intro n rest h
    have h0 : n = 0 := by simpa using h
    subst h0
    rw [varint_small 0 (by omega)]
    simp [readVarint]
  | succ k ih =>
    intro n rest h
    by_cases hn : n < 128
    · rw [varint_small n hn]
      simp only [List.cons_append, List.nil_append, readVarint]
      rw [toNat_ofNat_lt n (by omega)]
      simp [hn]
    · rw [varint_big n hn]
      simp only [List.cons_append, readVarint]
      rw [toNat_ofNat_lt (n % 128 + 128) (by omega)]
      have hlt : ¬ (n % 128 + 128 < 128) := by omega
      simp only [hlt, if_false]
      have hq : n / 128 < 128 ^ k := by
        rw [Nat.pow_succ] at h
        exact Nat.div_lt_of_lt_mul (by omega)
      rw [ih (n / 128) rest hq]
      simp only [Option.some.injEq, Prod.mk.injEq, and_true]
      omega

/-! ### fields -/

def rawSum (fs : List Field) : Nat := (fs.map Field.raw).sum

@[simp] theorem rawSum_nil : rawSum [] = 0 := rfl
@[simp] theorem rawSum_cons (f : Field) (fs : List Field) : rawSum (f :: fs) = f.raw + rawSum fs := by
  simp [rawSum]

/-- a field occupies `raw` bytes of the input, at least one more than its payload -/
theorem readField_spec {b r : Bytes} {f : Field} (h : readField b = some (f, r)) :
    f.raw + r.length = b.length ∧ f.payload.length < f.raw := by
  unfold readField at h
  split at h
  · cases h
  · rename_i tag r0 htag
    have h0 := readVarint_length _ _ _ _ htag
    simp only at h
    split at h
    · cases h
    · split at h
      · split at h
        · rename_i v r' hv
          have h1 := readVarint_length _ _ _ _ hv
          cases h
          simp only [List.length_nil]
          omega
        · cases h
      · split at h
        · split at h
          · cases h
          · cases h
            simp only [List.length_drop, List.length_nil]
            omega
        · split at h
          · split at h
            · rename_i n r' hn
              have h1 := readVarint_length _ _ _ _ hn
              split at h
              · rename_i hle
                cases h
                simp only [List.length_drop, List.length_take]
                omega
              · cases h
            · cases h
          · split at h
            · split at h
              · cases h
              · cases h
                simp only [List.length_drop, List.length_nil]
                omega
            · cases h

theorem parseFields_spec : ∀ (k : Nat) (b : Bytes) (fs : List Field), parseFields k b = some fs →
    rawSum fs = b.length ∧ ∀ f ∈ fs, f.payload.length < f.raw := by
  intro k
  induction k with
  | zero =>
    intro b fs h
    cases b with
    | nil => simp [parseFields] at h; subst h; simp
    | cons x xs => simp [parseFields] at h
  | succ k ih =>
    intro b fs h
    cases b with
    | nil => simp [parseFields] at h; subst h; simp
    | cons x xs =>
      simp only [parseFields] at h
      split at h
      · cases h
      · rename_i f r hf
        split at h
        · rename_i fs' hfs
          cases h
          obtain ⟨e1, e2⟩ := readField_spec hf
          obtain ⟨i1, i2⟩ := ih r fs' hfs
          constructor
          · simp only [rawSum_cons]; omega
          · intro g hg
            rcases List.mem_cons.1 hg with rfl | hg
            · exact e2
            · exact i2 g hg
        · cases h

theorem parseMsg_spec {b : Bytes} {fs : List Field} (h : parseMsg b = some fs) :
    rawSum fs = b.length ∧ ∀ f ∈ fs, f.payload.length < f.raw := parseFields_spec _ _ _ h

/-! ### `LLOStreamValue` -/

theorem svFold_bound : ∀ (fs : List Field) (acc : SVMsg), (∀ f ∈ fs, f.payload.length < f.raw) →
    (fs.foldl svStep acc).copied ≤ acc.copied + rawSum fs ∧
    (fs.foldl svStep acc).value.length ≤ max acc.value.length (rawSum fs) := by
  intro fs
  induction fs with
  | nil => intro acc _; simp
  | cons f fs ih =>
    intro acc hp
    have hf := hp f List.mem_cons_self
    have ih' := ih (svStep acc f) (fun g hg => hp g (List.mem_cons_of_mem _ hg))
    simp only [List.foldl_cons, rawSum_cons]
    have hs : (svStep acc f).copied ≤ acc.copied + f.raw ∧
        (svStep acc f).value.length ≤ max acc.value.length f.raw := by
      unfold svStep
      split
      · simp only; omega
      · split
        · simp only; omega
        · simp only; omega
    omega

theorem parseSVInto_bound {acc s : SVMsg} {b : Bytes} (h : parseSVInto acc b = some s) :
    s.copied ≤ acc.copied + b.length ∧ s.value.length ≤ max acc.value.length b.length := by
  unfold parseSVInto at h
  split at h
  · rename_i fs hfs
    cases h
    obtain ⟨e1, e2⟩ := parseMsg_spec hfs
    have := svFold_bound fs acc e2
    rw [e1] at this
    exact this
  · cases h

/-! ### `LLOTimestampedStreamValue` -/

def vlen (m : TSVMsg) : Nat := match m.sv with | some s => s.value.length | none => 0

theorem tsvFold_none (fs : List Field) : fs.foldl tsvStep none = none := by
  induction fs with
  | nil => rfl
  | cons f fs ih => simpa [List.foldl_cons, tsvStep] using ih

theorem tsvStep_bound {m m' : TSVMsg} {f : Field} (hf : f.payload.length < f.raw)
    (h : tsvStep (some m) f = some m') :
    m'.totalCopied ≤ m.totalCopied + f.raw ∧ vlen m' ≤ max (vlen m) f.raw := by
  unfold tsvStep at h
  simp only at h
  split at h
  · cases h; exact ⟨by omega, by omega⟩
  · split at h
    · split at h
      · rename_i s hs
        cases h
        have hb := parseSVInto_bound hs
        cases hm : m.sv with
        | none =>
          simp only [hm, Option.getD_none, List.length_nil] at hb
          simp only [TSVMsg.totalCopied, vlen, hm]
          omega
        | some s0 =>
          simp only [hm, Option.getD_some] at hb
          simp only [TSVMsg.totalCopied, vlen, hm]
          omega
      · cases h
    · cases h
      simp only [TSVMsg.totalCopied, vlen]
      omega

theorem tsvFold_bound : ∀ (fs : List Field) (m m' : TSVMsg), (∀ f ∈ fs, f.payload.length < f.raw) →
    fs.foldl tsvStep (some m) = some m' →
    m'.totalCopied ≤ m.totalCopied + rawSum fs ∧ vlen m' ≤ max (vlen m) (rawSum fs) := by
  intro fs
  induction fs with
  | nil => intro m m' _ h; simp at h; subst h; simp
  | cons f fs ih =>
    intro m m' hp h
    simp only [List.foldl_cons] at h
    cases hs : tsvStep (some m) f with
    | none => rw [hs, tsvFold_none] at h; cases h
    | some m1 =>
      rw [hs] at h
      have b1 := tsvStep_bound (hp f List.mem_cons_self) hs
      have b2 := ih m1 m' (fun g hg => hp g (List.mem_cons_of_mem _ hg)) h
      simp only [rawSum_cons]
      omega

theorem parseTSVMsg_bound {b : Bytes} {m : TSVMsg} (h : parseTSVMsg b = some m) :
    m.totalCopied ≤ b.length ∧ vlen m ≤ b.length := by
  unfold parseTSVMsg at h
  split at h
  · rename_i fs hfs
    obtain ⟨e1, e2⟩ := parseMsg_spec hfs
    have := tsvFold_bound fs ⟨none, 0⟩ m e2 h
    rw [e1] at this
    simp only [TSVMsg.totalCopied, vlen] at this ⊢
    omega
  · cases h

/-! ### `LLOStreamValueQuote` -/

theorem qFold_bound : ∀ (fs : List Field) (acc : QMsg), (∀ f ∈ fs, f.payload.length < f.raw) →
    (fs.foldl qStep acc).copied ≤ acc.copied + rawSum fs ∧
    (fs.foldl qStep acc).bid.length + (fs.foldl qStep acc).bm.length + (fs.foldl qStep acc).ask.length
      ≤ acc.bid.length + acc.bm.length + acc.ask.length + rawSum fs := by
  intro fs
  induction fs with
  | nil => intro acc _; simp
  | cons f fs ih =>
    intro acc hp
    have hf := hp f List.mem_cons_self
    have ih' := ih (qStep acc f) (fun g hg => hp g (List.mem_cons_of_mem _ hg))
    simp only [List.foldl_cons, rawSum_cons]
    have hs : (qStep acc f).copied ≤ acc.copied + f.raw ∧
        (qStep acc f).bid.length + (qStep acc f).bm.length + (qStep acc f).ask.length
          ≤ acc.bid.length + acc.bm.length + acc.ask.length + f.raw := by
      unfold qStep
      split
      · simp only; omega
      · split
        · simp only; omega
        · split
          · simp only; omega
          · simp only; omega
    omega

theorem parseQMsg_bound {b : Bytes} {q : QMsg} (h : parseQMsg b = some q) :
    q.copied ≤ b.length ∧ q.bid.length + q.bm.length + q.ask.length ≤ b.length := by
  unfold parseQMsg at h
  split at h
  · rename_i fs hfs
    cases h
    obtain ⟨e1, e2⟩ := parseMsg_spec hfs
    have := qFold_bound fs ⟨[], [], [], 0⟩ e2
    rw [e1] at this
    simpa using this
  · cases h

/-! ### decoders -/

theorem andThen_cost (a : Out) (k : Unit → Out) : (a.andThen k).cost ≤ a.cost + (k ()).cost := by
  unfold Out.andThen Out.cost
  split
  · simp only; omega
  · omega

theorem andThen_scan_ge (a : Out) (k : Unit → Out) : a.scan ≤ (a.andThen k).scan := by
  unfold Out.andThen
  split
  · simp only; omega
  · omega

theorem decDecode_cost (d : Bytes) : (decDecode d).cost ≤ 5 * d.length + 1 := by
  unfold decDecode Out.cost
  split
  · simp only; omega
  · split
    · simp only; omega
    · split
      · simp only; omega
      · simp only; omega

theorem quoteDecode_cost (d : Bytes) : (quoteDecode d).cost ≤ 7 * d.length + 3 := by
  unfold quoteDecode
  split
  · simp only [Out.cost]; omega
  · rename_i q hq
    obtain ⟨h1, h2⟩ := parseQMsg_bound hq
    have c1 := decDecode_cost q.bid
    have c2 := decDecode_cost q.bm
    have c3 := decDecode_cost q.ask
    have a1 := andThen_cost (Out.mk "ok" d.length q.copied 0)
      (fun _ => (decDecode q.bid).andThen fun _ => (decDecode q.bm).andThen fun _ => decDecode q.ask)
    have a2 := andThen_cost (decDecode q.bid) (fun _ => (decDecode q.bm).andThen fun _ => decDecode q.ask)
    have a3 := andThen_cost (decDecode q.bm) (fun _ => decDecode q.ask)
    simp only [Out.cost] at *
    omega

theorem leafDecode_cost (typ : Nat) (v : Bytes) : (leafDecode typ v).cost ≤ 7 * v.length + 3 := by
  unfold leafDecode
  split
  · have := decDecode_cost v; omega
  · split
    · exact quoteDecode_cost v
    · simp [Out.cost]

/-- with the nesting limit `L`, a level at depth `depth` costs at most `2·(L − depth) + 9` per byte -/
theorem tsvDecode_cost (L : Nat) : ∀ (fuel depth : Nat) (data : Bytes),
    (tsvDecode (some L) fuel depth data).cost ≤ (2 * (L - depth) + 9) * data.length + 3 := by
  intro fuel
  induction fuel with
  | zero => intro depth data; simp [tsvDecode, Out.cost]
  | succ fuel ih =>
    intro depth data
    have h9 : 9 * data.length ≤ (2 * (L - depth) + 9) * data.length := Nat.mul_le_mul_right _ (by omega)
    unfold tsvDecode
    split
    · simp only [Out.cost]; omega
    · rename_i m hm
      obtain ⟨hc, hv⟩ := parseTSVMsg_bound hm
      simp only
      split
      · simp only [Out.cost]; omega
      · rename_i s hs
        have hv' : s.value.length ≤ data.length := by simpa [vlen, hs] using hv
        split
        · split
          · simp only [Out.cost]; omega
          · rename_i hlim
            have hd : depth < L := by simpa [limitHit] using hlim
            have a := andThen_cost ⟨"ok", data.length, m.totalCopied, 1⟩
              (fun _ => tsvDecode (some L) fuel (depth + 1) s.value)
            have i := ih (depth + 1) s.value
            have hmul : (2 * (L - (depth + 1)) + 9) * s.value.length ≤ (2 * (L - (depth + 1)) + 9) * data.length :=
              Nat.mul_le_mul_left _ hv'
            have hA : 2 * (L - depth) + 9 = (2 * (L - (depth + 1)) + 9) + 2 := by omega
            rw [hA, Nat.add_mul]
            simp only [Out.cost] at *
            omega
        · have a := andThen_cost ⟨"ok", data.length, m.totalCopied, 1⟩ (fun _ => leafDecode s.typ s.value)
          have l := leafDecode_cost s.typ s.value
          simp only [Out.cost] at *
          omega

theorem svDecode_cost (L typ : Nat) (v : Bytes) : (svDecode (some L) typ v).cost ≤ (2 * L + 9) * v.length + 3 := by
  unfold svDecode
  split
  · simpa using tsvDecode_cost L (v.length + 1) 0 v
  · have := leafDecode_cost typ v
    have : 7 * v.length ≤ (2 * L + 9) * v.length := Nat.mul_le_mul_right _ (by omega)
    omega

/-- every level entered scans its whole input -/
theorem tsvDecode_scan_ge (limit : Option Nat) (fuel depth : Nat) (data : Bytes) :
    data.length ≤ (tsvDecode limit (fuel + 1) depth data).scan := by
  unfold tsvDecode
  split
  · simp
  · simp only
    split
    · simp
    · split
      · split
        · simp
        · exact andThen_scan_ge ⟨"ok", data.length, _, 1⟩ _
      · exact andThen_scan_ge ⟨"ok", data.length, _, 1⟩ _

/-! ### the nested family -/

theorem varint_length_le : ∀ (k n : Nat), n < 128 ^ (k + 1) → (varint n).length ≤ k + 1 := by
  intro k
  induction k with
  | zero => intro n h; rw [varint_small n (by simpa using h)]; simp
  | succ k ih =>
    intro n h
    by_cases hn : n < 128
    · rw [varint_small n hn]; simp
    · rw [varint_big n hn]
      have hq : n / 128 < 128 ^ (k + 1) := by
        rw [Nat.pow_succ] at h
        exact Nat.div_lt_of_lt_mul (by omega)
      have := ih (n / 128) hq
      simp only [List.length_cons]; omega

theorem varint_length_pos (n : Nat) : 1 ≤ (varint n).length := by
  by_cases hn : n < 128
  · rw [varint_small n hn]; simp
  · rw [varint_big n hn]; simp

/-- the `LLOStreamValue{Type: TimestampedStreamValue, Value: inner}` sub-message -/
def wrapSV (inner : Bytes) : Bytes := [8, 2, 18] ++ (varint inner.length ++ inner)
/-- `TimestampedStreamValue{1, <timestamped value with bytes inner>}.MarshalBinary()` -/
def wrapTSV (inner : Bytes) : Bytes := [8, 1, 18] ++ (varint (wrapSV inner).length ++ wrapSV inner)

theorem marshalSV_nest_ne_nil (d : Nat) : marshalSV (nestSV d) ≠ [] := by
  cases d <;> simp [nestSV, marshalSV, optVarint, varint_small]

theorem nestSV_type (d : Nat) : (nestSV d).type = 2 := by cases d <;> rfl

theorem nestBytes_succ (d : Nat) : nestBytes (d + 1) = wrapTSV (nestBytes d) := by
  have hne := marshalSV_nest_ne_nil d
  have hemp : (marshalSV (nestSV d)).isEmpty = false := by
    cases h : marshalSV (nestSV d) with
    | nil => exact absurd h hne
    | cons _ _ => rfl
  simp only [nestBytes, nestSV, marshalSV, nestSV_type, optVarint, optBytes, hemp, fieldBytes, wrapTSV, wrapSV]
  simp [varint_small]

theorem readField_varint_8_1 (rest : Bytes) :
    readField (8 :: 1 :: rest) = some (⟨1, 0, 1, [], (8 :: 1 :: rest).length - rest.length⟩, rest) := by
  simp [readField, readVarint]

theorem readField_varint_8_2 (rest : Bytes) :
    readField (8 :: 2 :: rest) = some (⟨1, 0, 2, [], (8 :: 2 :: rest).length - rest.length⟩, rest) := by
  simp [readField, readVarint]

theorem readField_len_18 (payload : Bytes) (h : payload.length < 128 ^ 9) :
    readField (18 :: (varint payload.length ++ payload)) =
      some (⟨2, 2, 0, payload, (18 :: (varint payload.length ++ payload)).length - 0⟩, []) := by
  have hv := readVarint_varint 9 payload.length payload h
  simp [readField, readVarint, hv]

theorem parseFields_two {k : Nat} {b r1 : Bytes} {f1 f2 : Field} (hk : 2 ≤ k) (hb : b ≠ []) (hr : r1 ≠ [])
    (h1 : readField b = some (f1, r1)) (h2 : readField r1 = some (f2, [])) :
    parseFields k b = some [f1, f2] := by
  match k, hk with
  | k + 2, _ =>
    cases b with
    | nil => exact absurd rfl hb
    | cons x xs =>
      simp only [parseFields, h1]
      cases r1 with
      | nil => exact absurd rfl hr
      | cons y ys =>
        simp only [parseFields, h2]

theorem parseSVInto_wrapSV (inner : Bytes) (h : inner.length < 128 ^ 9) :
    parseSVInto ⟨0, [], 0⟩ (wrapSV inner) = some ⟨2, inner, inner.length⟩ := by
  have hp : parseMsg (wrapSV inner) =
      some [⟨1, 0, 2, [], (8 :: 2 :: 18 :: (varint inner.length ++ inner)).length - (18 :: (varint inner.length ++ inner)).length⟩,
            ⟨2, 2, 0, inner, (18 :: (varint inner.length ++ inner)).length - 0⟩] := by
    unfold parseMsg wrapSV
    apply parseFields_two (r1 := 18 :: (varint inner.length ++ inner))
    · simp only [List.cons_append, List.nil_append, List.length_cons]; omega
    · simp
    · simp
    · exact readField_varint_8_2 _
    · exact readField_len_18 inner h
  simp [parseSVInto, hp, svStep]

theorem parseTSVMsg_wrapTSV (inner : Bytes) (h : (wrapSV inner).length < 128 ^ 9) :
    parseTSVMsg (wrapTSV inner) = some ⟨some ⟨2, inner, inner.length⟩, 0⟩ := by
  have hin : inner.length < 128 ^ 9 := by
    have : inner.length ≤ (wrapSV inner).length := by simp [wrapSV]; omega
    omega
  have hp : parseMsg (wrapTSV inner) =
      some [⟨1, 0, 1, [], (8 :: 1 :: 18 :: (varint (wrapSV inner).length ++ wrapSV inner)).length - (18 :: (varint (wrapSV inner).length ++ wrapSV inner)).length⟩,
            ⟨2, 2, 0, wrapSV inner, (18 :: (varint (wrapSV inner).length ++ wrapSV inner)).length - 0⟩] := by
    unfold parseMsg wrapTSV
    apply parseFields_two (r1 := 18 :: (varint (wrapSV inner).length ++ wrapSV inner))
    · simp only [List.cons_append, List.nil_append, List.length_cons]; omega
    · simp
    · simp
    · exact readField_varint_8_1 _
    · exact readField_len_18 (wrapSV inner) h
  simp [parseTSVMsg, hp, tsvStep, parseSVInto_wrapSV inner hin]

theorem wrapTSV_length (inner : Bytes) (h : inner.length + 12 < 128 ^ 9) :
    inner.length + 8 ≤ (wrapTSV inner).length ∧ (wrapTSV inner).length ≤ inner.length + 24
    ∧ (wrapSV inner).length < 128 ^ 9 := by
  have v1 := varint_length_le 8 inner.length (by omega)
  have p1 := varint_length_pos inner.length
  have hs : (wrapSV inner).length = 3 + (varint inner.length).length + inner.length := by
    simp [wrapSV]; omega
  have v2 := varint_length_le 8 (wrapSV inner).length (by omega)
  have p2 := varint_length_pos (wrapSV inner).length
  have ht : (wrapTSV inner).length = 3 + (varint (wrapSV inner).length).length + (wrapSV inner).length := by
    simp [wrapTSV]; omega
  omega

theorem nestBytes_zero_length : (nestBytes 0).length = 12 := by
  have e6 := varint_small 6 (by omega)
  have e8 := varint_small 8 (by omega)
  have e1 := varint_small 1 (by omega)
  have e18 := varint_small 18 (by omega)
  have hn : (Dec.natBytesBE 1).length = 1 := by
    rw [Dec.natBytesBE]; simp; rw [Dec.natBytesBE]; simp
  simp [nestBytes, nestSV, marshalSV, optVarint, optBytes, fieldBytes, SV.type,
    Dec.marshalBinary, Dec.expBytes, Dec.gobInt, hn, e6, e8, e1, e18]

/-- size of the family: between `12 + 8·d` and `12 + 24·d` bytes -/
theorem nestBytes_length : ∀ d, 12 + 24 * d < 128 ^ 9 →
    12 + 8 * d ≤ (nestBytes d).length ∧ (nestBytes d).length ≤ 12 + 24 * d := by
  intro d
  induction d with
  | zero => intro _; rw [nestBytes_zero_length]; omega
  | succ d ih =>
    intro h
    have i := ih (by omega)
    rw [nestBytes_succ]
    have := wrapTSV_length (nestBytes d) (by omega)
    omega

/-- without the limit, decoding `nestBytes d` scans every level: at least `(d+1)²` bytes -/
theorem tsvDecode_nest_scan : ∀ (d fuel depth : Nat), 12 + 24 * d < 128 ^ 9 → d + 1 ≤ fuel →
    (d + 1) * (d + 1) ≤ (tsvDecode none fuel depth (nestBytes d)).scan := by
  intro d
  induction d with
  | zero =>
    intro fuel depth _ hf
    match fuel, hf with
    | fuel + 1, _ =>
      have := tsvDecode_scan_ge none fuel depth (nestBytes 0)
      rw [nestBytes_zero_length] at this
      omega
  | succ d ih =>
    intro fuel depth h hf
    match fuel, hf with
    | fuel + 1, hf =>
      have hl := nestBytes_length d (by omega)
      have hw := wrapTSV_length (nestBytes d) (by omega)
      have i := ih fuel (depth + 1) (by omega) (by omega)
      rw [nestBytes_succ]
      unfold tsvDecode
      rw [parseTSVMsg_wrapTSV (nestBytes d) hw.2.2]
      simp only [limitHit, Out.andThen, Out.isOk]
      simp only [beq_self_eq_true, if_true, Bool.false_eq_true, if_false]
      have e : (d + 1 + 1) * (d + 1 + 1) = (d + 1) * (d + 1) + 2 * d + 3 := by
        simp only [Nat.add_mul, Nat.mul_add]; omega
      rw [e]
      omega

end DSV.Cost
