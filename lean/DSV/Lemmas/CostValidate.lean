import DSV.Cost.Validate
import DSV.Lemmas.CostWire
/-! # Lemmas about `DSV.Cost.Validate` -/
namespace DSV.Cost

theorem entryCost_le (L : Nat) (e : Bytes) : entryCost (some L) e ≤ (2 * L + 10) * (e.length + 4) := by
  have h4 : 4 ≤ (2 * L + 10) * 4 := by omega
  rw [Nat.mul_add]
  unfold entryCost
  split
  · omega
  · rename_i s hs
    obtain ⟨hc, hv⟩ := parseSVInto_bound hs
    have hv' : s.value.length ≤ e.length := by simpa using hv
    have d := svDecode_cost L s.typ s.value
    have m : (2 * L + 9) * s.value.length ≤ (2 * L + 9) * e.length := Nat.mul_le_mul_left _ hv'
    have e1 : (2 * L + 10) * e.length = (2 * L + 9) * e.length + e.length := by
      rw [show 2 * L + 10 = (2 * L + 9) + 1 by omega, Nat.add_mul]; omega
    simp only [Nat.zero_add] at hc
    omega

theorem entries_cost_le (L : Nat) (es : List Bytes) :
    (es.map (entryCost (some L))).sum ≤ (2 * L + 10) * (es.map (fun e => e.length + 4)).sum := by
  induction es with
  | nil => simp
  | cons e es ih =>
    simp only [List.map_cons, List.sum_cons]
    have := entryCost_le L e
    rw [Nat.mul_add (2 * L + 10) (e.length + 4)]
    omega

end DSV.Cost
