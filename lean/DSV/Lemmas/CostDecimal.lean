import DSV.Cost.Decimal
/-!
# Lemmas about decimal digit counts (`DSV.Cost.Decimal`)
-/
namespace DSV.Cost
open DSV

theorem numDigits_lt10 {n : Nat} (h : n < 10) : numDigits n = 1 := by
  rw [numDigits]; simp [h]

theorem numDigits_ge10 {n : Nat} (h : ¬ n < 10) : numDigits n = 1 + numDigits (n / 10) := by
  rw [numDigits]; simp [h]

theorem numDigits_pos (n : Nat) : 1 ≤ numDigits n := by
  by_cases h : n < 10
  · rw [numDigits_lt10 h]; omega
  · rw [numDigits_ge10 h]; omega

/-- appending a zero digit: `n·10` has one more digit than `n > 0` -/
theorem numDigits_mul10 {n : Nat} (h : 0 < n) : numDigits (n * 10) = numDigits n + 1 := by
  have h10 : ¬ n * 10 < 10 := by omega
  rw [numDigits_ge10 h10, Nat.mul_div_cancel n (by omega)]; omega

/-- the materialised power `10^k` has `k + 1` digits -/
theorem numDigits_pow10 (k : Nat) : numDigits (10 ^ k) = k + 1 := by
  induction k with
  | zero => exact numDigits_lt10 (by omega)
  | succ k ih => rw [Nat.pow_succ, numDigits_mul10 (Nat.pow_pos (by omega)), ih]

theorem numDigits_mul_pow10 {n : Nat} (h : 0 < n) (k : Nat) : numDigits (n * 10 ^ k) = numDigits n + k := by
  induction k with
  | zero => simp
  | succ k ih =>
    rw [Nat.pow_succ, ← Nat.mul_assoc, numDigits_mul10 (Nat.mul_pos h (Nat.pow_pos (by omega))), ih]; omega

theorem numDigits_mul_pow10_le (n k : Nat) : numDigits (n * 10 ^ k) ≤ numDigits n + k := by
  by_cases h : 0 < n
  · rw [numDigits_mul_pow10 h k]; omega
  · have : n = 0 := by omega
    subst this
    simp only [Nat.zero_mul]
    have := numDigits_lt10 (n := 0) (by omega)
    omega

theorem numDigits_mono : ∀ {a b : Nat}, a ≤ b → numDigits a ≤ numDigits b := by
  intro a b
  induction b using Nat.strongRecOn generalizing a with
  | _ b ih =>
    intro hab
    by_cases hb : b < 10
    · rw [numDigits_lt10 hb, numDigits_lt10 (by omega)]; omega
    · by_cases ha : a < 10
      · rw [numDigits_lt10 ha]; exact numDigits_pos b
      · rw [numDigits_ge10 ha, numDigits_ge10 hb]
        have := ih (b / 10) (by omega) (a := a / 10) (Nat.div_le_div_right hab)
        omega

/-- digits of a rescaled coefficient: multiplying adds at most `k` digits, dividing adds none -/
theorem digitsOf_rescale_le (d : Dec) (e : Int) :
    digitsOf (d.rescale e).coef ≤ digitsOf d.coef + (e - d.exp).natAbs := by
  unfold Dec.rescale
  split
  · omega
  · split
    · -- quotient
      simp only [digitsOf, Dec.tquo]
      have : (Int.tdiv d.coef (10 ^ (e - d.exp).toNat)).natAbs ≤ d.coef.natAbs := by
        rw [Int.natAbs_tdiv]
        exact Nat.div_le_self _ _
      have := numDigits_mono this
      omega
    · -- product
      rename_i hne hgt
      simp only [digitsOf]
      rw [Int.natAbs_mul, Int.natAbs_pow]
      have h10 : (10 : Int).natAbs = 10 := rfl
      rw [h10]
      have hk : (d.exp - e).toNat = (e - d.exp).natAbs := by omega
      rw [hk]
      exact numDigits_mul_pow10_le _ _

end DSV.Cost
