/-!
# Order-statistic lemmas (core Lean only)

* `median_in_honest_range`: rank-k median (index `len/2`) of any sorted permutation of
  `hs ++ bs` with `|bs| < |hs|` lies between two elements of `hs`.
* `rank_mono`: order statistics are monotone under pointwise `≤`.
-/
namespace DSV.Rank
variable {α : Type} (le : α → α → Bool)

def Total : Prop := ∀ a b, le a b = true ∨ le b a = true
def Trans : Prop := ∀ a b c, le a b = true → le b c = true → le a c = true

theorem countP_take_all (p : α → Bool) (s : List α) (m : Nat) (hm : m ≤ s.length)
    (h : ∀ i (hi : i < s.length), i < m → p s[i] = true) : m ≤ s.countP p := by
  induction s generalizing m with
  | nil => simp at hm; omega
  | cons a t ih =>
    cases m with
    | zero => omega
    | succ m =>
      have ha : p a = true := h 0 (by simp) (by omega)
      have := ih m (by simp at hm; omega) (fun i hi him => by
        have := h (i+1) (by simp; omega) (by omega)
        simpa using this)
      simp [ha]; omega

theorem countP_drop_all (p : α → Bool) (s : List α) (k : Nat)
    (h : ∀ i (hi : i < s.length), k ≤ i → p s[i] = true) : s.length - k ≤ s.countP p := by
  induction s generalizing k with
  | nil => simp
  | cons a t ih =>
    cases k with
    | zero =>
      have ha : p a = true := h 0 (by simp) (by omega)
      have := ih 0 (fun i hi _ => by
        have := h (i+1) (by simp; omega) (by omega)
        simpa using this)
      simp [ha]; omega
    | succ k =>
      have := ih k (fun i hi hk => by
        have := h (i+1) (by simp; omega) (by omega)
        simpa using this)
      simp [List.countP_cons]
      split <;> omega

/-- rank-k median of a sorted list lies within the range of the honest values whenever honest
    values strictly outnumber the others -/
theorem median_in_honest_range (tot : Total le) (tr : Trans le)
    (s hs bs : List α) (hperm : s.Perm (hs ++ bs)) (hsorted : s.Pairwise (fun a b => le a b = true))
    (hmaj : bs.length < hs.length) (hk : s.length / 2 < s.length) :
    (∃ lo ∈ hs, le lo s[s.length / 2] = true) ∧ (∃ hi ∈ hs, le s[s.length / 2] hi = true) := by
  have hlen : s.length = hs.length + bs.length := by
    have := hperm.length_eq; simpa using this
  have hrefl : ∀ a, le a a = true := fun a => by cases tot a a <;> assumption
  have hpw := List.pairwise_iff_getElem.mp hsorted
  constructor
  · -- lower bound
    apply Classical.byContradiction
    intro hno
    have hno' : ∀ h ∈ hs, le h s[s.length/2] = false := by
      intro h hh
      cases hc : le h s[s.length/2] with
      | false => rfl
      | true => exact absurd ⟨h, hh, hc⟩ hno
    let p : α → Bool := fun x => le x s[s.length/2]
    have h1 : s.length/2 + 1 ≤ s.countP p := by
      apply countP_take_all p s (s.length/2+1) (by omega)
      intro i hi him
      by_cases hik : i = s.length/2
      · subst hik; exact hrefl _
      · exact hpw i (s.length/2) hi hk (by omega)
    have h2 : s.countP p = hs.countP p + bs.countP p := by
      rw [hperm.countP_eq, List.countP_append]
    have h3 : hs.countP p = 0 := by
      rw [List.countP_eq_zero]; intro a ha; simp [p, hno' a ha]
    have h4 : bs.countP p ≤ bs.length := List.countP_le_length
    omega
  · apply Classical.byContradiction
    intro hno
    have hno' : ∀ h ∈ hs, le s[s.length/2] h = false := by
      intro h hh
      cases hc : le s[s.length/2] h with
      | false => rfl
      | true => exact absurd ⟨h, hh, hc⟩ hno
    let p : α → Bool := fun x => le s[s.length/2] x
    have h1 : s.length - s.length/2 ≤ s.countP p := by
      apply countP_drop_all p s (s.length/2)
      intro i hi hki
      by_cases hik : i = s.length/2
      · subst hik; exact hrefl _
      · exact hpw (s.length/2) i hk hi (by omega)
    have h2 : s.countP p = hs.countP p + bs.countP p := by
      rw [hperm.countP_eq, List.countP_append]
    have h3 : hs.countP p = 0 := by
      rw [List.countP_eq_zero]; intro a ha; simp [p, hno' a ha]
    have h4 : bs.countP p ≤ bs.length := List.countP_le_length
    omega

/-- if every element at index ≥ k fails p then at most k elements satisfy p -/
theorem countP_le_of_suffix_false (p : α → Bool) (s : List α) (k : Nat)
    (h : ∀ i (hi : i < s.length), k ≤ i → p s[i] = false) : s.countP p ≤ k := by
  induction s generalizing k with
  | nil => simp
  | cons a t ih =>
    cases k with
    | zero =>
      have ha : p a = false := h 0 (by simp) (by omega)
      have := ih 0 (fun i hi _ => by
        have := h (i+1) (by simp; omega) (by omega)
        simpa using this)
      have h0 : List.countP p t = 0 := by omega
      rw [List.countP_cons, ha, h0]; simp
    | succ k =>
      have := ih k (fun i hi hk => by
        have := h (i+1) (by simp; omega) (by omega)
        simpa using this)
      simp [List.countP_cons]
      split <;> omega

/-- Order statistics are monotone: if a and b are the two projections of one list of pairs with
    fst ≤ snd pointwise, then the k-th smallest fst is ≤ the k-th smallest snd. -/
theorem rank_mono (tot : Total le) (tr : Trans le)
    (ps : List (α × α)) (hp : ∀ p ∈ ps, le p.1 p.2 = true)
    (sa sb : List α) (ha : sa.Perm (ps.map (·.1))) (hb : sb.Perm (ps.map (·.2)))
    (hsa : sa.Pairwise (fun x y => le x y = true)) (hsb : sb.Pairwise (fun x y => le x y = true))
    (k : Nat) (hka : k < sa.length) (hkb : k < sb.length) :
    le sa[k] sb[k] = true := by
  have hrefl : ∀ a, le a a = true := fun a => by cases tot a a <;> assumption
  apply Classical.byContradiction
  intro hno
  have hgt : le sb[k] sa[k] = true := by
    cases tot sa[k] sb[k] with
    | inl h => exact absurd h hno
    | inr h => exact h
  -- predicate: x ≤ sb[k]
  let p : α → Bool := fun x => le x sb[k]
  have hpwb := List.pairwise_iff_getElem.mp hsb
  have hpwa := List.pairwise_iff_getElem.mp hsa
  -- at least k+1 elements of b satisfy p
  have h1 : k + 1 ≤ sb.countP p := by
    apply countP_take_all p sb (k+1) (by omega)
    intro i hi hik
    by_cases hk : i = k
    · subst hk; exact hrefl _
    · exact hpwb i k hi hkb (by omega)
  -- hence at least k+1 elements of a satisfy p (pointwise + transitivity)
  have h2 : sb.countP p ≤ sa.countP p := by
    rw [hb.countP_eq, ha.countP_eq, List.countP_map, List.countP_map]
    apply List.countP_mono_left
    intro x hx hpx
    simp only [Function.comp, p] at hpx ⊢
    exact tr _ _ _ (hp x hx) hpx
  -- but elements of sa at index ≥ k are > sb[k]
  have h3 : sa.countP p ≤ k := by
    apply countP_le_of_suffix_false p sa k
    intro i hi hki
    cases hc : p sa[i] with
    | false => rfl
    | true =>
      exfalso
      have : le sa[k] sa[i] = true := by
        by_cases hk : i = k
        · subst hk; exact hrefl _
        · exact hpwa k i hka hi (by omega)
      exact hno (tr _ _ _ this hc)
  omega

end DSV.Rank
