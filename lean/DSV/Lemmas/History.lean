import DSV.LLO.History
import DSV.Lemmas.GoMap
/-!
# Lemmas about histories and the codec round trip
-/
namespace DSV.LLO
open DSV DSV.GoMap

/-- a relation established by every successful step and closed under transitivity holds between the
    start and every later outcome, and between any two outcomes of a history in order -/
theorem run_pairwise (env : Env) (cfg : Cfg) (R : Outcome → Outcome → Prop)
    (trans : ∀ a b c, R a b → R b c → R a c)
    (hstep : ∀ r o o', step env cfg r o = .ok o' → R o o') (o0 : Outcome) (rs : List Round) :
    (o0 :: run env cfg o0 rs).Pairwise R := by
  induction rs generalizing o0 with
  | nil => simp [run]
  | cons r rs ih =>
    unfold run
    cases hs : step env cfg r o0 with
    | ok o' =>
      simp only
      have ih' := ih o'
      rw [List.pairwise_cons] at ih' ⊢
      refine ⟨?_, List.pairwise_cons.mpr ih'⟩
      intro o ho
      rcases List.mem_cons.mp ho with rfl | ho
      · exact hstep r o0 _ hs
      · exact trans _ _ _ (hstep r o0 o' hs) (ih'.1 o ho)
    | err e => simpa using ih o0
    | panic => simpa using ih o0

/-- an invariant preserved by every successful step holds for every outcome of a history -/
theorem run_invariant (env : Env) (cfg : Cfg) (P : Outcome → Prop)
    (hstep : ∀ r o o', P o → step env cfg r o = .ok o' → P o') (o0 : Outcome) (h0 : P o0) (rs : List Round) :
    ∀ o ∈ run env cfg o0 rs, P o := by
  induction rs generalizing o0 with
  | nil => simp [run]
  | cons r rs ih =>
    unfold run
    cases hs : step env cfg r o0 with
    | ok o' =>
      simp only
      intro o ho
      rcases List.mem_cons.mp ho with rfl | ho
      · exact hstep r o0 _ h0 hs
      · exact ih o' (hstep r o0 o' h0 hs) o ho
    | err e => simpa using ih o0 h0
    | panic => simpa using ih o0 h0

theorem step_ok {env : Env} {cfg : Cfg} {r : Round} {prev o' : Outcome} (h : step env cfg r prev = .ok o') :
    ∃ o, outcome env cfg r.σ r.nAos prev r.obs = .ok o ∧ codecRoundTrip cfg o = .ok o' := by
  unfold step at h
  cases ho : outcome env cfg r.σ r.nAos prev r.obs with
  | ok o => rw [ho] at h; exact ⟨o, rfl, h⟩
  | err e => rw [ho] at h; cases h
  | panic => rw [ho] at h; cases h

theorem sortK_perm {ν : Type} (m : GoMap Nat ν) :
    (m.mergeSort (fun a b => decide (a.1 ≤ b.1))).Perm m := List.mergeSort_perm _ _

theorem wf_of_perm {κ ν : Type} [DecidableEq κ] {a b : GoMap κ ν} (h : a.Perm b) (hw : WF b) : WF a := by
  unfold WF keys at *; exact (h.map _).nodup_iff.mpr hw

theorem get?_map_val {κ ν ν' : Type} [DecidableEq κ] (m : GoMap κ ν) (g : ν → ν') (k : κ) :
    get? (m.map fun e => (e.1, g e.2)) k = (get? m k).map g := by
  induction m with
  | nil => rfl
  | cons e es ih =>
    simp only [List.map_cons, get?_cons, ih]
    by_cases h : e.1 = k <;> simp [h]

theorem keys_map_val {κ ν ν' : Type} [DecidableEq κ] (m : GoMap κ ν) (g : ν → ν') :
    keys (m.map fun e => (e.1, g e.2)) = keys m := by
  unfold keys; rw [List.map_map]; rfl

/-- what the codec round trip preserves -/
theorem codecRoundTrip_ok {cfg : Cfg} {o o' : Outcome} (h : codecRoundTrip cfg o = .ok o')
    (hwd : WF o.defs) (hwv : WF o.va) :
    o'.stage = o.stage ∧ o'.ts = o.ts ∧ WF o'.defs ∧ WF o'.va ∧
    (∀ k, get? o'.defs k = get? o.defs k) ∧
    (∀ k, get? o'.va k = (get? o.va k).map (truncVA cfg)) ∧
    o'.aggs.Perm o.aggs := by
  unfold codecRoundTrip at h
  simp only at h
  by_cases hv : (cfg.version == 0) = true
  · simp only [hv, if_true] at h
    split at h
    · cases h
    · split at h
      · cases h
      · cases h
        have hp1 := sortK_perm o.defs
        have hwm : WF (o.va.map fun e => (e.1, e.2 / 1000000000 * 1000000000)) := by
          unfold WF; rw [keys_map_val o.va (fun v => v / 1000000000 * 1000000000)]; exact hwv
        have hp2 := sortK_perm (o.va.map fun e => (e.1, e.2 / 1000000000 * 1000000000))
        refine ⟨rfl, rfl, wf_of_perm hp1 hwd, wf_of_perm hp2 hwm, ?_, ?_, List.mergeSort_perm _ _⟩
        · intro k; exact get?_perm (wf_of_perm hp1 hwd) hp1 k
        · intro k
          rw [get?_perm (wf_of_perm hp2 hwm) hp2 k, get?_map_val o.va (fun v => v / 1000000000 * 1000000000) k]
          congr 1
          funext v
          unfold truncVA
          rw [if_pos hv]
  · simp only [hv, Bool.false_eq_true, if_false] at h
    cases h
    have hp1 := sortK_perm o.defs
    have hp2 := sortK_perm o.va
    refine ⟨rfl, rfl, wf_of_perm hp1 hwd, wf_of_perm hp2 hwv, ?_, ?_, List.mergeSort_perm _ _⟩
    · intro k; exact get?_perm (wf_of_perm hp1 hwd) hp1 k
    · intro k
      rw [get?_perm (wf_of_perm hp2 hwv) hp2 k]
      cases get? o.va k <;> simp [truncVA, hv]

end DSV.LLO

namespace DSV.LLO
open DSV DSV.GoMap

/-- like `run_invariant`, with a side condition on the rounds -/
theorem run_invariant_rounds (env : Env) (cfg : Cfg) (Q : Round → Prop) (P : Outcome → Prop)
    (hstep : ∀ r o o', Q r → P o → step env cfg r o = .ok o' → P o') (o0 : Outcome) (h0 : P o0)
    (rs : List Round) (hrs : ∀ r ∈ rs, Q r) : ∀ o ∈ run env cfg o0 rs, P o := by
  induction rs generalizing o0 with
  | nil => simp [run]
  | cons r rs ih =>
    unfold run
    have hq := hrs r (by simp)
    have hrest : ∀ r' ∈ rs, Q r' := fun r' h => hrs r' (by simp [h])
    cases hs : step env cfg r o0 with
    | ok o' =>
      simp only
      intro o ho
      rcases List.mem_cons.mp ho with rfl | ho
      · exact hstep r o0 _ hq h0 hs
      · exact ih o' (hstep r o0 o' hq h0 hs) hrest o ho
    | err e => simpa using ih o0 h0 hrest
    | panic => simpa using ih o0 h0 hrest

/-- consecutive states of a history are related by `R` whenever every successful step establishes
    `R` (given the invariant `P` and the round condition `Q`) -/
def Consecutive (R : Outcome → Outcome → Prop) : List Outcome → Prop
  | [] => True
  | [_] => True
  | a :: b :: rest => R a b ∧ Consecutive R (b :: rest)

theorem run_consecutive (env : Env) (cfg : Cfg) (Q : Round → Prop) (P : Outcome → Prop)
    (R : Outcome → Outcome → Prop)
    (hP : ∀ r o o', Q r → P o → step env cfg r o = .ok o' → P o')
    (hR : ∀ r o o', Q r → P o → step env cfg r o = .ok o' → R o o')
    (o0 : Outcome) (h0 : P o0) (rs : List Round) (hrs : ∀ r ∈ rs, Q r) :
    Consecutive R (o0 :: run env cfg o0 rs) := by
  induction rs generalizing o0 with
  | nil => simp [run, Consecutive]
  | cons r rs ih =>
    unfold run
    have hq := hrs r (by simp)
    have hrest : ∀ r' ∈ rs, Q r' := fun r' h => hrs r' (by simp [h])
    cases hs : step env cfg r o0 with
    | ok o' =>
      simp only
      exact ⟨hR r o0 o' hq h0 hs, ih o' (hP r o0 o' hq h0 hs) hrest⟩
    | err e => simpa using ih o0 h0 hrest
    | panic => simpa using ih o0 h0 hrest

end DSV.LLO
