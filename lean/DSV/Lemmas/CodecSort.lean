import DSV.LLO.CodecOutcome
/-!
# Lemmas for the message-level codecs: sequential loops, Go map construction, sort uniqueness
-/
namespace DSV.LLO
open DSV

/-! ## `goMapM` -/

theorem goMapM_ok {α β : Type} (f : α → GoRes β) (g : α → β) (l : List α) (h : ∀ a ∈ l, f a = .ok (g a)) :
    goMapM f l = .ok (l.map g) := by
  induction l with
  | nil => rfl
  | cons a as ih =>
    simp only [goMapM, h a (List.mem_cons_self), ih (fun x hx => h x (List.mem_cons_of_mem _ hx)), List.map_cons]

theorem goMapM_ne_panic {α β : Type} (f : α → GoRes β) (l : List α) (h : ∀ a, f a ≠ .panic) :
    goMapM f l ≠ .panic := by
  induction l with
  | nil => simp [goMapM]
  | cons a as ih =>
    simp only [goMapM]
    cases hfa : f a with
    | ok b =>
      cases hr : goMapM f as with
      | ok bs => simp
      | err c => simp
      | panic => exact absurd hr ih
    | err c => simp
    | panic => exact absurd hfa (h a)

theorem goMapM_err_of_mem {α β : Type} (f : α → GoRes β) (l : List α) (h : ∀ a, f a ≠ .panic)
    (a : α) (ha : a ∈ l) (hf : (f a).isErr = true) : (goMapM f l).isErr = true := by
  induction l with
  | nil => cases ha
  | cons x xs ih =>
    simp only [goMapM]
    cases hfx : f x with
    | ok b =>
      have hax : a ∈ xs := by
        rcases List.mem_cons.mp ha with rfl | h'
        · rw [hfx] at hf; cases hf
        · exact h'
      have := ih hax
      cases hr : goMapM f xs with
      | ok bs => rw [hr] at this; cases this
      | err c => rfl
      | panic => exact absurd hr (goMapM_ne_panic f xs h)
    | err c => rfl
    | panic => exact absurd hfx (h x)

/-! ## `GoMap.ofList` -/

theorem contains_eq_false_of_not_mem {κ ν : Type} [DecidableEq κ] (m : GoMap κ ν) (k : κ)
    (h : k ∉ m.map (·.1)) : GoMap.contains m k = false := by
  unfold GoMap.contains
  rw [Bool.eq_false_iff]
  intro hc
  rw [List.any_eq_true] at hc
  obtain ⟨e, he, hk⟩ := hc
  apply h
  rw [List.mem_map]
  exact ⟨e, he, by simpa using hk⟩

theorem foldl_set_of_nodup {κ ν : Type} [DecidableEq κ] (l acc : List (κ × ν))
    (h : ((acc ++ l).map (·.1)).Nodup) :
    l.foldl (fun m e => GoMap.set m e.1 e.2) acc = acc ++ l := by
  induction l generalizing acc with
  | nil => simp
  | cons e es ih =>
    simp only [List.foldl_cons]
    have hnot : e.1 ∉ acc.map (·.1) := by
      rw [List.map_append, List.nodup_append] at h
      intro hm
      exact h.2.2 _ hm _ (by simp) rfl
    have hset : GoMap.set acc e.1 e.2 = acc ++ [e] := by
      unfold GoMap.set
      rw [contains_eq_false_of_not_mem acc e.1 hnot]
      simp
    rw [hset, ih (acc ++ [e]) (by simpa [List.append_assoc] using h)]
    simp [List.append_assoc]

/-- building a Go map from entries with distinct keys keeps exactly those entries -/
theorem ofList_of_nodup {κ ν : Type} [DecidableEq κ] (l : List (κ × ν)) (h : (l.map (·.1)).Nodup) :
    GoMap.ofList l = l := by
  unfold GoMap.ofList
  rw [foldl_set_of_nodup l [] (by simpa using h)]
  simp

/-! ## sorting -/

theorem eq_of_key_eq {κ ν : Type} (l : List (κ × ν)) (h : (l.map (·.1)).Nodup) (a b : κ × ν)
    (ha : a ∈ l) (hb : b ∈ l) (hk : a.1 = b.1) : a = b := by
  induction l with
  | nil => cases ha
  | cons x xs ih =>
    simp only [List.map_cons, List.nodup_cons] at h
    rcases List.mem_cons.mp ha with rfl | ha'
    · rcases List.mem_cons.mp hb with rfl | hb'
      · rfl
      · exact absurd (List.mem_map.mpr ⟨b, hb', hk.symm⟩) h.1
    · rcases List.mem_cons.mp hb with rfl | hb'
      · exact absurd (List.mem_map.mpr ⟨a, ha', hk⟩) h.1
      · exact ih h.2 ha' hb'

/-- two sorted permutations agree when the order is antisymmetric on the elements -/
theorem mergeSort_eq_of_perm {α : Type} (le : α → α → Bool)
    (trans : ∀ a b c, le a b = true → le b c = true → le a c = true)
    (total : ∀ a b, (le a b || le b a) = true)
    (l l' : List α) (hp : l.Perm l')
    (anti : ∀ a b, a ∈ l → b ∈ l → le a b = true → le b a = true → a = b) :
    l.mergeSort le = l'.mergeSort le := by
  apply List.Perm.eq_of_pairwise (le := fun a b => le a b = true)
  · intro a b ha hb hab hba
    have ha' : a ∈ l := (List.mergeSort_perm l le).mem_iff.mp ha
    have hb' : b ∈ l := hp.mem_iff.mpr ((List.mergeSort_perm l' le).mem_iff.mp hb)
    exact anti a b ha' hb' hab hba
  · exact List.pairwise_mergeSort trans total l
  · exact List.pairwise_mergeSort trans total l'
  · exact (List.mergeSort_perm l le).trans (hp.trans (List.mergeSort_perm l' le).symm)

theorem leKey_trans {ν : Type} (a b c : Nat × ν) (h1 : leKey a b = true) (h2 : leKey b c = true) :
    leKey a c = true := by
  simp only [leKey, decide_eq_true_eq] at *; omega

theorem leKey_total {ν : Type} (a b : Nat × ν) : (leKey a b || leKey b a) = true := by
  simp only [leKey, Bool.or_eq_true, decide_eq_true_eq]; omega

/-- sorting by key does not depend on the order in which a map's entries arrive -/
theorem mergeSort_leKey_perm {ν : Type} (l l' : List (Nat × ν)) (hp : l.Perm l')
    (hn : (l.map (·.1)).Nodup) : l.mergeSort leKey = l'.mergeSort leKey := by
  apply mergeSort_eq_of_perm leKey leKey_trans leKey_total l l' hp
  intro a b ha hb hab hba
  apply eq_of_key_eq l hn a b ha hb
  simp only [leKey, decide_eq_true_eq] at hab hba
  omega

theorem keys_perm {κ ν : Type} {l l' : List (κ × ν)} (hp : l.Perm l') : (l.map (·.1)).Perm (l'.map (·.1)) :=
  hp.map _

theorem nodup_keys_of_perm {κ ν : Type} {l l' : List (κ × ν)} (hp : l.Perm l') (h : (l.map (·.1)).Nodup) :
    (l'.map (·.1)).Nodup := (keys_perm hp).nodup_iff.mp h

theorem nodup_keys_mergeSort {κ ν : Type} (l : List (κ × ν)) (le : κ × ν → κ × ν → Bool)
    (h : (l.map (·.1)).Nodup) : ((l.mergeSort le).map (·.1)).Nodup :=
  nodup_keys_of_perm (List.mergeSort_perm l le).symm h

/-- entries ordered like `leAgg` orders their messages -/
def leAggKey (a b : (Nat × Nat) × SV) : Bool :=
  decide (a.1.1 < b.1.1 ∨ (a.1.1 = b.1.1 ∧ a.1.2 ≤ b.1.2))

def toAggMsg (e : (Nat × Nat) × SV) : AggMsg := ⟨e.1.1, some (makeSVMsg e.2), e.1.2⟩

theorem leAggKey_trans (a b c : (Nat × Nat) × SV) (h1 : leAggKey a b = true) (h2 : leAggKey b c = true) :
    leAggKey a c = true := by
  simp only [leAggKey, decide_eq_true_eq] at *; omega

theorem leAggKey_total (a b : (Nat × Nat) × SV) : (leAggKey a b || leAggKey b a) = true := by
  simp only [leAggKey, Bool.or_eq_true, decide_eq_true_eq]; omega

theorem mergeSort_leAggKey_perm (l l' : List ((Nat × Nat) × SV)) (hp : l.Perm l')
    (hn : (l.map (·.1)).Nodup) : l.mergeSort leAggKey = l'.mergeSort leAggKey := by
  apply mergeSort_eq_of_perm leAggKey leAggKey_trans leAggKey_total l l' hp
  intro a b ha hb hab hba
  apply eq_of_key_eq l hn a b ha hb
  simp only [leAggKey, decide_eq_true_eq] at hab hba
  have h1 : a.1.1 = b.1.1 := by omega
  have h2 : a.1.2 = b.1.2 := by omega
  exact Prod.ext h1 h2

/-- `aggsToMsg` is "sort the entries, then build the messages" -/
theorem aggsToMsg_eq (σ : CodecSched) (m : GoMap (Nat × Nat) SV) :
    aggsToMsg σ m = ((σ.aggs m).mergeSort leAggKey).map toAggMsg := by
  unfold aggsToMsg
  rw [List.map_mergeSort (r := leAggKey) (s := leAgg) (f := toAggMsg)]
  · rfl
  · intro a _ b _; rfl

theorem defsToMsg_eq (σ : CodecSched) (m : GoMap Nat ChanDef) :
    defsToMsg σ m = ((σ.defs m).mergeSort leKey).map (fun e => (e.1, some e.2)) := by
  unfold defsToMsg
  rw [List.map_mergeSort (r := leKey) (s := leKey) (f := fun (e : Nat × ChanDef) => (e.1, some e.2))]
  intro a _ b _; rfl

end DSV.LLO
