import DSV.Lemmas.CodecTextSV
/-!
# Text round trip of timestamped values and of every stream value
-/
namespace DSV.LLO
open DSV

theorem textSV_tsv (t : Nat) (inner : SV) :
    textSV (.tsv t inner) = tsvPre1 ++ (toString t).toList ++ tsvPre2 ++ ttJson inner.type (textSV inner) ++ ['}'] := rfl

theorem svType_le2 (v : SV) : v.type ≤ 2 := by cases v <;> simp [SV.type]

theorem toString_nat_toList (n : Nat) : (toString n).toList = Nat.toDigits 10 n := by simp

theorem ttJson_ne_nil (ty : Nat) (l : List Char) : ttJson ty l ≠ [] := by
  unfold ttJson ttPre1
  simp

theorem contains_newline_false {l : List Char} (h : safeText l) : l.contains '\n' = false := by
  rw [Bool.eq_false_iff]
  intro hc
  have hm : '\n' ∈ l := by simpa using hc
  have := h _ hm
  revert this; decide

theorem matchTSV_text (t : Nat) (inner : SV) :
    matchTSV (textSV (.tsv t inner)) = some (Nat.toDigits 10 t, ttJson inner.type (textSV inner)) := by
  have hJ := safeText_ttJson inner.type _ (safeText_textSV inner)
  unfold matchTSV
  rw [textSV_tsv]
  simp only [List.append_assoc, toString_nat_toList]
  rw [stripPrefix_append]
  dsimp only
  have hpre : tsvPre2 ++ (ttJson inner.type (textSV inner) ++ ['}']) =
      ',' :: (" StreamValue: ".toList ++ (ttJson inner.type (textSV inner) ++ ['}'])) := rfl
  obtain ⟨h1, h2⟩ := takeWhile_append_stop (p := Char.isDigit) (Nat.toDigits 10 t)
    (" StreamValue: ".toList ++ (ttJson inner.type (textSV inner) ++ ['}'])) ',' (allDigits_toDigits t) (by decide)
  rw [hpre, h1, h2]
  have hemp : (Nat.toDigits 10 t).isEmpty = false := by
    cases h : Nat.toDigits 10 t with
    | nil => exact absurd h Nat.toDigits_ne_nil
    | cons _ _ => rfl
  rw [hemp]
  simp only [Bool.false_eq_true, if_false]
  rw [← hpre, stripPrefix_append]
  dsimp only
  rw [List.reverse_append]
  simp only [List.reverse_cons, List.reverse_nil, List.nil_append, List.singleton_append, List.reverse_reverse]
  have hne : (ttJson inner.type (textSV inner)).isEmpty = false := by
    cases h : ttJson inner.type (textSV inner) with
    | nil => exact absurd h (ttJson_ne_nil _ _)
    | cons _ _ => rfl
  rw [hne, contains_newline_false hJ]
  simp

theorem takeJsonInt_digit (d : Char) (n : Nat) (rest : List Char) (hd : d.isDigit = true)
    (hn : Nat.ofDigitChars 10 [d] 0 = n) :
    takeJsonInt (d :: ',' :: rest) = some ((n : Int), ',' :: rest) := by
  have hne := isDigit_ne_special hd
  obtain ⟨h1, h2⟩ := takeWhile_append_stop (p := Char.isDigit) [d] rest ',' (by intro x hx; simp at hx; rw [hx]; exact hd) (by decide)
  simp only [List.cons_append, List.nil_append] at h1 h2
  unfold takeJsonInt
  split
  · rename_i r heq
    have : d = '-' := by injection heq
    exact absurd this hne.2.1
  · simp only [h1, h2, hn]
    simp

theorem decodeTT_ttJson (ty : Nat) (hty : ty ≤ 2) (l : List Char) (h : safeText l) :
    decodeTT (ttJson ty l) = some ((ty : Int), l) := by
  have hdig : (toString ty).toList = [Nat.digitChar ty] := by
    rw [toString_nat_toList, Nat.toDigits_of_lt_base (by omega)]
  have hd : (Nat.digitChar ty).isDigit = true := by
    have : ty = 0 ∨ ty = 1 ∨ ty = 2 := by omega
    rcases this with rfl | rfl | rfl <;> decide
  have hv : Nat.ofDigitChars 10 [Nat.digitChar ty] 0 = ty := by
    have : ty = 0 ∨ ty = 1 ∨ ty = 2 := by omega
    rcases this with rfl | rfl | rfl <;> decide
  unfold decodeTT ttJson
  simp only [List.append_assoc, hdig]
  rw [stripPrefix_append]
  dsimp only
  have hpre : ttPre2 ++ (jsonEscape l ++ ['"', '}']) = ',' :: ("\"v\":\"".toList ++ (jsonEscape l ++ ['"', '}'])) := rfl
  rw [List.singleton_append, hpre, takeJsonInt_digit _ ty _ hd hv]
  dsimp only
  rw [if_neg (by simp only [Dec.minInt32, Dec.maxInt32]; omega), ← hpre, stripPrefix_append]
  dsimp only
  have : jsonEscape l ++ ['"', '}'] = jsonEscape l ++ '"' :: ['}'] := rfl
  rw [this, jsonUnescape_escape l ['}'] h]
  rfl

theorem length_textSV_inner_lt (t : Nat) (inner : SV) : (textSV inner).length < (textSV (.tsv t inner)).length := by
  have := length_jsonEscape_ge (textSV inner)
  rw [textSV_tsv]
  simp only [ttJson, List.length_append, List.length_cons, List.length_nil]
  omega

/-- every stream value's text form parses back to a numerically equal value -/
theorem untextSV_textSV : ∀ (v : SV), v.inRange = true → ∀ fuel, (textSV v).length ≤ fuel →
    ∃ v', untextSV fuel (v.type : Int) (textSV v) = .ok v' ∧ svEqv v' v := by
  intro v
  induction v with
  | dec d =>
    intro hr fuel _
    simp only [SV.inRange] at hr
    obtain ⟨d', hd', e⟩ := parseDec_toStr d hr
    refine ⟨.dec d', ?_, e⟩
    unfold untextSV
    simp [SV.type, textSV, untextDec, hd']
  | quote b m a =>
    intro hr fuel _
    simp only [SV.inRange, Bool.and_eq_true] at hr
    obtain ⟨b', m', a', hq, eb, em, ea⟩ := untextQuote_text b m a hr.1.1 hr.1.2 hr.2
    refine ⟨.quote b' m' a', ?_, eb, em, ea⟩
    unfold untextSV
    simp [SV.type, hq]
  | tsv t inner ih =>
    intro hr fuel hfuel
    simp only [SV.inRange, Bool.and_eq_true, decide_eq_true_eq] at hr
    have hlt := length_textSV_inner_lt t inner
    obtain ⟨f, rfl⟩ : ∃ f, fuel = f + 1 := ⟨fuel - 1, by omega⟩
    obtain ⟨v', hv', ev⟩ := ih hr.2 f (by omega)
    refine ⟨.tsv t v', ?_, rfl, ev⟩
    rw [untextSV]
    have e2 : ((SV.type (.tsv t inner) : Nat) : Int) = 2 := rfl
    rw [e2]
    simp only [show ¬ ((2 : Int) = 0) by decide, show ¬ ((2 : Int) = 1) by decide, if_false, if_true]
    rw [matchTSV_text]
    dsimp only
    rw [Nat.ofDigitChars_ten_toDigits, if_neg (by omega), decodeTT_ttJson _ (svType_le2 inner) _ (safeText_textSV inner)]
    dsimp only
    rw [hv']

end DSV.LLO
