import DSV.LLO.CodecJson
import DSV.Lemmas.CodecTextTSV
/-!
# Helper lemmas for the JSON report codec: hex digest, value lists
-/
namespace DSV.LLO
open DSV

theorem hexCharVal_hexDigitChar : ∀ n : Fin 16, hexCharVal (hexDigitChar n.val) = some n.val := by decide

theorem hexDecode_hexEncode (bs : List UInt8) : hexDecode (hexEncode bs) = some bs := by
  induction bs with
  | nil => rfl
  | cons b bs ih =>
    have hb : b.toNat < 256 := b.toNat_lt
    have h1 := hexCharVal_hexDigitChar ⟨b.toNat / 16, by omega⟩
    have h2 := hexCharVal_hexDigitChar ⟨b.toNat % 16, by omega⟩
    simp only at h1 h2
    simp only [hexEncode, hexDecode, h1, h2, ih]
    have : b.toNat / 16 * 16 + b.toNat % 16 = b.toNat := by omega
    rw [this, UInt8.ofNat_toNat]

theorem digestFromHex_hexEncode (d : List UInt8) (h : d.length = 32) : digestFromHex (hexEncode d) = .ok d := by
  unfold digestFromHex
  rw [hexDecode_hexEncode]
  simp [h]

theorem digestFromHex_ok_length (s : List Char) (d : List UInt8) (h : digestFromHex s = .ok d) : d.length = 32 := by
  unfold digestFromHex at h
  split at h
  · cases h
  · split at h
    · cases h
    · rename_i hl
      cases h
      apply Classical.byContradiction
      intro hn; exact hl hn

/-- pointwise "numerically equal" on value lists -/
def svListEqv : List SV → List SV → Prop
  | [], [] => True
  | a :: as, b :: bs => svEqv a b ∧ svListEqv as bs
  | _, _ => False

theorem json_values_roundtrip (vs : List SV) (hr : ∀ v ∈ vs, v.inRange = true) :
    ∃ vs', jsonEncodeValues (vs.map some) = .ok (vs.map (fun v => (Int.ofNat v.type, textSV v))) ∧
      jsonDecodeValues (vs.map (fun v => (Int.ofNat v.type, textSV v))) = .ok (vs'.map some) ∧
      svListEqv vs' vs := by
  induction vs with
  | nil => exact ⟨[], rfl, rfl, trivial⟩
  | cons v vs ih =>
    obtain ⟨vs', h1, h2, h3⟩ := ih (fun x hx => hr x (List.mem_cons_of_mem _ hx))
    obtain ⟨v', hv', ev⟩ := untextSV_textSV v (hr v (List.mem_cons_self)) (textSV v).length (Nat.le_refl _)
    refine ⟨v' :: vs', ?_, ?_, ev, h3⟩
    · simp only [List.map_cons, jsonEncodeValues, h1]
    · simp only [List.map_cons, jsonDecodeValues]
      have : (Int.ofNat v.type) = ((v.type : Nat) : Int) := rfl
      rw [this, hv', h2]

theorem jsonEncodeValues_nil_err (vals : List (Option SV)) (h : none ∈ vals) :
    jsonEncodeValues vals = .err errNilValueJson := by
  induction vals with
  | nil => cases h
  | cons x xs ih =>
    cases x with
    | none => rfl
    | some v =>
      have hx : none ∈ xs := by
        rcases List.mem_cons.mp h with h' | h'
        · cases h'
        · exact h'
      simp only [jsonEncodeValues, ih hx]

end DSV.LLO
