import DSV.Go.Bytes
namespace DSV

theorem beBytes_length (len n : Nat) : (beBytes len n).length = len := by
  induction len generalizing n with
  | zero => rfl
  | succ k ih => simp [beBytes, ih]

theorem fromBE_foldl (acc : Nat) (bs : List UInt8) :
    bs.foldl (fun acc b => acc * 256 + b.toNat) acc = acc * 256 ^ bs.length + fromBE bs := by
  induction bs generalizing acc with
  | nil => simp [fromBE]
  | cons b bs ih =>
    simp only [List.foldl_cons, fromBE, List.length_cons]
    rw [ih, ih (0 * 256 + b.toNat)]
    simp [Nat.pow_succ, Nat.add_mul, Nat.mul_assoc, Nat.add_assoc, Nat.mul_comm 256]

theorem fromBE_append (as bs : List UInt8) :
    fromBE (as ++ bs) = fromBE as * 256 ^ bs.length + fromBE bs := by
  simp only [fromBE, List.foldl_append]
  rw [fromBE_foldl]; rfl

theorem fromBE_single (b : UInt8) : fromBE [b] = b.toNat := by simp [fromBE]

theorem uint8_ofNat_mod (n : Nat) : (UInt8.ofNat (n % 256)).toNat = n % 256 := by
  simp [UInt8.toNat_ofNat']

theorem fromBE_beBytes (len n : Nat) : fromBE (beBytes len n) = n % 256 ^ len := by
  induction len generalizing n with
  | zero => simp [beBytes, fromBE, Nat.mod_one]
  | succ k ih =>
    rw [beBytes, fromBE_append, ih, fromBE_single, uint8_ofNat_mod]
    simp only [List.length_singleton, Nat.pow_one]
    rw [Nat.pow_succ, Nat.mul_comm (256 ^ k) 256, Nat.mod_mul, Nat.mul_comm]
    omega

theorem fromBE_replicate_zero (k : Nat) : fromBE (List.replicate k (0 : UInt8)) = 0 := by
  induction k with
  | zero => rfl
  | succ k ih =>
    rw [List.replicate_succ', fromBE_append, ih]; simp [fromBE]

theorem fromBE_replicate_ff (k : Nat) : fromBE (List.replicate k (0xff : UInt8)) = 256 ^ k - 1 := by
  induction k with
  | zero => rfl
  | succ k ih =>
    rw [List.replicate_succ', fromBE_append, ih, fromBE_single]
    simp only [List.length_singleton, Nat.pow_succ]
    have : 0 < 256 ^ k := Nat.pow_pos (by omega)
    have h : (0xff : UInt8).toNat = 255 := rfl
    rw [h]
    omega

theorem fromBE_lt (bs : List UInt8) : fromBE bs < 256 ^ bs.length := by
  induction bs with
  | nil => simp [fromBE]
  | cons b bs ih =>
    have h : fromBE (b :: bs) = fromBE ([b] ++ bs) := rfl
    rw [h, fromBE_append, fromBE_single]
    simp only [List.length_cons, Nat.pow_succ]
    have : b.toNat < 256 := b.toNat_lt
    have hp : 0 < 256 ^ bs.length := Nat.pow_pos (by omega)
    calc b.toNat * 256 ^ bs.length + fromBE bs
        < b.toNat * 256 ^ bs.length + 256 ^ bs.length := by omega
      _ = (b.toNat + 1) * 256 ^ bs.length := by rw [Nat.add_mul]; simp
      _ ≤ 256 * 256 ^ bs.length := Nat.mul_le_mul_right _ (by omega)
      _ = 256 ^ bs.length * 256 := Nat.mul_comm _ _

theorem pow256 (k : Nat) : 256 ^ k = 2 ^ (8 * k) := by
  rw [show (256 : Nat) = 2 ^ 8 by rfl, ← Nat.pow_mul]

end DSV
