import DSV.Lemmas.CodecTextDec
import DSV.LLO.TextSV
/-!
# Shape of `Dec.toStr` (shopspring `String()`) and the decimal text round trip
-/
namespace DSV.LLO
open DSV

theorem trim_zeros (fp : List Char) :
    ∃ z, fp = (fp.reverse.dropWhile (· == '0')).reverse ++ List.replicate z '0' := by
  refine ⟨(fp.reverse.takeWhile (· == '0')).length, ?_⟩
  have h1 : fp.reverse = fp.reverse.takeWhile (· == '0') ++ fp.reverse.dropWhile (· == '0') :=
    (List.takeWhile_append_dropWhile).symm
  have h2 : fp.reverse.takeWhile (· == '0') = List.replicate (fp.reverse.takeWhile (· == '0')).length '0' := by
    rw [List.eq_replicate_iff]
    refine ⟨rfl, ?_⟩
    intro c hc
    have hall : (fp.reverse.takeWhile (· == '0')).all (· == '0') = true := List.all_takeWhile
    rw [List.all_eq_true] at hall
    simpa using hall c hc
  have h3 : fp = (fp.reverse.dropWhile (· == '0')).reverse ++ (fp.reverse.takeWhile (· == '0')).reverse := by
    have := congrArg List.reverse h1
    rw [List.reverse_reverse, List.reverse_append] at this
    exact this
  rw [h2, List.reverse_replicate] at h3
  exact h3

theorem ofDigitChars_append_zeros (a : List Char) (z : Nat) :
    Nat.ofDigitChars 10 (a ++ List.replicate z '0') 0 = Nat.ofDigitChars 10 a 0 * 10 ^ z := by
  rw [Nat.ofDigitChars_append, Nat.ofDigitChars_replicate_zero, Nat.mul_comm]

theorem ofDigitChars_zeros_append (z : Nat) (a : List Char) :
    Nat.ofDigitChars 10 (List.replicate z '0' ++ a) 0 = Nat.ofDigitChars 10 a 0 := by
  rw [Nat.ofDigitChars_append, Nat.ofDigitChars_replicate_zero]
  simp

theorem ofDigitChars_zero_cons (a : List Char) :
    Nat.ofDigitChars 10 ('0' :: a) 0 = Nat.ofDigitChars 10 a 0 := by
  rw [Nat.ofDigitChars_cons]
  rfl

/-- the coefficient `String()` prints for a non-negative exponent -/
def scaledCoef (d : Dec) : Int := d.coef * 10 ^ d.exp.toNat

theorem rescale0_coef (d : Dec) (h : d.exp ≥ 0) : (d.rescale 0).coef = scaledCoef d := by
  unfold Dec.rescale scaledCoef
  by_cases h0 : (0 : Int) = d.exp
  · rw [if_pos h0, ← h0]; simp
  · rw [if_neg h0, if_neg (by omega)]
    simp

theorem int_toString_toList (c : Int) :
    (toString c).toList = signChars (decide (c < 0)) ++ Nat.toDigits 10 c.natAbs := by
  rw [Int.toString_eq_repr, Int.repr_eq_if]
  by_cases h : 0 ≤ c
  · rw [if_pos h]
    have : decide (c < 0) = false := by simp; omega
    rw [this]
    simp only [signChars, Bool.false_eq_true, if_false, List.nil_append, Nat.toList_repr]
    congr 1; omega
  · rw [if_neg h]
    have : decide (c < 0) = true := by simp; omega
    rw [this]
    simp only [signChars, if_true, String.toList_append, Nat.toList_repr]
    have hs : ("-" : String).toList = ['-'] := rfl
    rw [hs]
    congr 2; omega

theorem toStr_toList_nonneg (d : Dec) (h : d.exp ≥ 0) :
    d.toStr.toList = signChars (decide (scaledCoef d < 0)) ++ Nat.toDigits 10 (scaledCoef d).natAbs := by
  unfold Dec.toStr
  rw [if_pos h, rescale0_coef d h, int_toString_toList]

/-- shape of the printed text for a negative exponent -/
theorem toStr_toList_neg (d : Dec) (h : d.exp < 0) :
    ∃ ip fpT z, d.toStr.toList = signChars (decide (d.coef < 0)) ++ ip ++ (if fpT = [] then [] else '.' :: fpT) ∧
      allDigits ip ∧ ip ≠ [] ∧ allDigits fpT ∧ fpT.length + z = (-d.exp).toNat ∧
      Nat.ofDigitChars 10 (ip ++ fpT) 0 * 10 ^ z = d.coef.natAbs := by
  have hstr : (Dec.digitsOfNat d.coef.natAbs).toList = Nat.toDigits 10 d.coef.natAbs := by
    simp [Dec.digitsOfNat]
  have hdig := allDigits_toDigits d.coef.natAbs
  have hval : Nat.ofDigitChars 10 (Nat.toDigits 10 d.coef.natAbs) 0 = d.coef.natAbs := Nat.ofDigitChars_ten_toDigits
  -- the two ways of splitting the digit string
  have key : ∀ (ip fp : List Char), allDigits ip → ip ≠ [] → allDigits fp → fp.length = (-d.exp).toNat →
      Nat.ofDigitChars 10 (ip ++ fp) 0 = d.coef.natAbs →
      ∃ ip' fpT z,
        (if d.coef < 0 then '-' :: (if (fp.reverse.dropWhile (· == '0')).reverse.length > 0
            then ip ++ ['.'] ++ (fp.reverse.dropWhile (· == '0')).reverse else ip)
          else (if (fp.reverse.dropWhile (· == '0')).reverse.length > 0
            then ip ++ ['.'] ++ (fp.reverse.dropWhile (· == '0')).reverse else ip)) =
          signChars (decide (d.coef < 0)) ++ ip' ++ (if fpT = [] then [] else '.' :: fpT) ∧
        allDigits ip' ∧ ip' ≠ [] ∧ allDigits fpT ∧ fpT.length + z = (-d.exp).toNat ∧
        Nat.ofDigitChars 10 (ip' ++ fpT) 0 * 10 ^ z = d.coef.natAbs := by
    intro ip fp hip hne hfp hlen hv
    obtain ⟨z, hz⟩ := trim_zeros fp
    refine ⟨ip, (fp.reverse.dropWhile (· == '0')).reverse, z, ?_, hip, hne, ?_, ?_, ?_⟩
    · by_cases hneg : d.coef < 0
      · simp only [hneg, if_true, decide_true, signChars]
        by_cases hl : (fp.reverse.dropWhile (· == '0')).reverse.length > 0
        · have : (fp.reverse.dropWhile (· == '0')).reverse ≠ [] := by
            intro he; rw [he] at hl; simp at hl
          have this' : fp.reverse.dropWhile (· == '0') ≠ [] := by simpa using this
          simp [hl, this']
        · have : (fp.reverse.dropWhile (· == '0')).reverse = [] := by
            apply List.eq_nil_of_length_eq_zero; omega
          simp [this]
      · simp only [hneg, if_false, decide_false, signChars, Bool.false_eq_true, List.nil_append]
        by_cases hl : (fp.reverse.dropWhile (· == '0')).reverse.length > 0
        · have : (fp.reverse.dropWhile (· == '0')).reverse ≠ [] := by
            intro he; rw [he] at hl; simp at hl
          have this' : fp.reverse.dropWhile (· == '0') ≠ [] := by simpa using this
          simp [hl, this']
        · have : (fp.reverse.dropWhile (· == '0')).reverse = [] := by
            apply List.eq_nil_of_length_eq_zero; omega
          simp [this]
    · apply allDigits_sublist _ hfp
      exact (List.reverse_sublist.mpr (List.dropWhile_sublist _)).trans (by rw [List.reverse_reverse]; exact List.Sublist.refl _)
    · have := congrArg List.length hz
      rw [List.length_append, List.length_replicate] at this
      omega
    · rw [← hv]
      conv => rhs; rw [hz, ← List.append_assoc, ofDigitChars_append_zeros]
  unfold Dec.toStr
  rw [if_neg (by omega), String.toList_ofList]
  simp only [hstr]
  by_cases hlong : (Nat.toDigits 10 d.coef.natAbs).length > (-d.exp).toNat
  · simp only [hlong, if_true]
    apply key
    · exact allDigits_sublist (List.take_sublist _ _) hdig
    · intro he
      have := congrArg List.length he
      rw [List.length_take] at this
      simp at this
      omega
    · exact allDigits_sublist (List.drop_sublist _ _) hdig
    · rw [List.length_drop]; omega
    · rw [List.take_append_drop, hval]
  · simp only [hlong, if_false]
    apply key
    · intro c hc; simp at hc; rw [hc]; decide
    · simp
    · exact allDigits_append.mpr ⟨allDigits_replicate_zero _, hdig⟩
    · rw [List.length_append, List.length_replicate]; omega
    · rw [List.cons_append, ofDigitChars_zero_cons, List.nil_append, ofDigitChars_zeros_append, hval]

/-- the decimal printer / parser contract: the printed text parses to a numerically equal decimal -/
theorem parseDec_toStr (d : Dec) (h : d.expOk = true) :
    ∃ d', parseDec d.toStr.toList = some d' ∧ decEqv d' d := by
  simp [Dec.expOk, Dec.minInt32, Dec.maxInt32] at h
  have h1 := of_decide_eq_true h.1
  by_cases hexp : d.exp ≥ 0
  · have hp := parseDec_printed (decide (scaledCoef d < 0)) (Nat.toDigits 10 (scaledCoef d).natAbs) []
      (allDigits_toDigits _) Nat.toDigits_ne_nil (by intro c hc; cases hc) (by simp)
    simp only [if_true, List.append_nil, List.length_nil] at hp
    rw [toStr_toList_nonneg d hexp, hp]
    refine ⟨_, rfl, ?_⟩
    rw [Nat.ofDigitChars_ten_toDigits]
    unfold decEqv Dec.coefAt
    simp only
    have hmin : min (-((0 : Nat) : Int)) d.exp = 0 := by simp; omega
    rw [hmin]
    simp only [Int.natCast_zero, Int.neg_zero, Int.sub_self, Int.toNat_zero, Int.pow_zero, Int.mul_one, Int.sub_zero]
    unfold scaledCoef
    by_cases hneg : d.coef * 10 ^ d.exp.toNat < 0
    · simp only [hneg, decide_true, if_true]; omega
    · simp only [hneg, decide_false, Bool.false_eq_true, if_false]; omega
  · obtain ⟨ip, fpT, z, htxt, hip, hne, hfp, hlen, hv⟩ := toStr_toList_neg d (by omega)
    have hp := parseDec_printed (decide (d.coef < 0)) ip fpT hip hne hfp (by omega)
    rw [htxt, hp]
    refine ⟨_, rfl, ?_⟩
    unfold decEqv Dec.coefAt
    simp only
    have hmin : min (-(fpT.length : Int)) d.exp = d.exp := by
      rw [Int.min_def]; split <;> omega
    rw [hmin]
    have he1 : (-(fpT.length : Int) - d.exp).toNat = z := by omega
    rw [he1]
    simp only [Int.sub_self, Int.toNat_zero, Int.pow_zero, Int.mul_one]
    have hvz : ((Nat.ofDigitChars 10 (ip ++ fpT) 0 : Nat) : Int) * (10 : Int) ^ z = (d.coef.natAbs : Int) := by
      have := congrArg (fun (n : Nat) => (n : Int)) hv
      simp only [Int.natCast_mul, Int.natCast_pow] at this
      exact this
    by_cases hneg : d.coef < 0
    · simp only [hneg, decide_true, if_true]
      rw [Int.neg_mul, hvz]; omega
    · simp only [hneg, decide_false, Bool.false_eq_true, if_false]
      rw [hvz]; omega

end DSV.LLO
