import DSV.LLO.TextDec
/-!
# `parseDec` (shopspring `NewFromString`) reads back what `Dec.toStr` (shopspring `String()`) prints
-/
namespace DSV.LLO
open DSV

def allDigits (l : List Char) : Prop := ∀ c ∈ l, c.isDigit = true

theorem isDigit_ne_special {c : Char} (h : c.isDigit = true) :
    c ≠ '.' ∧ c ≠ '-' ∧ c ≠ '+' ∧ c ≠ 'E' ∧ c ≠ 'e' ∧ c ≠ '\n' ∧ c ≠ ',' ∧ c ≠ '}' := by
  refine ⟨?_, ?_, ?_, ?_, ?_, ?_, ?_, ?_⟩ <;> (intro hc; subst hc; revert h; decide)

theorem allDigits_append {a b : List Char} : allDigits (a ++ b) ↔ allDigits a ∧ allDigits b := by
  simp only [allDigits, List.mem_append]
  constructor
  · intro h; exact ⟨fun c hc => h c (Or.inl hc), fun c hc => h c (Or.inr hc)⟩
  · rintro ⟨h1, h2⟩ c (hc | hc); exact h1 c hc; exact h2 c hc

theorem allDigits_all {l : List Char} (h : allDigits l) : l.all Char.isDigit = true := by
  rw [List.all_eq_true]; exact h

theorem allDigits_toDigits (n : Nat) : allDigits (Nat.toDigits 10 n) :=
  fun _ hc => Nat.isDigit_of_mem_toDigits (by decide) (by decide) hc

theorem allDigits_replicate_zero (n : Nat) : allDigits (List.replicate n '0') := by
  intro c hc
  rw [List.mem_replicate] at hc
  rw [hc.2]; decide

theorem allDigits_sublist {a b : List Char} (h : a.Sublist b) (hb : allDigits b) : allDigits a :=
  fun c hc => hb c (h.subset hc)

/-! ## the pieces of `parseDec` on digit strings -/

theorem splitExp_no_e (l : List Char) (h : ∀ c ∈ l, c ≠ 'E' ∧ c ≠ 'e') : splitExp l = (l, none) := by
  induction l with
  | nil => rfl
  | cons c cs ih =>
    have hc := h c (List.mem_cons_self)
    simp only [splitExp]
    rw [if_neg (by simp [hc.1, hc.2]), ih (fun x hx => h x (List.mem_cons_of_mem _ hx))]

theorem splitDot_no_dot (l : List Char) (h : ∀ c ∈ l, c ≠ '.') : splitDot l = none := by
  induction l with
  | nil => rfl
  | cons c cs ih =>
    simp only [splitDot]
    rw [if_neg (h c (List.mem_cons_self)), ih (fun x hx => h x (List.mem_cons_of_mem _ hx))]
    rfl

theorem splitDot_at (a b : List Char) (h : ∀ c ∈ a, c ≠ '.') : splitDot (a ++ '.' :: b) = some (a, b) := by
  induction a with
  | nil => simp [splitDot]
  | cons c cs ih =>
    simp only [List.cons_append, splitDot]
    rw [if_neg (h c (List.mem_cons_self)), ih (fun x hx => h x (List.mem_cons_of_mem _ hx))]
    rfl

theorem count_dot_no_dot (l : List Char) (h : ∀ c ∈ l, c ≠ '.') : l.count '.' = 0 := by
  rw [List.count_eq_zero]
  intro hm; exact h '.' hm rfl

/-- sign prefix -/
def signChars (neg : Bool) : List Char := if neg then ['-'] else []

theorem parseSignedDigits_digits (neg : Bool) (ds : List Char) (hne : ds ≠ []) (hd : allDigits ds) :
    parseSignedDigits (signChars neg ++ ds) =
      some (if neg then -((Nat.ofDigitChars 10 ds 0 : Nat) : Int) else ((Nat.ofDigitChars 10 ds 0 : Nat) : Int)) := by
  have hall := allDigits_all hd
  have hemp : ds.isEmpty = false := by
    cases ds with
    | nil => exact absurd rfl hne
    | cons _ _ => rfl
  cases neg with
  | true =>
    simp only [signChars, if_true, List.cons_append, List.nil_append, parseSignedDigits]
    simp [hemp, hall]
  | false =>
    simp only [signChars, Bool.false_eq_true, if_false, List.nil_append]
    cases ds with
    | nil => exact absurd rfl hne
    | cons c cs =>
      have hc := isDigit_ne_special (hd c (List.mem_cons_self))
      unfold parseSignedDigits
      split
      · rename_i r heq
        have : c = '-' := by injection heq
        exact absurd this hc.2.1
      · rename_i r heq
        have : c = '+' := by injection heq
        exact absurd this hc.2.2.1
      · simp [hall]

theorem exp_range_ok (n : Nat) (h : (n : Int) ≤ 2147483648) :
    ¬ ((0 : Int) - (n : Int) < Dec.minInt32 ∨ (0 : Int) - (n : Int) > Dec.maxInt32) := by
  simp only [Dec.minInt32, Dec.maxInt32]; omega

/-- a printed number `-?ip(.fp)?` parses to `±digits(ip ++ fp) · 10^(-|fp|)` -/
theorem parseDec_printed (neg : Bool) (ip fp : List Char) (hip : allDigits ip) (hne : ip ≠ [])
    (hfp : allDigits fp) (hlen : (fp.length : Int) ≤ 2147483648) :
    parseDec (signChars neg ++ ip ++ (if fp = [] then [] else '.' :: fp)) =
      some ⟨if neg then -((Nat.ofDigitChars 10 (ip ++ fp) 0 : Nat) : Int) else ((Nat.ofDigitChars 10 (ip ++ fp) 0 : Nat) : Int),
            -(fp.length : Int)⟩ := by
  have hsign : ∀ c ∈ signChars neg, c = '-' := by
    intro c hc; cases neg <;> simp [signChars] at hc; exact hc
  have hnoE : ∀ c ∈ signChars neg ++ ip ++ (if fp = [] then [] else '.' :: fp), c ≠ 'E' ∧ c ≠ 'e' := by
    intro c hc
    simp only [List.mem_append] at hc
    rcases hc with (hc | hc) | hc
    · rw [hsign c hc]; decide
    · have := isDigit_ne_special (hip c hc); exact ⟨this.2.2.2.1, this.2.2.2.2.1⟩
    · by_cases hf : fp = []
      · simp [hf] at hc
      · simp only [hf, if_false, List.mem_cons] at hc
        rcases hc with rfl | hc
        · decide
        · have := isDigit_ne_special (hfp c hc); exact ⟨this.2.2.2.1, this.2.2.2.2.1⟩
  have hnodot1 : ∀ c ∈ signChars neg ++ ip, c ≠ '.' := by
    intro c hc
    simp only [List.mem_append] at hc
    rcases hc with hc | hc
    · rw [hsign c hc]; decide
    · exact (isDigit_ne_special (hip c hc)).1
  have hnodotfp : ∀ c ∈ fp, c ≠ '.' := fun c hc => (isDigit_ne_special (hfp c hc)).1
  have hds : allDigits (ip ++ fp) := allDigits_append.mpr ⟨hip, hfp⟩
  have hne' : ip ++ fp ≠ [] := by simp [hne]
  unfold parseDec
  rw [splitExp_no_e _ hnoE]
  simp only
  by_cases hf : fp = []
  · subst hf
    simp only [if_true, List.append_nil, List.length_nil] at *
    rw [count_dot_no_dot _ hnodot1, if_neg (by omega), splitDot_no_dot _ hnodot1]
    simp only
    rw [parseSignedDigits_digits neg ip hne hip]
    dsimp only
    rw [if_neg (exp_range_ok _ hlen)]
    simp
  · simp only [hf, if_false]
    have hcount : (signChars neg ++ ip ++ '.' :: fp).count '.' = 1 := by
      rw [List.count_append, count_dot_no_dot _ hnodot1, List.count_cons_self, count_dot_no_dot _ hnodotfp]
    rw [hcount, if_neg (by omega), splitDot_at _ _ hnodot1]
    simp only
    rw [List.append_assoc, parseSignedDigits_digits neg (ip ++ fp) hne' hds]
    dsimp only
    rw [if_neg (exp_range_ok _ hlen)]
    simp

end DSV.LLO
