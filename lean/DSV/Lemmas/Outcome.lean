import DSV.LLO.Plugin
import DSV.Lemmas.GoMap
/-!
# Specification lemmas for the sections of `outcome()`
-/
namespace DSV.LLO
open DSV DSV.GoMap

/-- decomposition of a successful `outcome` -/
theorem outcome_ok {env : Env} {cfg : Cfg} {σ : Sched} {n : Nat} {prev : Outcome} {obs : List Obs} {o : Outcome}
    (h : outcome env cfg σ n prev obs = .ok o) :
    2 * cfg.f + 1 ≤ n ∧
    ∃ t, tally env cfg obs = .ok t ∧ t.tss ≠ [] ∧
      o.stage = stageOf cfg prev t ∧ o.ts = medianTimestamp t.tss ∧
      o.defs = defsOf env cfg σ (stageOf cfg prev t) prev t ∧
      o.va = vaOf cfg σ prev t (medianTimestamp t.tss) o.defs (removalsOf cfg σ (stageOf cfg prev t) prev t).1 ∧
      aggregateAll cfg prev t.streamObs (σ.defsAgg o.defs) = .ok o.aggs := by
  unfold outcome at h
  split at h
  · cases h
  · rename_i hn
    refine ⟨by omega, ?_⟩
    cases ht : tally env cfg obs with
    | err e => rw [ht] at h; cases h
    | panic => rw [ht] at h; cases h
    | ok t =>
      rw [ht] at h
      simp only [GoRes.bind] at h
      split at h
      · cases h
      · rename_i hlen
        cases ha : aggregateAll cfg prev t.streamObs
            (σ.defsAgg (defsOf env cfg σ (stageOf cfg prev t) prev t)) with
        | err e => rw [ha] at h; cases h
        | panic => rw [ha] at h; cases h
        | ok aggs =>
          rw [ha] at h
          simp only [GoRes.bind] at h
          cases h
          refine ⟨t, rfl, ?_, rfl, rfl, rfl, rfl, ha⟩
          intro hnil; rw [hnil] at hlen; simp at hlen

/-! ## LifeCycleStage -/

theorem stageOf_cases (cfg : Cfg) (prev : Outcome) (t : Tally) :
    stageOf cfg prev t = prev.stage ∨
    (prev.stage = stageStaging ∧ t.validRR.isSome = true ∧ stageOf cfg prev t = stageProduction) ∨
    (prev.stage = stageProduction ∧ cfg.f < t.retireVotes ∧ stageOf cfg prev t = stageRetired) ∨
    (prev.stage = stageStaging ∧ t.validRR.isSome = true ∧ cfg.f < t.retireVotes ∧ stageOf cfg prev t = stageRetired) := by
  by_cases hp : (prev.stage == stageStaging && t.validRR.isSome) = true
  · have hp' := hp
    simp only [Bool.and_eq_true, beq_iff_eq] at hp'
    by_cases hr : cfg.f < t.retireVotes
    · have : stageOf cfg prev t = stageRetired := by simp [stageOf, promotedBy, hp, hr]
      right; right; right; exact ⟨hp'.1, hp'.2, hr, this⟩
    · have : stageOf cfg prev t = stageProduction := by simp [stageOf, promotedBy, hp, hr]
      right; left; exact ⟨hp'.1, hp'.2, this⟩
  · by_cases hq : (prev.stage == stageProduction && decide (t.retireVotes > cfg.f)) = true
    · have : stageOf cfg prev t = stageRetired := by simp [stageOf, promotedBy, hp, hq]
      simp only [Bool.and_eq_true, beq_iff_eq, decide_eq_true_eq] at hq
      right; right; left; exact ⟨hq.1, hq.2, this⟩
    · have : stageOf cfg prev t = prev.stage := by simp [stageOf, promotedBy, hp, hq]
      left; exact this

theorem stageOf_retired (cfg : Cfg) (prev : Outcome) (t : Tally) (h : prev.stage = stageRetired) :
    stageOf cfg prev t = stageRetired := by
  unfold stageOf promotedBy
  simp [h, stageRetired, stageStaging, stageProduction]

/-! ## removals -/

def removedIds (cfg : Cfg) (votes : List (Nat × Nat)) : List Nat :=
  (votes.filter (fun e => decide (cfg.f < e.2))).map (·.1)

theorem applyRemovals_foldl (cfg : Cfg) (votes : List (Nat × Nat)) (acc : List Nat × GoMap Nat ChanDef) :
    (votes.foldl (fun (acc : List Nat × GoMap Nat ChanDef) e =>
      if e.2 ≤ cfg.f then acc else (acc.1 ++ [e.1], acc.2.erase e.1)) acc) =
    (acc.1 ++ removedIds cfg votes, (removedIds cfg votes).foldl (fun m id => m.erase id) acc.2) := by
  induction votes generalizing acc with
  | nil => simp [removedIds]
  | cons e es ih =>
    simp only [List.foldl_cons]
    by_cases h : e.2 ≤ cfg.f
    · have hn : ¬ cfg.f < e.2 := by omega
      simp only [h, if_true, ih, removedIds, List.filter_cons, hn, decide_false, Bool.false_eq_true, if_false]
    · have hn : cfg.f < e.2 := by omega
      simp only [h, if_false, ih, removedIds, List.filter_cons, hn, decide_true, if_true, List.map_cons,
        List.foldl_cons, List.append_assoc, List.singleton_append]

theorem applyRemovals_spec (cfg : Cfg) (votes : List (Nat × Nat)) (defs : GoMap Nat ChanDef) :
    (applyRemovals cfg votes defs).1 = removedIds cfg votes ∧
    ∀ k, get? (applyRemovals cfg votes defs).2 k = if k ∈ removedIds cfg votes then none else get? defs k := by
  unfold applyRemovals
  rw [applyRemovals_foldl]
  exact ⟨by simp, fun k => get?_foldl_erase _ _ _⟩

theorem mem_removedIds (cfg : Cfg) (votes : List (Nat × Nat)) (k : Nat) :
    k ∈ removedIds cfg votes ↔ ∃ v, (k, v) ∈ votes ∧ cfg.f < v := by
  unfold removedIds
  simp only [List.mem_map, List.mem_filter, decide_eq_true_eq]
  constructor
  · rintro ⟨e, ⟨he, hv⟩, rfl⟩; exact ⟨e.2, he, hv⟩
  · rintro ⟨v, hm, hv⟩; exact ⟨(k, v), ⟨hm, hv⟩, rfl⟩

theorem removedIds_perm (cfg : Cfg) {a b : List (Nat × Nat)} (h : a.Perm b) (k : Nat) :
    k ∈ removedIds cfg a ↔ k ∈ removedIds cfg b := by
  rw [mem_removedIds, mem_removedIds]
  constructor <;> rintro ⟨v, hm, hv⟩
  · exact ⟨v, h.mem_iff.mp hm, hv⟩
  · exact ⟨v, h.mem_iff.mpr hm, hv⟩

/-! ## updates -/

/-- every definition that differs from the start map after the update loop comes from a candidate
    with more than `f` votes -/
theorem applyUpdates_changed (env : Env) (cfg : Cfg) (updVotes : GoMap Hash Nat)
    (cands : List (Hash × (Nat × ChanDef))) (defs : GoMap Nat ChanDef) (k : Nat) :
    get? (applyUpdates env cfg updVotes cands defs) k = get? defs k ∨
    ∃ c ∈ cands, c.2.1 = k ∧ cfg.f < (updVotes.get? c.1).getD 0 ∧
      get? (applyUpdates env cfg updVotes cands defs) k = some c.2.2 := by
  unfold applyUpdates
  induction cands generalizing defs with
  | nil => left; rfl
  | cons c cs ih =>
    simp only [List.foldl_cons]
    by_cases hv : (updVotes.get? c.1).getD 0 ≤ cfg.f
    · simp only [hv, if_true]
      rcases ih defs with h | ⟨c', hc', h1, h2, h3⟩
      · left; exact h
      · right; exact ⟨c', by simp [hc'], h1, h2, h3⟩
    · simp only [hv, if_false]
      -- after processing c the map is either unchanged or has c.2.1 ↦ c.2.2
      have step : ∀ (d : GoMap Nat ChanDef),
          (d = defs ∨ d = defs.set c.2.1 c.2.2) →
          (get? (cs.foldl (fun defs c => if (updVotes.get? c.1).getD 0 ≤ cfg.f then defs
              else if defs.contains c.2.1 then defs.set c.2.1 c.2.2
              else if defs.length ≥ env.maxChannels then defs else defs.set c.2.1 c.2.2) d) k = get? defs k ∨
           ∃ c' ∈ c :: cs, c'.2.1 = k ∧ cfg.f < (updVotes.get? c'.1).getD 0 ∧
            get? (cs.foldl (fun defs c => if (updVotes.get? c.1).getD 0 ≤ cfg.f then defs
              else if defs.contains c.2.1 then defs.set c.2.1 c.2.2
              else if defs.length ≥ env.maxChannels then defs else defs.set c.2.1 c.2.2) d) k = some c'.2.2) := by
        intro d hd
        rcases ih d with h | ⟨c', hc', h1, h2, h3⟩
        · rcases hd with rfl | rfl
          · left; exact h
          · rw [get?_set] at h
            by_cases hk : k = c.2.1
            · right; exact ⟨c, by simp, hk.symm, by omega, by rw [h]; simp [hk]⟩
            · left; rw [h]; simp [hk]
        · right; exact ⟨c', by simp [hc'], h1, h2, h3⟩
      split
      · exact step _ (Or.inr rfl)
      · split
        · exact step _ (Or.inl rfl)
        · exact step _ (Or.inr rfl)

/-! ## ValidAfterNanoseconds -/

/-- new validity start of a channel that has an entry `v`: the previous observation timestamp if
    the previous outcome was reportable for it, else unchanged -/
def carried (cfg : Cfg) (prev : Outcome) (c v : Nat) : Nat :=
  match isReportable prev c cfg.version cfg.minInterval with
  | some _ => v
  | none => prev.ts

theorem carryValidAfter_spec (cfg : Cfg) (prev : Outcome) (entries : List (Nat × Nat))
    (hnd : (entries.map (·.1)).Nodup) (k : Nat) :
    get? (carryValidAfter cfg prev entries) k = (get? entries k).map (carried cfg prev k) := by
  have hstep : carryValidAfter cfg prev entries =
      entries.foldl (fun (m : GoMap Nat Nat) e => m.set e.1 (carried cfg prev e.1 e.2)) ([] : GoMap Nat Nat) := by
    unfold carryValidAfter
    congr 1
    funext m e
    unfold carried
    cases isReportable prev e.1 cfg.version cfg.minInterval <;> rfl
  rw [hstep, get?_foldl_set (fun e => carried cfg prev e.1 e.2) entries hnd [] k]
  cases get? entries k <;> simp

theorem fillValidAfter_spec (ts : Nat) (defs : List (Nat × ChanDef)) (va : GoMap Nat Nat) (k : Nat) :
    get? (fillValidAfter ts defs va) k =
      match get? va k with
      | some v => some v
      | none => if k ∈ defs.map (·.1) then some ts else none := by
  unfold fillValidAfter
  induction defs generalizing va with
  | nil => simp only [List.foldl_nil]; cases get? va k <;> simp
  | cons e es ih =>
    simp only [List.foldl_cons, List.map_cons, List.mem_cons]
    rw [ih]
    by_cases hc : va.contains e.1 = true
    · simp only [hc, if_true]
      cases hg : get? va k with
      | some v => rfl
      | none =>
        have hne : k ≠ e.1 := by
          intro h; rw [h] at hg
          have := (contains_iff_get? va e.1).mp hc
          rw [hg] at this; cases this
        have : (k = e.1 ∨ k ∈ List.map (fun x => x.fst) es) ↔ k ∈ List.map (fun x => x.fst) es := by
          constructor
          · rintro (h | h); exact absurd h hne; exact h
          · exact Or.inr
        simp only [this]
    · have hcf : va.contains e.1 = false := by simpa using hc
      have hn : get? va e.1 = none := (contains_false_iff va e.1).mp hcf
      simp only [hcf, Bool.false_eq_true, if_false, get?_set]
      by_cases hk : k = e.1
      · subst hk; simp [hn]
      · have : (k = e.1 ∨ k ∈ List.map (fun x => x.fst) es) ↔ k ∈ List.map (fun x => x.fst) es := by
          constructor
          · rintro (h | h); exact absurd h hk; exact h
          · exact Or.inr
        cases get? va k <;> simp only [hk, if_false, false_or]

/-- the `ValidAfterNanoseconds` section when the round is not a promotion round -/
theorem vaOf_spec_carry (cfg : Cfg) (σ : Sched) (hσ : σ.IsSched) (prev : Outcome) (t : Tally) (ts : Nat)
    (defs : GoMap Nat ChanDef) (removed : List Nat) (hwf : WF prev.va)
    (hnp : promotedBy prev t = false ∨ ∀ rr, t.validRR = some rr → rr.va.isEmpty = true) (k : Nat) :
    get? (vaOf cfg σ prev t ts defs removed) k =
      if k ∈ removed then none else
      match get? prev.va k with
      | some v => some (carried cfg prev k v)
      | none => if defs.contains k then some ts else none := by
  have hperm : (σ.prevVA prev.va).Perm prev.va := hσ.2.2.1 _
  have hnd : ((σ.prevVA prev.va).map (·.1)).Nodup := (hperm.map _).nodup_iff.mpr hwf
  have hdefs : ∀ k, k ∈ (σ.defsVA defs).map (·.1) ↔ defs.contains k = true := by
    intro k
    rw [← mem_keys_iff]
    exact ((hσ.2.2.2.1 defs).map _).mem_iff
  have hva0 : va0Of cfg σ prev t = carryValidAfter cfg prev (σ.prevVA prev.va) := by
    unfold va0Of
    rcases hnp with h | h
    · simp [h]
    · by_cases hp : promotedBy prev t = true
      · simp only [hp, if_true]
        cases hrr : t.validRR with
        | none => rfl
        | some rr => simp [h rr hrr]
      · simp [hp]
  unfold vaOf
  simp only
  rw [hva0, get?_foldl_erase, fillValidAfter_spec, carryValidAfter_spec cfg prev _ hnd,
    get?_perm (by unfold WF keys; exact hnd) hperm]
  by_cases hr : k ∈ removed
  · simp [hr]
  · simp only [hr, if_false]
    cases get? prev.va k with
    | some v => simp
    | none =>
      simp only [Option.map_none]
      by_cases hd : defs.contains k = true
      · simp [hd, (hdefs k).mpr hd]
      · have : ¬ k ∈ (σ.defsVA defs).map (·.1) := fun h => hd ((hdefs k).mp h)
        simp [hd, this]

/-- the `ValidAfterNanoseconds` section in a promotion round with a non-empty retirement report:
    the predecessor's map is adopted wholesale, new channels start at the round's timestamp -/
theorem vaOf_spec_promote (cfg : Cfg) (σ : Sched) (hσ : σ.IsSched) (prev : Outcome) (t : Tally) (ts : Nat)
    (defs : GoMap Nat ChanDef) (removed : List Nat) (rr : RetirementReport)
    (hp : promotedBy prev t = true) (hrr : t.validRR = some rr) (hne : rr.va.isEmpty = false) (k : Nat) :
    get? (vaOf cfg σ prev t ts defs removed) k =
      if k ∈ removed then none else
      match get? rr.va k with
      | some v => some v
      | none => if defs.contains k then some ts else none := by
  have hdefs : ∀ k, k ∈ (σ.defsVA defs).map (·.1) ↔ defs.contains k = true := by
    intro k
    rw [← mem_keys_iff]
    exact ((hσ.2.2.2.1 defs).map _).mem_iff
  have hva0 : va0Of cfg σ prev t = rr.va := by
    unfold va0Of
    simp [hp, hrr, hne]
  unfold vaOf
  simp only
  rw [hva0, get?_foldl_erase, fillValidAfter_spec]
  by_cases hr : k ∈ removed
  · simp [hr]
  · simp only [hr, if_false]
    cases get? rr.va k with
    | some v => rfl
    | none =>
      by_cases hd : defs.contains k = true
      · simp [hd, (hdefs k).mpr hd]
      · have : ¬ k ∈ (σ.defsVA defs).map (·.1) := fun h => hd ((hdefs k).mp h)
        simp [hd, this]

/-! ## well-formedness (distinct keys) is preserved -/

theorem wf_foldl_erase {ν : Type} (m : GoMap Nat ν) (ids : List Nat) (h : WF m) :
    WF (ids.foldl (fun m id => m.erase id) m) := by
  induction ids generalizing m with
  | nil => exact h
  | cons i is ih => exact ih _ (wf_erase m i h)

theorem wf_applyRemovals (cfg : Cfg) (votes : List (Nat × Nat)) (defs : GoMap Nat ChanDef) (h : WF defs) :
    WF (applyRemovals cfg votes defs).2 := by
  unfold applyRemovals
  rw [applyRemovals_foldl]
  exact wf_foldl_erase _ _ h

theorem wf_applyUpdates (env : Env) (cfg : Cfg) (uv : GoMap Hash Nat) (cands : List (Hash × (Nat × ChanDef)))
    (defs : GoMap Nat ChanDef) (h : WF defs) : WF (applyUpdates env cfg uv cands defs) := by
  unfold applyUpdates
  induction cands generalizing defs with
  | nil => exact h
  | cons c cs ih =>
    simp only [List.foldl_cons]
    apply ih
    split
    · exact h
    · split
      · exact wf_set _ _ _ h
      · split
        · exact h
        · exact wf_set _ _ _ h

theorem wf_carryValidAfter (cfg : Cfg) (prev : Outcome) (entries : List (Nat × Nat)) :
    WF (carryValidAfter cfg prev entries) := by
  unfold carryValidAfter
  have : ∀ (m : GoMap Nat Nat), WF m → WF (entries.foldl (fun m e =>
      match isReportable prev e.1 cfg.version cfg.minInterval with
      | some _ => m.set e.1 e.2
      | none => m.set e.1 prev.ts) m) := by
    induction entries with
    | nil => intro m h; exact h
    | cons e es ih =>
      intro m h
      simp only [List.foldl_cons]
      apply ih
      split <;> exact wf_set _ _ _ h
  exact this [] (by simp [WF, keys])

theorem wf_fillValidAfter (ts : Nat) (defs : List (Nat × ChanDef)) (va : GoMap Nat Nat) (h : WF va) :
    WF (fillValidAfter ts defs va) := by
  unfold fillValidAfter
  induction defs generalizing va with
  | nil => exact h
  | cons e es ih =>
    simp only [List.foldl_cons]
    apply ih
    split
    · exact h
    · exact wf_set _ _ _ h

theorem wf_vaOf (env : Env) (cfg : Cfg) (σ : Sched) (prev : Outcome) (t : Tally) (ts : Nat) (defs : GoMap Nat ChanDef)
    (removed : List Nat) (hrr : ∀ rr, t.validRR = some rr → WF rr.va) :
    WF (vaOf cfg σ prev t ts defs removed) := by
  unfold vaOf
  apply wf_foldl_erase
  apply wf_fillValidAfter
  unfold va0Of
  split
  · rename_i rr hrr'
    split
    · exact wf_carryValidAfter _ _ _
    · apply hrr rr
      split at hrr'
      · exact hrr'
      · cases hrr'
  · exact wf_carryValidAfter _ _ _

end DSV.LLO
