import DSV.Go.Dec
/-!
# `Dec.le` (shopspring `Cmp <= 0`) is a total preorder, and `lt` is its strict part
-/
namespace DSV.Dec

def pow10 (k : Int) : Int := (10 : Int) ^ k.toNat

theorem coefAt_eq (d : Dec) (m : Int) : d.coefAt m = d.coef * pow10 (d.exp - m) := rfl

theorem pow10_pos (k : Int) : 0 < pow10 k := by
  unfold pow10; exact Int.pow_pos (by decide)

theorem pow10_add (a b : Int) (ha : 0 ≤ a) (hb : 0 ≤ b) : pow10 (a + b) = pow10 a * pow10 b := by
  unfold pow10
  have : (a + b).toNat = a.toNat + b.toNat := by omega
  rw [this, Int.pow_add]

theorem coefAt_lower (d : Dec) (e e' : Int) (hd : e ≤ d.exp) (h : e' ≤ e) :
    d.coefAt e' = d.coefAt e * pow10 (e - e') := by
  rw [coefAt_eq, coefAt_eq]
  have : d.exp - e' = (d.exp - e) + (e - e') := by omega
  rw [this, pow10_add _ _ (by omega) (by omega), Int.mul_assoc]

/-- comparing at any common lower exponent gives the same answer -/
theorem coefAt_le_iff (a b : Dec) (e e' : Int) (he : e ≤ a.exp) (he' : e ≤ b.exp) (h : e' ≤ e) :
    a.coefAt e ≤ b.coefAt e ↔ a.coefAt e' ≤ b.coefAt e' := by
  rw [coefAt_lower a e e' he h, coefAt_lower b e e' he' h]
  have hp := pow10_pos (e - e')
  constructor
  · intro hle; exact Int.mul_le_mul_of_nonneg_right hle (Int.le_of_lt hp)
  · intro hle; exact Int.le_of_mul_le_mul_right hle hp

theorem coefAt_lt_iff (a b : Dec) (e e' : Int) (he : e ≤ a.exp) (he' : e ≤ b.exp) (h : e' ≤ e) :
    a.coefAt e < b.coefAt e ↔ a.coefAt e' < b.coefAt e' := by
  have := coefAt_le_iff b a e e' he' he h
  omega

theorem le_iff (a b : Dec) (e : Int) (ha : e ≤ a.exp) (hb : e ≤ b.exp) :
    a.le b = true ↔ a.coefAt e ≤ b.coefAt e := by
  unfold Dec.le
  simp only [decide_eq_true_eq]
  exact coefAt_le_iff a b (min a.exp b.exp) e (Int.min_le_left _ _) (Int.min_le_right _ _) (by omega)

theorem lt_iff (a b : Dec) (e : Int) (ha : e ≤ a.exp) (hb : e ≤ b.exp) :
    a.lt b = true ↔ a.coefAt e < b.coefAt e := by
  unfold Dec.lt
  simp only [decide_eq_true_eq]
  exact coefAt_lt_iff a b (min a.exp b.exp) e (Int.min_le_left _ _) (Int.min_le_right _ _) (by omega)

theorem le_total (a b : Dec) : a.le b = true ∨ b.le a = true := by
  let e := min a.exp b.exp
  rw [le_iff a b e (Int.min_le_left _ _) (Int.min_le_right _ _),
      le_iff b a e (Int.min_le_right _ _) (Int.min_le_left _ _)]
  omega

theorem le_refl (a : Dec) : a.le a = true := by cases le_total a a <;> assumption

theorem le_trans (a b c : Dec) (h1 : a.le b = true) (h2 : b.le c = true) : a.le c = true := by
  let e := min a.exp (min b.exp c.exp)
  have ea : e ≤ a.exp := Int.min_le_left _ _
  have eb : e ≤ b.exp := by
    have := Int.min_le_right a.exp (min b.exp c.exp); have := Int.min_le_left b.exp c.exp; omega
  have ec : e ≤ c.exp := by
    have := Int.min_le_right a.exp (min b.exp c.exp); have := Int.min_le_right b.exp c.exp; omega
  rw [le_iff a b e ea eb] at h1
  rw [le_iff b c e eb ec] at h2
  rw [le_iff a c e ea ec]
  omega

/-- `lt` is the strict part of `le`:  `a.Cmp(b) < 0 ↔ ¬ (b.Cmp(a) <= 0)` -/
theorem lt_iff_not_le (a b : Dec) : a.lt b = true ↔ b.le a = false := by
  let e := min a.exp b.exp
  rw [lt_iff a b e (Int.min_le_left _ _) (Int.min_le_right _ _)]
  have h1 := le_iff b a e (Int.min_le_right _ _) (Int.min_le_left _ _)
  constructor
  · intro hlt
    cases h : b.le a
    · rfl
    · have := h1.mp h; omega
  · intro hle
    apply Classical.byContradiction
    intro hn
    have : b.le a = true := h1.mpr (by omega)
    rw [hle] at this; cases this

end DSV.Dec
