import DSV.Cost.Errors
/-! # Lemmas about `DSV.Cost.Errors` -/
namespace DSV.Cost

theorem formatOnce_eq (ls : List Nat) : formatOnce ls = ls.sum + ls.length := by
  induction ls with
  | nil => rfl
  | cons l ls ih =>
    simp only [formatOnce, List.map_cons, List.sum_cons, List.length_cons] at *
    omega

theorem formatOnce_le (M : Nat) (ls : List Nat) (h : ∀ l ∈ ls, l ≤ M) : formatOnce ls ≤ (M + 1) * ls.length := by
  induction ls with
  | nil => simp [formatOnce]
  | cons l ls ih =>
    have h1 := h l List.mem_cons_self
    have h2 := ih (fun x hx => h x (List.mem_cons_of_mem _ hx))
    simp only [formatOnce, List.map_cons, List.sum_cons, List.length_cons, Nat.mul_add, Nat.mul_one] at *
    omega

/-- nesting `n` leaves of length `l` on top of a text of length `T`: the cost grows by at least
    `n·T + n²/2` -/
theorem nested_replicate (l : Nat) : ∀ (n T C : Nat),
    2 * C + 2 * (n * T) + n * n ≤ 2 * ((List.replicate n l).foldl nestedStep (T, C)).2 := by
  intro n
  induction n with
  | zero => intro T C; simp
  | succ n ih =>
    intro T C
    simp only [List.replicate_succ, List.foldl_cons, nestedStep]
    have i := ih (T + l + 1) (C + (T + l + 1))
    have e1 : n * (T + l + 1) = n * T + n * l + n := by simp only [Nat.mul_add, Nat.mul_one]
    have e2 : (n + 1) * T = n * T + T := by simp only [Nat.add_mul, Nat.one_mul]
    have e3 : (n + 1) * (n + 1) = n * n + 2 * n + 1 := by
      simp only [Nat.add_mul, Nat.mul_add, Nat.mul_one, Nat.one_mul]; omega
    rw [e1] at i
    rw [e2, e3]
    omega

end DSV.Cost
