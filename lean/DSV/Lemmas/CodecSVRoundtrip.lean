import DSV.Lemmas.CodecWire
/-!
# Stream values through their binary form: `UnmarshalProtoStreamValue ∘ makeLLOStreamValue`
-/
namespace DSV.LLO
open DSV

theorem fieldBytes_ne_nil (num : Nat) (bs : List UInt8) : fieldBytes num bs ≠ [] := by
  simp [fieldBytes, varint_ne_nil]

theorem marshalSV_ne_nil (v : SV) : marshalSV v ≠ [] := by
  cases v with
  | dec d => exact Dec.marshalBinary_ne_nil d
  | quote a b c =>
    simp only [marshalSV, optBytes]
    have := Dec.marshalBinary_ne_nil a
    simp [this, fieldBytes_ne_nil]
  | tsv t inner =>
    simp only [marshalSV]
    simp [fieldBytes_ne_nil]

theorem optBytes_ne (num : Nat) (bs : List UInt8) (h : bs ≠ []) :
    optBytes num bs = encField (num, .bytes bs) := by
  simp [optBytes, h, fieldBytes, encField]

theorem optVarint_eq (num v : Nat) :
    optVarint num v = encFields (if v = 0 then [] else [(num, .varint v)]) := by
  by_cases h : v = 0
  · simp [optVarint, h, encFields]
  · simp [optVarint, h, encFields, encField]

def quoteFields (a b c : Dec) : List (Nat × WVal) :=
  [(1, .bytes a.marshalBinary), (2, .bytes b.marshalBinary), (3, .bytes c.marshalBinary)]

theorem marshalSV_quote (a b c : Dec) : marshalSV (.quote a b c) = encFields (quoteFields a b c) := by
  simp only [marshalSV, quoteFields, encFields, List.flatMap_cons, List.flatMap_nil, List.append_nil]
  rw [optBytes_ne _ _ (Dec.marshalBinary_ne_nil a), optBytes_ne _ _ (Dec.marshalBinary_ne_nil b),
    optBytes_ne _ _ (Dec.marshalBinary_ne_nil c)]
  simp [List.append_assoc]

def innerFields (inner : SV) : List (Nat × WVal) :=
  (if inner.type = 0 then [] else [(1, .varint inner.type)]) ++ [(2, .bytes (marshalSV inner))]

def tsvFields (t : Nat) (inner : SV) : List (Nat × WVal) :=
  (if t = 0 then [] else [(1, .varint t)]) ++ [(2, .bytes (encFields (innerFields inner)))]

theorem encFields_append (a b : List (Nat × WVal)) : encFields (a ++ b) = encFields a ++ encFields b := by
  simp [encFields]

theorem marshalSV_tsv (t : Nat) (inner : SV) : marshalSV (.tsv t inner) = encFields (tsvFields t inner) := by
  simp only [marshalSV, tsvFields, innerFields, encFields_append]
  rw [optVarint_eq, optVarint_eq, optBytes_ne _ _ (marshalSV_ne_nil inner)]
  simp [encFields, encField, fieldBytes]

theorem SV.type_le (v : SV) : v.type ≤ 2 := by cases v <;> simp [SV.type]

/-! lookups in the field lists -/

theorem lastVarint_tsvFields (t : Nat) (inner : SV) : lastVarint 1 (tsvFields t inner) = t := by
  by_cases h : t = 0 <;> simp [tsvFields, lastVarint, h]

theorem allBytes_tsvFields (t : Nat) (inner : SV) :
    allBytes 2 (tsvFields t inner) = [encFields (innerFields inner)] := by
  by_cases h : t = 0 <;> simp [tsvFields, allBytes, h]

theorem lastVarint_innerFields (inner : SV) : lastVarint 1 (innerFields inner) = inner.type := by
  by_cases h : inner.type = 0 <;> simp [innerFields, lastVarint, h]

theorem lastBytes_innerFields (inner : SV) : lastBytes 2 (innerFields inner) = marshalSV inner := by
  by_cases h : inner.type = 0 <;> simp [innerFields, lastBytes, h]

theorem toInt32_small (n : Nat) (h : n ≤ 2) : toInt32 n = n := by
  unfold toInt32
  have : n % 4294967296 = n := by omega
  simp only [this]
  rw [if_neg (by omega)]

theorem encFields_single_bytes (num : Nat) (x : List UInt8) :
    encFields [(num, WVal.bytes x)] = varint (num * 8 + 2) ++ varint x.length ++ x := by
  simp [encFields, encField]

theorem length_le_encFields_single_bytes (num : Nat) (x : List UInt8) :
    x.length ≤ (encFields [(num, WVal.bytes x)]).length := by
  rw [encFields_single_bytes]; simp only [List.length_append]; omega

/-- sizes: everything nested inside a value is no longer than the value -/
theorem length_encFields_innerFields_le (t : Nat) (inner : SV) :
    (encFields (innerFields inner)).length ≤ (marshalSV (.tsv t inner)).length := by
  rw [marshalSV_tsv]
  simp only [tsvFields, encFields_append, List.length_append]
  have := length_le_encFields_single_bytes 2 (encFields (innerFields inner))
  omega

theorem length_marshalSV_inner_le (inner : SV) :
    (marshalSV inner).length ≤ (encFields (innerFields inner)).length := by
  simp only [innerFields, encFields_append, List.length_append]
  have := length_le_encFields_single_bytes 2 (marshalSV inner)
  omega

theorem parseTSVMsg_marshal (t : Nat) (inner : SV) (ht : t < 2 ^ 64)
    (hs : (marshalSV (.tsv t inner)).length < 2 ^ 64) :
    parseTSVMsg (marshalSV (.tsv t inner)) = some (t, some (makeSVMsg inner)) := by
  have h1 := length_encFields_innerFields_le t inner
  have h2 := length_marshalSV_inner_le inner
  have hty := SV.type_le inner
  have hok1 : ∀ f ∈ tsvFields t inner, fieldOK f := by
    intro f hf
    simp only [tsvFields, List.mem_append, List.mem_singleton] at hf
    rcases hf with hf | hf
    · by_cases h0 : t = 0
      · simp [h0] at hf
      · simp [h0] at hf; subst hf; exact ⟨by omega, by omega, ht⟩
    · subst hf; exact ⟨by omega, by omega, by omega⟩
  have hok2 : ∀ f ∈ innerFields inner, fieldOK f := by
    intro f hf
    simp only [innerFields, List.mem_append, List.mem_singleton] at hf
    rcases hf with hf | hf
    · by_cases h0 : inner.type = 0
      · simp [h0] at hf
      · simp [h0] at hf; subst hf; exact ⟨by omega, by omega, by omega⟩
    · subst hf; exact ⟨by omega, by omega, by omega⟩
  unfold parseTSVMsg
  rw [marshalSV_tsv, parseMsg_encFields _ hok1]
  simp only [allBytes_tsvFields, mergeOcc, parseMsg_encFields _ hok2, Option.map_some, List.append_nil,
    lastVarint_tsvFields, lastVarint_innerFields, lastBytes_innerFields, toInt32_small _ hty]
  simp [makeSVMsg]

theorem unmarshalDec_marshal (d : Dec) (h : d.expOk = true) : unmarshalDec d.marshalBinary = .ok d := by
  simp [unmarshalDec, Dec.unmarshalBinary_marshalBinary d h]

theorem lastBytes_quoteFields (a b c : Dec) :
    lastBytes 1 (quoteFields a b c) = a.marshalBinary ∧ lastBytes 2 (quoteFields a b c) = b.marshalBinary ∧
    lastBytes 3 (quoteFields a b c) = c.marshalBinary := by
  simp [quoteFields, lastBytes]

theorem unmarshalQuote_marshal (a b c : Dec) (ha : a.expOk = true) (hb : b.expOk = true) (hc : c.expOk = true)
    (hs : (marshalSV (.quote a b c)).length < 2 ^ 64) :
    unmarshalQuote (marshalSV (.quote a b c)) = .ok (.quote a b c) := by
  have hlen : (marshalSV (.quote a b c)).length =
      (encFields (quoteFields a b c)).length := by rw [marshalSV_quote]
  have hl : a.marshalBinary.length + b.marshalBinary.length + c.marshalBinary.length ≤
      (encFields (quoteFields a b c)).length := by
    simp [encFields, quoteFields, encField]; omega
  have hok : ∀ f ∈ quoteFields a b c, fieldOK f := by
    intro f hf
    simp only [quoteFields, List.mem_cons, List.not_mem_nil, or_false] at hf
    rcases hf with hf | hf | hf <;> subst hf <;> exact ⟨by omega, by omega, by omega⟩
  obtain ⟨l1, l2, l3⟩ := lastBytes_quoteFields a b c
  unfold unmarshalQuote parseQuoteMsg
  rw [marshalSV_quote, parseMsg_encFields _ hok]
  simp only [Option.map_some, l1, l2, l3, unmarshalDec_marshal a ha, unmarshalDec_marshal b hb,
    unmarshalDec_marshal c hc]
  rfl

theorem unmarshalTSV_ty0 (rem : Nat) (data val : List UInt8) (at_ : Nat)
    (h : parseTSVMsg data = some (at_, some ⟨0, val⟩)) :
    unmarshalTSV rem data = (match unmarshalDec val with
      | .ok d => .ok (.tsv at_ (.dec d)) | .err c => .err c | .panic => .panic) := by
  unfold unmarshalTSV; rw [h]; simp
  cases unmarshalDec val <;> rfl

theorem unmarshalTSV_ty1 (rem : Nat) (data val : List UInt8) (at_ : Nat)
    (h : parseTSVMsg data = some (at_, some ⟨1, val⟩)) :
    unmarshalTSV rem data = (match unmarshalQuote val with
      | .ok q => .ok (.tsv at_ q) | .err c => .err c | .panic => .panic) := by
  unfold unmarshalTSV; rw [h]; simp
  cases unmarshalQuote val <;> rfl

theorem unmarshalTSV_ty2_zero (data val : List UInt8) (at_ : Nat)
    (h : parseTSVMsg data = some (at_, some ⟨2, val⟩)) :
    unmarshalTSV 0 data = .err errTooDeep := by
  unfold unmarshalTSV; rw [h]; simp

theorem unmarshalTSV_ty2_succ (r : Nat) (data val : List UInt8) (at_ : Nat)
    (h : parseTSVMsg data = some (at_, some ⟨2, val⟩)) :
    unmarshalTSV (r + 1) data = (match unmarshalTSV r val with
      | .ok inner => .ok (.tsv at_ inner) | .err c => .err c | .panic => .panic) := by
  rw [unmarshalTSV]; rw [h]; simp
  cases unmarshalTSV r val <;> rfl

/-- `unmarshalBinary(data, depth)` on what `MarshalBinary` wrote: succeeds iff the nesting below
    this value is at most the remaining allowance -/
theorem unmarshalTSV_marshal : ∀ (inner : SV) (rem t : Nat), t < 2 ^ 64 → inner.inRange = true →
    (marshalSV (.tsv t inner)).length < 2 ^ 64 →
    unmarshalTSV rem (marshalSV (.tsv t inner)) =
      if inner.tsvDepth ≤ rem then .ok (.tsv t inner) else .err errTooDeep := by
  intro inner
  induction inner with
  | dec d =>
    intro rem t ht hr hs
    have hp : parseTSVMsg (marshalSV (.tsv t (.dec d))) = some (t, some ⟨0, d.marshalBinary⟩) :=
      parseTSVMsg_marshal t _ ht hs
    simp only [SV.inRange] at hr
    rw [unmarshalTSV_ty0 rem _ _ _ hp, unmarshalDec_marshal d hr]
    simp [SV.tsvDepth]
  | quote a b c =>
    intro rem t ht hr hs
    have hs' : (marshalSV (.quote a b c)).length < 2 ^ 64 := by
      have := length_encFields_innerFields_le t (.quote a b c); have := length_marshalSV_inner_le (.quote a b c); omega
    have hp : parseTSVMsg (marshalSV (.tsv t (.quote a b c))) = some (t, some ⟨1, marshalSV (.quote a b c)⟩) :=
      parseTSVMsg_marshal t _ ht hs
    simp only [SV.inRange, Bool.and_eq_true] at hr
    rw [unmarshalTSV_ty1 rem _ _ _ hp, unmarshalQuote_marshal a b c hr.1.1 hr.1.2 hr.2 hs']
    simp [SV.tsvDepth]
  | tsv t' inner' ih =>
    intro rem t ht hr hs
    have hs' : (marshalSV (.tsv t' inner')).length < 2 ^ 64 := by
      have := length_encFields_innerFields_le t (.tsv t' inner'); have := length_marshalSV_inner_le (.tsv t' inner'); omega
    have hp : parseTSVMsg (marshalSV (.tsv t (.tsv t' inner'))) = some (t, some ⟨2, marshalSV (.tsv t' inner')⟩) :=
      parseTSVMsg_marshal t _ ht hs
    simp only [SV.inRange, Bool.and_eq_true, decide_eq_true_eq] at hr
    have hdep : (SV.tsv t' inner').tsvDepth = inner'.tsvDepth + 1 := rfl
    cases rem with
    | zero =>
      rw [unmarshalTSV_ty2_zero _ _ _ hp, if_neg (by omega)]
    | succ r =>
      rw [unmarshalTSV_ty2_succ r _ _ _ hp, ih r t' hr.1 hr.2 hs']
      by_cases hd : inner'.tsvDepth ≤ r
      · rw [if_pos hd, if_pos (by omega)]
      · rw [if_neg hd, if_neg (by omega)]

theorem unmarshalProtoSV_ty0 (val : List UInt8) :
    unmarshalProtoSV (some ⟨0, val⟩) = (unmarshalDec val).bind (fun d => .ok (.dec d)) := by
  simp [unmarshalProtoSV]

theorem unmarshalProtoSV_ty1 (val : List UInt8) :
    unmarshalProtoSV (some ⟨1, val⟩) = unmarshalQuote val := by
  simp [unmarshalProtoSV]

theorem unmarshalProtoSV_ty2 (val : List UInt8) :
    unmarshalProtoSV (some ⟨2, val⟩) = unmarshalTSV maxTSVNesting val := by
  simp [unmarshalProtoSV]

/-- encoded size below 2^64 bytes (protobuf-go itself refuses messages of 2 GiB and more) -/
def SV.sizeOK (v : SV) : Prop := (marshalSV v).length < 2 ^ 64

/-- binary round trip of every stream value type, with the nesting limit -/
theorem unmarshalProtoSV_makeSVMsg (v : SV) (hr : v.inRange = true) (hs : v.sizeOK) :
    unmarshalProtoSV (some (makeSVMsg v)) = if v.tsvDepth ≤ 2 then .ok v else .err errTooDeep := by
  cases v with
  | dec d =>
    simp only [SV.inRange] at hr
    change unmarshalProtoSV (some ⟨0, d.marshalBinary⟩) = _
    rw [unmarshalProtoSV_ty0, unmarshalDec_marshal d hr]
    simp [SV.tsvDepth, GoRes.bind]
  | quote a b c =>
    simp only [SV.inRange, Bool.and_eq_true] at hr
    change unmarshalProtoSV (some ⟨1, marshalSV (.quote a b c)⟩) = _
    rw [unmarshalProtoSV_ty1, unmarshalQuote_marshal a b c hr.1.1 hr.1.2 hr.2 hs]
    simp [SV.tsvDepth]
  | tsv t inner =>
    simp only [SV.inRange, Bool.and_eq_true, decide_eq_true_eq] at hr
    change unmarshalProtoSV (some ⟨2, marshalSV (.tsv t inner)⟩) = _
    rw [unmarshalProtoSV_ty2, maxTSVNesting, unmarshalTSV_marshal inner 1 t hr.1 hr.2 hs]
    have hdep : (SV.tsv t inner).tsvDepth = inner.tsvDepth + 1 := rfl
    by_cases hd : inner.tsvDepth ≤ 1
    · rw [if_pos hd, if_pos (by omega)]
    · rw [if_neg hd, if_neg (by omega)]

/-! ## a computable bound on the encoded size (to discharge `sizeOK` on concrete values) -/

theorem varint_length_le (n : Nat) : (varint n).length ≤ n + 1 := by
  induction n using Nat.strongRecOn with
  | _ n ih =>
    by_cases h : n < 128
    · rw [varint_lt n h]; simp
    · rw [varint_ge n h]
      have := ih (n / 128) (by omega)
      simp only [List.length_cons]
      omega

theorem natBytesBE_length_le (n : Nat) : (Dec.natBytesBE n).length ≤ n := by
  induction n using Nat.strongRecOn with
  | _ n ih =>
    by_cases h : n = 0
    · subst h; rw [Dec.natBytesBE_zero]; simp
    · rw [Dec.natBytesBE_pos n h]
      have := ih (n / 256) (by omega)
      simp only [List.length_append, List.length_singleton]
      omega

def decSizeBound (d : Dec) : Nat := 5 + d.coef.natAbs

/-- bound for a length-delimited field with tag below 128 whose payload is at most `n` bytes -/
def fieldBound (n : Nat) : Nat := 2 + 2 * n

def SV.sizeBound : SV → Nat
  | .dec d => decSizeBound d
  | .quote a b c => fieldBound (decSizeBound a) + fieldBound (decSizeBound b) + fieldBound (decSizeBound c)
  | .tsv t inner => (t + 2) + fieldBound (4 + fieldBound inner.sizeBound)

theorem marshalBinary_length_le (d : Dec) : d.marshalBinary.length ≤ decSizeBound d := by
  have := natBytesBE_length_le d.coef.natAbs
  simp only [Dec.marshalBinary, Dec.expBytes, Dec.gobInt, decSizeBound, List.length_append, List.length_cons,
    List.length_nil]
  omega

theorem fieldBytes_length_le (num : Nat) (bs : List UInt8) (n : Nat) (hnum : num ≤ 15) (h : bs.length ≤ n) :
    (fieldBytes num bs).length ≤ fieldBound n := by
  have h1 : varint (num * 8 + 2) = [UInt8.ofNat (num * 8 + 2)] := varint_lt _ (by omega)
  have h2 := varint_length_le bs.length
  simp only [fieldBytes, h1, fieldBound, List.length_append, List.length_cons, List.length_nil]
  omega

theorem optBytes_length_le (num : Nat) (bs : List UInt8) (n : Nat) (hnum : num ≤ 15) (h : bs.length ≤ n) :
    (optBytes num bs).length ≤ fieldBound n := by
  unfold optBytes
  split
  · simp
  · exact fieldBytes_length_le num bs n hnum h

theorem optVarint_length_le (num v : Nat) (hnum : num ≤ 15) : (optVarint num v).length ≤ v + 2 := by
  unfold optVarint
  split
  · simp
  · have h1 : varint (num * 8) = [UInt8.ofNat (num * 8)] := varint_lt _ (by omega)
    have := varint_length_le v
    simp only [h1, List.length_append, List.length_cons, List.length_nil]
    omega

theorem marshalSV_length_le (v : SV) : (marshalSV v).length ≤ v.sizeBound := by
  induction v with
  | dec d => exact marshalBinary_length_le d
  | quote a b c =>
    have ha := optBytes_length_le 1 _ _ (by omega) (marshalBinary_length_le a)
    have hb := optBytes_length_le 2 _ _ (by omega) (marshalBinary_length_le b)
    have hc := optBytes_length_le 3 _ _ (by omega) (marshalBinary_length_le c)
    simp only [marshalSV, SV.sizeBound, List.length_append]
    omega
  | tsv t inner ih =>
    have h1 := optVarint_length_le 1 t (by omega)
    have h2 := optVarint_length_le 1 inner.type (by omega)
    have h3 := optBytes_length_le 2 _ _ (by omega) ih
    have hty := SV.type_le inner
    have h4 := fieldBytes_length_le 2 (optVarint 1 inner.type ++ optBytes 2 (marshalSV inner))
      (4 + fieldBound inner.sizeBound) (by omega) (by simp only [List.length_append]; omega)
    simp only [marshalSV, SV.sizeBound, List.length_append]
    omega

theorem sizeOK_of_bound (v : SV) (h : v.sizeBound < 2 ^ 64) : v.sizeOK := by
  have := marshalSV_length_le v
  unfold SV.sizeOK
  omega

end DSV.LLO
