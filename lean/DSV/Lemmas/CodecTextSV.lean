import DSV.Lemmas.CodecTextPrint
import DSV.LLO.CodecSV
/-!
# Text round trip of quotes and timestamped values (regex matchers, JSON envelope)
-/
namespace DSV.LLO
open DSV

/-! ## generic list helpers -/

theorem stripPrefix_append (p s : List Char) : stripPrefix p (p ++ s) = some s := by
  induction p with
  | nil => rfl
  | cons c cs ih => simp [stripPrefix, ih]

theorem takeWhile_append_stop {p : Char → Bool} (a rest : List Char) (c : Char) (ha : ∀ x ∈ a, p x = true)
    (hc : p c = false) : (a ++ c :: rest).takeWhile p = a ∧ (a ++ c :: rest).dropWhile p = c :: rest := by
  induction a with
  | nil => simp [List.takeWhile, List.dropWhile, hc]
  | cons x xs ih =>
    have hx := ha x (List.mem_cons_self)
    obtain ⟨h1, h2⟩ := ih (fun y hy => ha y (List.mem_cons_of_mem _ hy))
    simp [List.takeWhile, List.dropWhile, hx, h1, h2]

/-! ## the printed decimal matches `-?[0-9.]+` -/

def numBody (l : List Char) : Prop := l ≠ [] ∧ ∀ c ∈ l, isNumChar c = true

theorem isNumChar_of_digit {c : Char} (h : c.isDigit = true) : isNumChar c = true := by
  simp [isNumChar, h]

theorem toStr_numeric (d : Dec) : ∃ neg body, d.toStr.toList = signChars neg ++ body ∧ numBody body := by
  by_cases hexp : d.exp ≥ 0
  · refine ⟨_, _, toStr_toList_nonneg d hexp, Nat.toDigits_ne_nil, ?_⟩
    intro c hc
    exact isNumChar_of_digit (allDigits_toDigits _ c hc)
  · obtain ⟨ip, fpT, z, htxt, hip, hne, hfp, _, _⟩ := toStr_toList_neg d (by omega)
    refine ⟨_, ip ++ (if fpT = [] then [] else '.' :: fpT), by rw [htxt, List.append_assoc], by simp [hne], ?_⟩
    intro c hc
    simp only [List.mem_append] at hc
    rcases hc with hc | hc
    · exact isNumChar_of_digit (hip c hc)
    · by_cases hf : fpT = []
      · simp [hf] at hc
      · simp only [hf, if_false, List.mem_cons] at hc
        rcases hc with rfl | hc
        · decide
        · exact isNumChar_of_digit (hfp c hc)

theorem isNumChar_ne_minus {c : Char} (h : isNumChar c = true) : c ≠ '-' := by
  intro hc; subst hc; revert h; decide

theorem takeNumGroup_spec (neg : Bool) (body rest : List Char) (c : Char) (hb : numBody body)
    (hc : isNumChar c = false) :
    takeNumGroup (signChars neg ++ body ++ c :: rest) = some (signChars neg ++ body, c :: rest) := by
  obtain ⟨hne, hall⟩ := hb
  obtain ⟨h1, h2⟩ := takeWhile_append_stop (p := isNumChar) body rest c hall hc
  have hemp : body.isEmpty = false := by
    cases body with
    | nil => exact absurd rfl hne
    | cons _ _ => rfl
  cases neg with
  | true =>
    simp only [signChars, if_true, List.cons_append, List.nil_append, takeNumGroup, h1, h2, hemp]
    simp
  | false =>
    simp only [signChars, Bool.false_eq_true, if_false, List.nil_append]
    cases body with
    | nil => exact absurd rfl hne
    | cons x xs =>
      have hx := isNumChar_ne_minus (hall x (List.mem_cons_self))
      unfold takeNumGroup
      split
      · rename_i r heq
        have : x = '-' := by
          simp only [List.cons_append] at heq
          injection heq
        exact absurd this hx
      · simp only [h1, h2]
        simp

theorem takeNumGroup_spec' (neg : Bool) (body rest : List Char) (hb : numBody body)
    (hr : ∃ c r, rest = c :: r ∧ isNumChar c = false) :
    takeNumGroup (signChars neg ++ body ++ rest) = some (signChars neg ++ body, rest) := by
  obtain ⟨c, r, rfl, hc⟩ := hr
  exact takeNumGroup_spec neg body r c hb hc

/-! ## quote -/

theorem comma_not_num : isNumChar ',' = false := by decide
theorem brace_not_num : isNumChar '}' = false := by decide

theorem findQuote_text (b m a : Dec) :
    findQuote (textSV (.quote b m a)) = some (b.toStr.toList, m.toStr.toList, a.toStr.toList) := by
  obtain ⟨n1, b1, e1, hb1⟩ := toStr_numeric b
  obtain ⟨n2, b2, e2, hb2⟩ := toStr_numeric m
  obtain ⟨n3, b3, e3, hb3⟩ := toStr_numeric a
  have hmatch : matchQuoteAt (textSV (.quote b m a)) = some (b.toStr.toList, m.toStr.toList, a.toStr.toList) := by
    unfold matchQuoteAt textSV
    simp only [List.append_assoc]
    rw [stripPrefix_append]
    dsimp only
    rw [e1, e2, e3]
    have t1 := takeNumGroup_spec' n1 b1 (quotePre2 ++ (signChars n2 ++ b2 ++ (quotePre3 ++ (signChars n3 ++ b3 ++ ['}']))))
      hb1 ⟨',', _, rfl, comma_not_num⟩
    simp only [List.append_assoc] at t1 ⊢
    rw [t1]
    dsimp only
    rw [stripPrefix_append]
    dsimp only
    have t2 := takeNumGroup_spec' n2 b2 (quotePre3 ++ (signChars n3 ++ b3 ++ ['}'])) hb2 ⟨',', _, rfl, comma_not_num⟩
    simp only [List.append_assoc] at t2 ⊢
    rw [t2]
    dsimp only
    rw [stripPrefix_append]
    dsimp only
    have t3 := takeNumGroup_spec' n3 b3 ['}'] hb3 ⟨'}', [], rfl, brace_not_num⟩
    simp only [List.append_assoc] at t3 ⊢
    rw [t3]
    rfl
  -- the text starts with `Q`, so the leftmost attempt is at the head
  have hhead : ∃ c cs, textSV (.quote b m a) = c :: cs := ⟨'Q', _, rfl⟩
  obtain ⟨c, cs, hcs⟩ := hhead
  rw [hcs] at hmatch ⊢
  simp only [findQuote, hmatch]

theorem untextQuote_text (b m a : Dec) (hb : b.expOk = true) (hm : m.expOk = true) (ha : a.expOk = true) :
    ∃ b' m' a', untextQuote (textSV (.quote b m a)) = .ok (.quote b' m' a') ∧
      decEqv b' b ∧ decEqv m' m ∧ decEqv a' a := by
  obtain ⟨b', hb', eb⟩ := parseDec_toStr b hb
  obtain ⟨m', hm', em⟩ := parseDec_toStr m hm
  obtain ⟨a', ha', ea⟩ := parseDec_toStr a ha
  refine ⟨b', m', a', ?_, eb, em, ea⟩
  unfold untextQuote
  rw [findQuote_text]
  simp only [hb', hm', ha']

/-! ## characters of the text forms: nothing `encoding/json` escapes beyond `"` and `\`, no newline -/

abbrev safeChar (c : Char) : Prop := 32 ≤ c.toNat

def safeText (l : List Char) : Prop := ∀ c ∈ l, safeChar c

theorem safeText_append {a b : List Char} : safeText (a ++ b) ↔ safeText a ∧ safeText b := by
  simp only [safeText, List.mem_append]
  constructor
  · intro h; exact ⟨fun c hc => h c (Or.inl hc), fun c hc => h c (Or.inr hc)⟩
  · rintro ⟨h1, h2⟩ c (hc | hc); exact h1 c hc; exact h2 c hc

theorem safeChar_of_digit {c : Char} (h : c.isDigit = true) : safeChar c := by
  simp only [Char.isDigit, Bool.and_eq_true, decide_eq_true_eq] at h
  have h1 : ('0' : Char).val ≤ c.val := h.1
  have h2 := UInt32.le_iff_toNat_le.mp h1
  have e : ('0' : Char).val.toNat = 48 := rfl
  have : c.toNat = c.val.toNat := rfl
  show 32 ≤ c.toNat
  omega

theorem safeText_digits {l : List Char} (h : allDigits l) : safeText l := fun c hc => safeChar_of_digit (h c hc)

theorem safeText_signChars (neg : Bool) : safeText (signChars neg) := by
  intro c hc; cases neg <;> simp [signChars] at hc; subst hc; decide

theorem safeText_toStr (d : Dec) : safeText d.toStr.toList := by
  by_cases hexp : d.exp ≥ 0
  · rw [toStr_toList_nonneg d hexp]
    exact safeText_append.mpr ⟨safeText_signChars _, safeText_digits (allDigits_toDigits _)⟩
  · obtain ⟨ip, fpT, z, htxt, hip, hne, hfp, _, _⟩ := toStr_toList_neg d (by omega)
    rw [htxt]
    refine safeText_append.mpr ⟨safeText_append.mpr ⟨safeText_signChars _, safeText_digits hip⟩, ?_⟩
    by_cases hf : fpT = []
    · simp [hf, safeText]
    · simp only [hf, if_false]
      intro c hc
      rcases List.mem_cons.mp hc with rfl | hc
      · decide
      · exact safeChar_of_digit (hfp c hc)

theorem safeText_literal (s : String) (h : s.toList.all (fun c => decide (32 ≤ c.toNat)) = true) : safeText s.toList := by
  intro c hc
  rw [List.all_eq_true] at h
  simpa [safeChar] using h c hc

theorem safeText_jsonEscape (l : List Char) (h : safeText l) : safeText (jsonEscape l) := by
  induction l with
  | nil => intro c hc; cases hc
  | cons x xs ih =>
    have hx := h x (List.mem_cons_self)
    have hxs := ih (fun c hc => h c (List.mem_cons_of_mem _ hc))
    unfold jsonEscape
    split
    · intro c hc
      rcases List.mem_cons.mp hc with rfl | hc
      · decide
      · rcases List.mem_cons.mp hc with rfl | hc
        · decide
        · exact hxs c hc
    · split
      · intro c hc
        rcases List.mem_cons.mp hc with rfl | hc
        · decide
        · rcases List.mem_cons.mp hc with rfl | hc
          · decide
          · exact hxs c hc
      · intro c hc
        rcases List.mem_cons.mp hc with rfl | hc
        · exact hx
        · exact hxs c hc

theorem safeText_ttJson (ty : Nat) (l : List Char) (h : safeText l) : safeText (ttJson ty l) := by
  unfold ttJson
  refine safeText_append.mpr ⟨safeText_append.mpr ⟨safeText_append.mpr ⟨safeText_append.mpr ⟨?_, ?_⟩, ?_⟩, safeText_jsonEscape l h⟩, ?_⟩
  · exact safeText_literal "{\"t\":" (by decide)
  · have : (toString ty).toList = Nat.toDigits 10 ty := by simp
    rw [this]; exact safeText_digits (allDigits_toDigits _)
  · exact safeText_literal ",\"v\":\"" (by decide)
  · intro c hc; simp at hc; rcases hc with rfl | rfl <;> decide

theorem safeText_textSV (v : SV) : safeText (textSV v) := by
  induction v with
  | dec d => exact safeText_toStr d
  | quote b m a =>
    unfold textSV
    refine safeText_append.mpr ⟨safeText_append.mpr ⟨safeText_append.mpr ⟨safeText_append.mpr ⟨safeText_append.mpr ⟨safeText_append.mpr ⟨?_, safeText_toStr b⟩, ?_⟩, safeText_toStr m⟩, ?_⟩, safeText_toStr a⟩, ?_⟩
    · exact safeText_literal "Q{Bid: " (by decide)
    · exact safeText_literal ", Benchmark: " (by decide)
    · exact safeText_literal ", Ask: " (by decide)
    · intro c hc; simp at hc; subst hc; decide
  | tsv t inner ih =>
    unfold textSV
    refine safeText_append.mpr ⟨safeText_append.mpr ⟨safeText_append.mpr ⟨safeText_append.mpr ⟨?_, ?_⟩, ?_⟩, safeText_ttJson _ _ ih⟩, ?_⟩
    · exact safeText_literal "TSV{ObservedAtNanoseconds: " (by decide)
    · have : (toString t).toList = Nat.toDigits 10 t := by simp
      rw [this]; exact safeText_digits (allDigits_toDigits _)
    · exact safeText_literal ", StreamValue: " (by decide)
    · intro c hc; simp at hc; subst hc; decide

/-! ## JSON envelope -/

theorem jsonUnescape_quote (rest : List Char) : jsonUnescape ('"' :: rest) = some ([], rest) := by
  rw [jsonUnescape.eq_def]; simp

theorem jsonUnescape_plain (c : Char) (rest : List Char) (h1 : c ≠ '"') (h2 : c ≠ '\\') (h3 : ¬ c.toNat < 32) :
    jsonUnescape (c :: rest) = (jsonUnescape rest).map (fun p => (c :: p.1, p.2)) := by
  rw [jsonUnescape.eq_def]; simp [h1, h2, h3]

theorem jsonUnescape_esc (d : Char) (rest : List Char) (h : d = '"' ∨ d = '\\') :
    jsonUnescape ('\\' :: d :: rest) = (jsonUnescape rest).map (fun p => (d :: p.1, p.2)) := by
  rw [jsonUnescape.eq_def]; simp [h]

theorem jsonUnescape_escape (l rest : List Char) (h : safeText l) :
    jsonUnescape (jsonEscape l ++ '"' :: rest) = some (l, rest) := by
  induction l with
  | nil => simp [jsonEscape, jsonUnescape_quote]
  | cons x xs ih =>
    have hx : 32 ≤ x.toNat := h x (List.mem_cons_self)
    have hxs := ih (fun c hc => h c (List.mem_cons_of_mem _ hc))
    unfold jsonEscape
    by_cases h1 : x = '"'
    · subst h1
      simp only [if_true, List.cons_append]
      rw [jsonUnescape_esc _ _ (Or.inl rfl), hxs]; rfl
    · by_cases h2 : x = '\\'
      · subst h2
        simp only [h1, if_false, if_true, List.cons_append]
        rw [jsonUnescape_esc _ _ (Or.inr rfl), hxs]; rfl
      · simp only [h1, h2, if_false, List.cons_append]
        rw [jsonUnescape_plain _ _ h1 h2 (by omega), hxs]; rfl

theorem length_jsonEscape_ge (l : List Char) : l.length ≤ (jsonEscape l).length := by
  induction l with
  | nil => simp [jsonEscape]
  | cons x xs ih =>
    unfold jsonEscape
    split
    · simp; omega
    · split
      · simp; omega
      · simp; omega

end DSV.LLO
