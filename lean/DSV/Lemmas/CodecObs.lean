import DSV.LLO.CodecObs
import DSV.Lemmas.CodecOutcome
/-!
# Helper lemmas for the observation codec (C16)
-/
namespace DSV.LLO
open DSV

theorem contains_iff_mem (l : List Nat) (a : Nat) : l.contains a = true ↔ a ∈ l := by
  simp

/-- the duplicate check succeeds exactly on duplicate-free lists and then returns the list -/
theorem removesFromMsg_ok (l seen : List Nat) (h : (seen ++ l).Nodup) :
    removesFromMsg seen l = .ok (seen ++ l) := by
  induction l generalizing seen with
  | nil => simp [removesFromMsg]
  | cons a as ih =>
    have hnot : ¬ a ∈ seen := by
      rw [List.nodup_append] at h
      intro hm
      exact h.2.2 a hm a (by simp) rfl
    simp only [removesFromMsg]
    rw [if_neg (by simpa using hnot), ih (seen ++ [a]) (by simpa [List.append_assoc] using h)]
    simp [List.append_assoc]

theorem removesFromMsg_err (l seen : List Nat) (hs : seen.Nodup) (h : ¬ (seen ++ l).Nodup) :
    removesFromMsg seen l = .err errDuplicateRemove := by
  induction l generalizing seen with
  | nil => simp at h; exact absurd hs h
  | cons a as ih =>
    simp only [removesFromMsg]
    by_cases hm : a ∈ seen
    · rw [if_pos (by simpa using hm)]
    · rw [if_neg (by simpa using hm)]
      apply ih (seen ++ [a])
      · rw [List.nodup_append]
        refine ⟨hs, by simp, ?_⟩
        intro x hx y hy
        simp at hy
        subst hy
        intro hxy; subst hxy; exact hm hx
      · simpa [List.append_assoc] using h

theorem removesFromMsg_ne_panic (l seen : List Nat) : removesFromMsg seen l ≠ .panic := by
  induction l generalizing seen with
  | nil => simp [removesFromMsg]
  | cons a as ih =>
    simp only [removesFromMsg]
    split
    · simp
    · exact ih _

/-- the decoder's value step -/
def obsValueStep (e : Nat × Option SVMsg) : GoRes (Nat × SV) :=
  match unmarshalProtoSV e.2 with
  | .ok v => GoRes.ok (e.1, v)
  | .err _ => GoRes.err errBadValue
  | .panic => .panic

theorem obsValueStep_ne_panic (e : Nat × Option SVMsg) : obsValueStep e ≠ .panic := by
  unfold obsValueStep
  split
  · simp
  · simp
  · rename_i h; exact absurd h (unmarshalProtoSV_ne_panic _)

theorem obsFromMsg_eq (σ : ObsSched) (m : ObsMsg) :
    obsFromMsg σ m =
      match removesFromMsg [] m.removes with
      | .err c => .err c
      | .panic => .panic
      | .ok removes =>
        match goMapM obsValueStep (σ.msgValues m.values) with
        | .err c => .err c
        | .panic => .panic
        | .ok vals =>
          if m.ts > 0 then
            .ok { attested := m.attested, shouldRetire := m.shouldRetire, ts := m.ts,
                  removes := removes, updates := GoMap.ofList (σ.updates m.updates), values := GoMap.ofList vals }
          else if m.tsLegacy ≥ 0 then
            .ok { attested := m.attested, shouldRetire := m.shouldRetire, ts := m.tsLegacy.toNat,
                  removes := removes, updates := GoMap.ofList (σ.updates m.updates), values := GoMap.ofList vals }
          else .err errNegativeTimestamp := by
  rfl

theorem obsFromMsg_ne_panic (σ : ObsSched) (m : ObsMsg) : obsFromMsg σ m ≠ .panic := by
  rw [obsFromMsg_eq]
  split
  · simp
  · rename_i h; exact absurd h (removesFromMsg_ne_panic _ _)
  · split
    · simp
    · rename_i h; exact absurd h (goMapM_ne_panic _ _ obsValueStep_ne_panic)
    · split
      · simp
      · split <;> simp

/-- the entries of `StreamValues` that are not nil -/
def nonNilValues (l : List (Nat × Option SV)) : List (Nat × SV) :=
  l.filterMap (fun e => e.2.map (fun v => (e.1, v)))

def encValue (e : Nat × SV) : Nat × Option SVMsg := (e.1, some (makeSVMsg e.2))

theorem encode_values_eq (l : List (Nat × Option SV)) :
    l.filterMap encValueOpt = (nonNilValues l).map encValue := by
  induction l with
  | nil => rfl
  | cons e es ih =>
    obtain ⟨id, v⟩ := e
    cases v with
    | none => simpa [nonNilValues, List.filterMap_cons, encValueOpt] using ih
    | some v =>
      simp only [nonNilValues, List.filterMap_cons, Option.map_some, List.map_cons, encValueOpt] at ih ⊢
      rw [ih]; rfl

/-- the message `Encode` builds -/
def obsMsgOf (σ : ObsSched) (o : ObsE) : ObsMsg :=
  { attested := o.attested, shouldRetire := o.shouldRetire, tsLegacy := toInt64 o.ts, ts := o.ts,
    removes := σ.removes o.removes, updates := σ.updates o.updates,
    values := (nonNilValues (σ.values o.values)).map encValue }

theorem nonNilValues_keys_sublist (l : List (Nat × Option SV)) :
    ((nonNilValues l).map (·.1)).Sublist (l.map (·.1)) := by
  induction l with
  | nil => simp [nonNilValues]
  | cons e es ih =>
    obtain ⟨id, v⟩ := e
    cases v with
    | none =>
      simp only [nonNilValues, List.filterMap_cons, Option.map_none, List.map_cons] at ih ⊢
      exact List.Sublist.cons _ ih
    | some v =>
      simp only [nonNilValues, List.filterMap_cons, Option.map_some, List.map_cons] at ih ⊢
      exact List.Sublist.cons_cons _ ih

theorem nonNilValues_perm {l l' : List (Nat × Option SV)} (h : l.Perm l') :
    (nonNilValues l).Perm (nonNilValues l') := h.filterMap _

end DSV.LLO
