import DSV.LLO.Plugin
import DSV.Lemmas.GoMap
import DSV.Lemmas.Sched
/-!
# Convergence of channel definitions: map-level lemmas (C14)

Pure list / `GoMap` facts behind the potential-function argument of DESIGN §4 C14:

* `unwanted cur T` (ids defined in `cur` but not in the target `T`) and `pending cur T` (definitions
  of `T` missing from or different in `cur`), both sorted by ascending id exactly as
  `observationVotes` computes them (`observationVotes_eq`);
* `foldl_updStep_spec`: the addition/replacement loop applies every entry as long as the cap leaves
  room for the new ones;
* `cap_count`: the counting argument "the cap never blocks an honest addition";
* `potential_applied`: removing the first `nR` unwanted ids and applying the first `nU` pending
  definitions drops exactly these prefixes from the two lists;
* `eq_target_of_potential_nil`: both lists empty ⇒ the map equals the target.
-/
namespace DSV.LLO
open DSV DSV.GoMap

/-! ## general list facts -/

theorem mem_drop_iff_of_nodup {α : Type} {l : List α} (h : l.Nodup) (n : Nat) (a : α) :
    a ∈ l.drop n ↔ a ∈ l ∧ a ∉ l.take n := by
  have hsplit := List.take_append_drop n l
  rw [← hsplit] at h
  obtain ⟨_, _, hdis⟩ := List.nodup_append.mp h
  constructor
  · intro ha
    exact ⟨List.mem_of_mem_drop ha, fun ht => hdis a ht a ha rfl⟩
  · rintro ⟨ha, hnt⟩
    rw [← hsplit] at ha
    rcases List.mem_append.mp ha with h1 | h1
    · exact absurd h1 hnt
    · exact h1

/-- two lists sorted by a strict order with the same elements are equal -/
theorem eq_of_strict_sorted {α : Type} (lt : α → α → Prop) (irrefl : ∀ a, ¬ lt a a)
    (asymm : ∀ a b, lt a b → lt b a → False) {l₁ l₂ : List α}
    (h₁ : l₁.Pairwise lt) (h₂ : l₂.Pairwise lt) (h : ∀ a, a ∈ l₁ ↔ a ∈ l₂) : l₁ = l₂ := by
  have hne : ∀ {a b : α}, lt a b → a ≠ b := fun {a b} hab heq => irrefl a (by rw [← heq] at hab; exact hab)
  have n₁ : l₁.Nodup := List.Pairwise.imp (S := (· ≠ ·)) hne h₁
  have n₂ : l₂.Nodup := List.Pairwise.imp (S := (· ≠ ·)) hne h₂
  exact List.Perm.eq_of_pairwise (le := lt) (fun a b _ _ hab hba => (asymm a b hab hba).elim) h₁ h₂
    ((List.perm_ext_iff_of_nodup n₁ n₂).mpr h)

/-! ## maps sorted by key -/

/-- entries by ascending key: the order `observation()` walks the maps in, and the order of the
    entries in an encoded outcome -/
def byKey {ν : Type} (m : GoMap Nat ν) : GoMap Nat ν := m.mergeSort (fun a b => decide (a.1 ≤ b.1))

theorem byKey_perm {ν : Type} (m : GoMap Nat ν) : (byKey m).Perm m := List.mergeSort_perm _ _

theorem wf_byKey {ν : Type} (m : GoMap Nat ν) (h : WF m) : WF (byKey m) := by
  unfold WF keys at *; exact ((byKey_perm m).map _).nodup_iff.mpr h

theorem byKey_sorted {ν : Type} (m : GoMap Nat ν) (h : WF m) :
    (byKey m).Pairwise (fun a b => a.1 < b.1) := by
  have h1 : (byKey m).Pairwise (fun a b => decide (a.1 ≤ b.1) = true) :=
    List.pairwise_mergeSort (le := fun (a b : Nat × ν) => decide (a.1 ≤ b.1))
      (fun a b c hab hbc => by simp only [decide_eq_true_eq] at *; omega)
      (fun a b => by simp only [Bool.or_eq_true, decide_eq_true_eq]; omega) m
  have h2 : (byKey m).Pairwise (fun a b => a.1 ≠ b.1) := List.pairwise_map.mp (wf_byKey m h)
  exact (h1.and h2).imp (fun {a b} hab => by
    have := hab.1; simp only [decide_eq_true_eq] at this
    have := hab.2; omega)

theorem get?_byKey {ν : Type} (m : GoMap Nat ν) (h : WF m) (k : Nat) : get? (byKey m) k = get? m k :=
  get?_perm (wf_byKey m h) (byKey_perm m) k

theorem contains_eq_of_get? {ν ν' : Type} (a : GoMap Nat ν) (b : GoMap Nat ν') (k : Nat)
    (h : (get? a k).isSome = (get? b k).isSome) : contains a k = contains b k := by
  rw [Bool.eq_iff_iff, contains_iff_get?, contains_iff_get?, h]

theorem mem_iff_get? {ν : Type} (m : GoMap Nat ν) (h : WF m) (e : Nat × ν) : e ∈ m ↔ get? m e.1 = some e.2 :=
  ⟨get?_eq_some_of_mem m h e, fun hg => by have := mem_of_get?_eq_some m e.1 e.2 hg; simpa using this⟩

theorem contains_of_mem {ν : Type} (m : GoMap Nat ν) (e : Nat × ν) (he : e ∈ m) : contains m e.1 = true := by
  rw [← mem_keys_iff]; exact List.mem_map_of_mem (f := (·.1)) he

theorem contains_set_ne {ν : Type} (m : GoMap Nat ν) (k k' : Nat) (v : ν) (h : k' ≠ k) :
    contains (set m k v) k' = contains m k' := by
  apply contains_eq_of_get?
  rw [get?_set]; simp [h]

theorem contains_set_self {ν : Type} (m : GoMap Nat ν) (k : Nat) (v : ν) : contains (set m k v) k = true := by
  rw [contains_iff_get?, get?_set]; simp

/-! ## `ChannelDefinition.Equals` -/

theorem chanDef_equals_iff (a b : ChanDef) : a.equals b = true ↔ a = b := by
  cases a; cases b
  simp [ChanDef.equals]
  exact ⟨fun h => ⟨h.1.1, h.1.2, h.2⟩, fun h => ⟨⟨h.1, h.2.1⟩, h.2.2⟩⟩

/-! ## the addition / replacement loop -/

/-- body of the loop in `applyUpdates` for a candidate with more than `f` votes -/
def updStep (cap : Nat) (d : GoMap Nat ChanDef) (e : Nat × ChanDef) : GoMap Nat ChanDef :=
  if d.contains e.1 then d.set e.1 e.2 else if d.length ≥ cap then d else d.set e.1 e.2

/-- if the cap leaves room for every *new* id of `l`, the loop applies every entry of `l` -/
theorem foldl_updStep_spec (cap : Nat) (l : List (Nat × ChanDef)) (hnd : (l.map (·.1)).Nodup)
    (d : GoMap Nat ChanDef)
    (hcap : d.length + (l.filter (fun e => !d.contains e.1)).length ≤ cap) (k : Nat) :
    get? (l.foldl (updStep cap) d) k = match get? l k with
      | some v => some v
      | none => get? d k := by
  induction l generalizing d with
  | nil => simp
  | cons e es ih =>
    simp only [List.map_cons, List.nodup_cons] at hnd
    simp only [List.foldl_cons]
    have hstep : updStep cap d e = d.set e.1 e.2 := by
      unfold updStep
      by_cases hc : d.contains e.1 = true
      · simp [hc]
      · have hcf : d.contains e.1 = false := by simpa using hc
        simp only [List.filter_cons, hcf, Bool.not_false, if_true, List.length_cons] at hcap
        have : ¬ d.length ≥ cap := by omega
        simp [hcf, this]
    have hfilter : es.filter (fun x => !(d.set e.1 e.2).contains x.1) = es.filter (fun x => !d.contains x.1) := by
      apply List.filter_congr
      intro x hx
      have hne : x.1 ≠ e.1 := fun h => hnd.1 (h ▸ List.mem_map_of_mem (f := (·.1)) hx)
      rw [contains_set_ne _ _ _ _ hne]
    have hcap' : (d.set e.1 e.2).length + (es.filter (fun x => !(d.set e.1 e.2).contains x.1)).length ≤ cap := by
      rw [hfilter, length_set]
      by_cases hc : d.contains e.1 = true
      · simp only [List.filter_cons, hc, Bool.not_true, Bool.false_eq_true, if_false] at hcap
        simp only [hc, if_true]; exact hcap
      · have hcf : d.contains e.1 = false := by simpa using hc
        simp only [List.filter_cons, hcf, Bool.not_false, if_true, List.length_cons] at hcap
        simp only [hcf, Bool.false_eq_true, if_false]; omega
    rw [hstep, ih hnd.2 _ hcap', get?_cons, get?_set]
    by_cases hk : e.1 = k
    · subst hk
      have : get? es e.1 = none := get?_eq_none_of_not_mem_keys es e.1 hnd.1
      simp [this]
    · have hk' : ¬ k = e.1 := fun h => hk h.symm
      simp [hk, hk']

/-! ## the two difference lists -/

/-- ids defined in `cur` that the target does not contain, ascending -/
def unwanted (cur T : GoMap Nat ChanDef) : List Nat :=
  ((byKey cur).filter (fun e => !T.contains e.1)).map (·.1)

/-- a target entry that is missing from `cur` or whose definition differs -/
def differs (cur : GoMap Nat ChanDef) (e : Nat × ChanDef) : Bool :=
  match cur.get? e.1 with
  | some p => !p.equals e.2
  | none => true

/-- definitions of the target that are missing from or different in `cur`, ascending id -/
def pending (cur T : GoMap Nat ChanDef) : GoMap Nat ChanDef := (byKey T).filter (differs cur)

/-- what a correct node votes for, in closed form -/
theorem observationVotes_eq (env : Env) (prev : Outcome) (T : GoMap Nat ChanDef)
    (hnr : prev.stage ≠ stageRetired) (hvp : verifyChannelDefinitions env prev.defs = true)
    (hvT : verifyChannelDefinitions env T = true) :
    observationVotes env prev T =
      some ((unwanted prev.defs T).take env.maxRemove, (pending prev.defs T).take env.maxUpdate) := by
  unfold observationVotes
  have h1 : (prev.stage == stageRetired) = false := by simpa using hnr
  simp only [h1, hvp, hvT, Bool.false_eq_true, if_false, Bool.not_true]
  rfl

theorem differs_eq_false (cur : GoMap Nat ChanDef) (e : Nat × ChanDef) :
    differs cur e = false ↔ cur.get? e.1 = some e.2 := by
  unfold differs
  cases h : cur.get? e.1 with
  | none => simp
  | some p =>
    simp only [Bool.not_eq_eq_eq_not, Bool.not_false, Option.some.injEq]
    exact chanDef_equals_iff p e.2

theorem mem_unwanted (cur T : GoMap Nat ChanDef) (k : Nat) :
    k ∈ unwanted cur T ↔ contains cur k = true ∧ contains T k = false := by
  unfold unwanted
  simp only [List.mem_map, List.mem_filter, Bool.not_eq_eq_eq_not, Bool.not_true]
  constructor
  · rintro ⟨e, ⟨he, hc⟩, rfl⟩
    exact ⟨contains_of_mem cur e ((byKey_perm cur).mem_iff.mp he), hc⟩
  · rintro ⟨hc, hT⟩
    rw [← mem_keys_iff] at hc
    obtain ⟨e, he, rfl⟩ := List.mem_map.mp hc
    exact ⟨e, ⟨(byKey_perm cur).mem_iff.mpr he, hT⟩, rfl⟩

theorem unwanted_sorted (cur T : GoMap Nat ChanDef) (h : WF cur) : (unwanted cur T).Pairwise (· < ·) := by
  unfold unwanted
  exact List.pairwise_map.mpr ((byKey_sorted cur h).filter _)

theorem unwanted_nodup (cur T : GoMap Nat ChanDef) (h : WF cur) : (unwanted cur T).Nodup :=
  (unwanted_sorted cur T h).imp (fun {a b} hab => by omega)

theorem mem_pending (cur T : GoMap Nat ChanDef) (e : Nat × ChanDef) :
    e ∈ pending cur T ↔ e ∈ T ∧ differs cur e = true := by
  unfold pending
  rw [List.mem_filter, (byKey_perm T).mem_iff]

theorem pending_sorted (cur T : GoMap Nat ChanDef) (h : WF T) :
    (pending cur T).Pairwise (fun a b => a.1 < b.1) := (byKey_sorted T h).filter _

theorem wf_pending (cur T : GoMap Nat ChanDef) (h : WF T) : WF (pending cur T) := by
  unfold WF keys
  exact List.pairwise_map.mpr ((pending_sorted cur T h).imp (fun {a b} hab => by omega))

theorem wf_take {ν : Type} (m : GoMap Nat ν) (n : Nat) (h : WF m) : WF (m.take n) := by
  unfold WF keys at *
  exact List.Nodup.sublist ((List.take_sublist n m).map _) h

/-! ## "the definitions after the round" as a lookup characterisation -/

/-- `d'` is `cur` with the ids `rm` deleted and then the definitions `upd` stored -/
def Applied (cur : GoMap Nat ChanDef) (rm : List Nat) (upd : GoMap Nat ChanDef) (d' : GoMap Nat ChanDef) : Prop :=
  ∀ c, get? d' c = match get? upd c with
    | some d => some d
    | none => if c ∈ rm then none else get? cur c

theorem applied_nil (cur d' : GoMap Nat ChanDef) : Applied cur [] [] d' ↔ ∀ c, get? d' c = get? cur c := by
  unfold Applied; simp

/-- **potential**: after deleting the first `nR` unwanted ids and storing the first `nU` pending
    definitions, exactly these prefixes are gone from the two difference lists -/
theorem potential_applied (cur T d' : GoMap Nat ChanDef) (nR nU : Nat) (hc : WF cur) (hT : WF T) (hd : WF d')
    (h : Applied cur ((unwanted cur T).take nR) ((pending cur T).take nU) d') :
    unwanted d' T = (unwanted cur T).drop nR ∧ pending d' T = (pending cur T).drop nU := by
  have hwu : WF ((pending cur T).take nU) := wf_take _ _ (wf_pending cur T hT)
  -- an id stored by an update belongs to the target, with the target's definition
  have hupd : ∀ c d, get? ((pending cur T).take nU) c = some d → (c, d) ∈ (pending cur T).take nU ∧ (c, d) ∈ T := by
    intro c d hg
    have hm := mem_of_get?_eq_some _ c d hg
    exact ⟨hm, ((mem_pending cur T (c, d)).mp (List.mem_of_mem_take hm)).1⟩
  have hrm : ∀ c, c ∈ (unwanted cur T).take nR → contains T c = false := fun c hc' =>
    ((mem_unwanted cur T c).mp (List.mem_of_mem_take hc')).2
  constructor
  · apply eq_of_strict_sorted (· < ·) (fun a => Nat.lt_irrefl a) (fun a b h1 h2 => by omega)
      (unwanted_sorted d' T hd) ((unwanted_sorted cur T hc).drop)
    intro k
    rw [mem_drop_iff_of_nodup (unwanted_nodup cur T hc), mem_unwanted, mem_unwanted]
    by_cases hTk : contains T k = true
    · simp [hTk]
    · have hTk' : contains T k = false := by simpa using hTk
      have hnone : get? ((pending cur T).take nU) k = none := by
        cases hg : get? ((pending cur T).take nU) k with
        | none => rfl
        | some d =>
          have := contains_of_mem T (k, d) (hupd k d hg).2
          simp only at this
          rw [hTk'] at this; cases this
      have hk := h k
      rw [hnone] at hk
      simp only at hk
      by_cases hr : k ∈ (unwanted cur T).take nR
      · simp only [hr, if_true] at hk
        have : contains d' k = false := (contains_false_iff d' k).mpr hk
        simp [this, hr]
      · simp only [hr, if_false] at hk
        have : contains d' k = contains cur k := contains_eq_of_get? d' cur k (by rw [hk])
        simp [this, hr, hTk']
  · apply eq_of_strict_sorted (fun (a b : Nat × ChanDef) => a.1 < b.1) (fun a => Nat.lt_irrefl a.1)
      (fun a b h1 h2 => by omega) (pending_sorted d' T hT) ((pending_sorted cur T hT).drop)
    intro e
    rw [mem_drop_iff_of_nodup (nodup_of_wf _ (wf_pending cur T hT)), mem_pending, mem_pending]
    by_cases heT : e ∈ T
    · have hk := h e.1
      cases hg : get? ((pending cur T).take nU) e.1 with
      | some d =>
        rw [hg] at hk
        simp only at hk
        obtain ⟨hm, hmT⟩ := hupd e.1 d hg
        have h1 := get?_eq_some_of_mem T hT e heT
        have h2 := get?_eq_some_of_mem T hT (e.1, d) hmT
        simp only at h2
        rw [h1] at h2
        have hde : d = e.2 := (Option.some.inj h2).symm
        subst hde
        have hdf : differs d' e = false := (differs_eq_false d' e).mpr hk
        have hmem : e ∈ (pending cur T).take nU := hm
        simp [hdf, hmem]
      | none =>
        rw [hg] at hk
        simp only at hk
        have hnr : e.1 ∉ (unwanted cur T).take nR := by
          intro hr
          have := hrm e.1 hr
          rw [contains_of_mem T e heT] at this; cases this
        simp only [hnr, if_false] at hk
        have hdf : differs d' e = differs cur e := by unfold differs; rw [hk]
        have hnm : e ∉ (pending cur T).take nU := by
          intro hm
          have := get?_eq_some_of_mem _ hwu e hm
          rw [hg] at this; cases this
        simp [hdf, hnm, heT]
    · simp [heT]

/-- both difference lists empty: the map *is* the target -/
theorem eq_target_of_potential_nil (cur T : GoMap Nat ChanDef)
    (h1 : unwanted cur T = []) (h2 : pending cur T = []) (c : Nat) : get? cur c = get? T c := by
  cases hg : get? T c with
  | some v =>
    have hm : (c, v) ∈ T := mem_of_get?_eq_some T c v hg
    have hd : differs cur (c, v) = false := by
      cases hd : differs cur (c, v) with
      | false => rfl
      | true =>
        have : (c, v) ∈ pending cur T := (mem_pending cur T (c, v)).mpr ⟨hm, hd⟩
        rw [h2] at this; cases this
    exact (differs_eq_false cur (c, v)).mp hd
  | none =>
    have hTc : contains T c = false := (contains_false_iff T c).mpr hg
    cases hc : contains cur c with
    | false => exact (contains_false_iff cur c).mp hc
    | true =>
      have : c ∈ unwanted cur T := (mem_unwanted cur T c).mpr ⟨hc, hTc⟩
      rw [h1] at this; cases this

/-- conversely, a map equal to the target has empty difference lists -/
theorem potential_nil_of_eq_target (cur T : GoMap Nat ChanDef) (hT : WF T)
    (h : ∀ c, get? cur c = get? T c) : unwanted cur T = [] ∧ pending cur T = [] := by
  constructor
  · apply List.eq_nil_iff_forall_not_mem.mpr
    intro k hk
    obtain ⟨h1, h2⟩ := (mem_unwanted cur T k).mp hk
    rw [contains_eq_of_get? cur T k (by rw [h k])] at h1
    rw [h1] at h2; cases h2
  · apply List.eq_nil_iff_forall_not_mem.mpr
    intro e he
    obtain ⟨h1, h2⟩ := (mem_pending cur T e).mp he
    have := (differs_eq_false cur e).mpr (by rw [h e.1]; exact get?_eq_some_of_mem T hT e h1)
    rw [this] at h2; cases h2

/-! ## the cap never blocks an honest addition -/

/-- **counting argument** (DESIGN §4 C14).  `D1` is `cur` after the removal loop.  Either every
    unwanted id has been removed — then the surviving ids together with the new ids about to be added
    are distinct ids of the target, at most `|T| ≤ cap` — or `nR` ids were removed, at least as many as
    the `≤ nU` additions, so the count stays below `|cur| ≤ cap`. -/
theorem cap_count (cur T D1 : GoMap Nat ChanDef) (nR nU cap : Nat) (hc : WF cur) (hT : WF T) (hD : WF D1)
    (hlenT : T.length ≤ cap) (hlenC : cur.length ≤ cap) (hn : nU ≤ nR)
    (hD1 : ∀ k, get? D1 k = if k ∈ (unwanted cur T).take nR then none else get? cur k) :
    D1.length + (((pending cur T).take nU).filter (fun e => !D1.contains e.1)).length ≤ cap := by
  have hkeysD : ∀ k, k ∈ keys D1 → k ∉ (unwanted cur T).take nR ∧ contains cur k = true := by
    intro k hk
    have hs := (contains_iff_get? D1 k).mp ((mem_keys_iff D1 k).mp hk)
    rw [hD1 k] at hs
    by_cases hr : k ∈ (unwanted cur T).take nR
    · simp [hr] at hs
    · simp only [hr, if_false] at hs
      exact ⟨hr, (contains_iff_get? cur k).mpr hs⟩
  by_cases hR : (unwanted cur T).length ≤ nR
  · -- every unwanted id is removed in this round
    rw [List.take_of_length_le hR] at hD1 hkeysD
    let news := (((pending cur T).take nU).filter (fun e => !D1.contains e.1)).map (·.1)
    have hnd : (keys D1 ++ news).Nodup := by
      rw [List.nodup_append]
      refine ⟨hD, ?_, ?_⟩
      · have : (((pending cur T).take nU).filter (fun e => !D1.contains e.1)).Sublist (pending cur T) :=
          (List.filter_sublist).trans (List.take_sublist _ _)
        exact List.Nodup.sublist (this.map _) (wf_pending cur T hT)
      · intro a ha b hb hab
        subst hab
        obtain ⟨e, he, rfl⟩ := List.mem_map.mp hb
        have := (List.mem_filter.mp he).2
        rw [(mem_keys_iff D1 e.1).mp ha] at this
        cases this
    have hsub : keys D1 ++ news ⊆ keys T := by
      intro a ha
      rw [mem_keys_iff]
      rcases List.mem_append.mp ha with h1 | h1
      · obtain ⟨h2, h3⟩ := hkeysD a h1
        cases hTa : contains T a with
        | true => rfl
        | false => exact absurd ((mem_unwanted cur T a).mpr ⟨h3, hTa⟩) h2
      · obtain ⟨e, he, rfl⟩ := List.mem_map.mp h1
        have := List.mem_of_mem_take (List.mem_filter.mp he).1
        exact contains_of_mem T e ((mem_pending cur T e).mp this).1
    have := List.Nodup.length_le_of_subset hnd hsub
    simp only [List.length_append, keys, List.length_map, news] at this
    omega
  · -- `nR` ids are removed, at most `nU ≤ nR` are added
    have hlen : ((unwanted cur T).take nR).length = nR := by rw [List.length_take]; omega
    have hnd : (keys D1 ++ (unwanted cur T).take nR).Nodup := by
      rw [List.nodup_append]
      refine ⟨hD, List.Nodup.sublist (List.take_sublist _ _) (unwanted_nodup cur T hc), ?_⟩
      intro a ha b hb hab
      subst hab
      exact (hkeysD a ha).1 hb
    have hsub : keys D1 ++ (unwanted cur T).take nR ⊆ keys cur := by
      intro a ha
      rw [mem_keys_iff]
      rcases List.mem_append.mp ha with h1 | h1
      · exact (hkeysD a h1).2
      · exact ((mem_unwanted cur T a).mp (List.mem_of_mem_take h1)).1
    have h1 := List.Nodup.length_le_of_subset hnd hsub
    simp only [List.length_append, keys, List.length_map, hlen] at h1
    have h2 : (((pending cur T).take nU).filter (fun e => !D1.contains e.1)).length ≤ nU :=
      Nat.le_trans (List.length_filter_le _ _) (by rw [List.length_take]; omega)
    omega

end DSV.LLO
