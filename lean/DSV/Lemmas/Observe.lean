import DSV.LLO.Observe
import DSV.Lemmas.GoMap
/-!
Helper lemmas for the full `observation()` model: `VerifyChannelDefinitions` is monotone (a
subset of a verified definition set, no longer than it, verifies), and the shape of the result.
-/
namespace DSV.LLO
open DSV DSV.GoMap

theorem nodup_eraseDups_gen {α} [BEq α] [LawfulBEq α] (l : List α) : l.eraseDups.Nodup := by
  generalize hn : l.length = n
  induction n using Nat.strongRecOn generalizing l with
  | _ n ih =>
    cases l with
    | nil => simp
    | cons a as =>
      rw [List.eraseDups_cons]
      have hlen : (as.filter fun b => !b == a).length < n := by
        have := List.length_filter_le (fun b => !b == a) as
        simp at hn; omega
      refine List.nodup_cons.mpr ⟨?_, ih _ hlen _ rfl⟩
      simp [List.mem_eraseDups]

theorem eraseDups_length_le_of_subset {α} [BEq α] [LawfulBEq α] {a b : List α} (h : ∀ x ∈ a, x ∈ b) :
    a.eraseDups.length ≤ b.eraseDups.length := by
  apply List.Nodup.length_le_of_subset (nodup_eraseDups_gen a)
  intro x hx
  rw [List.mem_eraseDups] at hx ⊢
  exact h x hx

theorem verify_nil (env : Env) : verifyChannelDefinitions env [] = true := by
  simp [verifyChannelDefinitions]

/-- `VerifyChannelDefinitions` is monotone -/
theorem verify_of_subset (env : Env) (a b : GoMap Nat ChanDef) (hlen : a.length ≤ b.length)
    (hsub : ∀ e ∈ a, e ∈ b) (hb : verifyChannelDefinitions env b = true) :
    verifyChannelDefinitions env a = true := by
  unfold verifyChannelDefinitions at hb ⊢
  split at hb
  · cases hb
  · rename_i hl
    rw [if_neg (by omega)]
    simp only at hb ⊢
    split at hb
    · cases hb
    · rename_i hall
      split
      · rename_i ha
        exfalso
        apply hall
        rw [Bool.not_eq_true'] at ha ⊢
        rw [List.all_eq_false] at ha ⊢
        obtain ⟨e, he, hne⟩ := ha
        exact ⟨e, hsub e he, hne⟩
      · have hsids : ∀ x ∈ (a.flatMap fun e => e.2.streams.map (·.sid)),
            x ∈ (b.flatMap fun e => e.2.streams.map (·.sid)) := by
          intro x hx
          rw [List.mem_flatMap] at hx ⊢
          obtain ⟨e, he, hxe⟩ := hx
          exact ⟨e, hsub e he, hxe⟩
        have := eraseDups_length_le_of_subset hsids
        simp only [decide_eq_true_eq] at hb ⊢
        omega

/-- a verified definition set references at most `maxStreamValues` distinct streams -/
theorem requested_le_of_verify (env : Env) (defs : GoMap Nat ChanDef)
    (h : verifyChannelDefinitions env defs = true) :
    (requestedStreams defs).length ≤ env.maxStreamValues := by
  unfold verifyChannelDefinitions at h
  split at h
  · cases h
  · simp only at h
    split at h
    · cases h
    · simpa [requestedStreams] using h

end DSV.LLO

namespace DSV.LLO
open DSV DSV.GoMap

/-- the update votes of a correct node pass `VerifyChannelDefinitions` (they are a few of the
    verified expected definitions) and both vote lists respect the limits -/
theorem votes_ok (env : Env) (prev : Outcome) (expected : GoMap Nat ChanDef)
    (rm : List Nat) (upd : GoMap Nat ChanDef) (h : observationVotes env prev expected = some (rm, upd)) :
    rm.length ≤ env.maxRemove ∧ upd.length ≤ env.maxUpdate ∧ verifyChannelDefinitions env upd = true := by
  unfold observationVotes at h
  split at h
  · cases h; exact ⟨Nat.zero_le _, Nat.zero_le _, verify_nil env⟩
  · split at h
    · cases h
    · split at h
      · cases h; exact ⟨Nat.zero_le _, Nat.zero_le _, verify_nil env⟩
      · rename_i hexp
        simp only [Option.some.injEq, Prod.mk.injEq] at h
        obtain ⟨h1, h2⟩ := h
        subst h1 h2
        refine ⟨by simp [List.length_take]; omega, by simp [List.length_take]; omega, ?_⟩
        apply verify_of_subset env _ expected
        · refine Nat.le_trans (List.length_take_le' _ _) (Nat.le_trans (List.length_filter_le _ _) ?_)
          rw [List.length_mergeSort]; exact Nat.le_refl _
        · intro e he
          exact (List.mergeSort_perm _ _).mem_iff.mp (List.mem_filter.mp (List.mem_of_mem_take he)).1
        · simpa using hexp

/-- not retired and votes produced: the previous definitions verified -/
theorem votes_prev_verified (env : Env) (prev : Outcome) (expected : GoMap Nat ChanDef)
    (r : List Nat × GoMap Nat ChanDef) (h : observationVotes env prev expected = some r)
    (hs : (prev.stage == stageRetired) = false) : verifyChannelDefinitions env prev.defs = true := by
  unfold observationVotes at h
  rw [hs] at h
  simp only [Bool.false_eq_true, if_false] at h
  split at h
  · cases h
  · rename_i hv; simpa using hv

end DSV.LLO
