import DSV.Lemmas.CodecSort
import DSV.Lemmas.CodecSVRoundtrip
/-!
# Helper lemmas for C10 (outcome codecs)
-/
namespace DSV.LLO
open DSV

/-! ## no panics in the decoders -/

theorem unmarshalDec_ne_panic (bs : List UInt8) : unmarshalDec bs ≠ .panic := by
  unfold unmarshalDec; split <;> simp

theorem wrap_ne_panic {α β : Type} (x : GoRes α) (f : α → β) (hx : x ≠ .panic) :
    (match x with
      | .ok a => GoRes.ok (f a)
      | .err c => .err c
      | .panic => .panic) ≠ .panic := by
  cases x with
  | ok a => simp
  | err c => simp
  | panic => exact absurd rfl hx

theorem unmarshalQuote_ne_panic (bs : List UInt8) : unmarshalQuote bs ≠ .panic := by
  unfold unmarshalQuote
  split
  · simp
  · rename_i b m a _
    cases h1 : unmarshalDec b with
    | panic => exact absurd h1 (unmarshalDec_ne_panic b)
    | err c => simp [bind, GoRes.bind]
    | ok x =>
      cases h2 : unmarshalDec m with
      | panic => exact absurd h2 (unmarshalDec_ne_panic m)
      | err c => simp [bind, GoRes.bind]
      | ok y =>
        cases h3 : unmarshalDec a with
        | panic => exact absurd h3 (unmarshalDec_ne_panic a)
        | err c => simp [bind, GoRes.bind]
        | ok z => simp [bind, GoRes.bind, pure]

theorem unmarshalTSV_ne_panic : ∀ (rem : Nat) (bs : List UInt8), unmarshalTSV rem bs ≠ .panic := by
  intro rem
  induction rem with
  | zero =>
    intro bs
    unfold unmarshalTSV
    split
    · simp
    · split
      · simp
      · rename_i m _
        split
        · simp
        · split
          · split
            · simp
            · simp
            · rename_i h; exact absurd h (unmarshalQuote_ne_panic _)
          · split
            · split
              · simp
              · simp
              · rename_i h; exact absurd h (unmarshalDec_ne_panic _)
            · simp
  | succ r ih =>
    intro bs
    unfold unmarshalTSV
    split
    · simp
    · split
      · simp
      · rename_i m _
        split
        · simp only
          split
          · simp
          · simp
          · rename_i h; exact absurd h (ih _)
        · split
          · split
            · simp
            · simp
            · rename_i h; exact absurd h (unmarshalQuote_ne_panic _)
          · split
            · split
              · simp
              · simp
              · rename_i h; exact absurd h (unmarshalDec_ne_panic _)
            · simp

theorem unmarshalProtoSV_ne_panic (enc : Option SVMsg) : unmarshalProtoSV enc ≠ .panic := by
  unfold unmarshalProtoSV
  split
  · simp
  · rename_i m
    split
    · exact unmarshalQuote_ne_panic _
    · split
      · cases h : unmarshalDec m.value with
        | panic => exact absurd h (unmarshalDec_ne_panic _)
        | err c => simp [GoRes.bind]
        | ok x => simp [GoRes.bind]
      · split
        · exact unmarshalTSV_ne_panic _ _
        · simp

theorem defsFromMsg_ne_panic (l : List (Nat × Option ChanDef)) : defsFromMsg l ≠ .panic := by
  unfold defsFromMsg
  have := goMapM_ne_panic (fun (e : Nat × Option ChanDef) =>
      match e.2 with
      | none => GoRes.err errNilDef
      | some d => GoRes.ok (e.1, d)) l (by intro a; split <;> simp)
  split
  · simp
  · simp
  · rename_i h; exact absurd h this

theorem aggsFromMsg_ne_panic (l : List AggMsg) : aggsFromMsg l ≠ .panic := by
  unfold aggsFromMsg
  have := goMapM_ne_panic (fun (e : AggMsg) =>
      match unmarshalProtoSV e.sv with
      | .ok v => GoRes.ok ((e.sid, e.agg), v)
      | .err c => .err c
      | .panic => .panic) l (by
        intro a
        cases h : unmarshalProtoSV a.sv with
        | panic => exact absurd h (unmarshalProtoSV_ne_panic _)
        | err c => simp
        | ok x => simp)
  split
  · simp
  · simp
  · rename_i h; exact absurd h this

/-! ## decode ∘ encode on the three repeated fields -/

theorem defsFromMsg_defsToMsg (σ : CodecSched) (hσ : σ.IsSched) (m : GoMap Nat ChanDef) (hwf : GoMap.WF m) :
    defsFromMsg (defsToMsg σ m) = .ok ((σ.defs m).mergeSort leKey) := by
  rw [defsToMsg_eq]
  unfold defsFromMsg
  rw [goMapM_ok _ (fun e => (e.1, (e.2.getD default))) ]
  · simp only [List.map_map]
    have : (fun (e : Nat × Option ChanDef) => (e.1, e.2.getD default)) ∘ (fun (e : Nat × ChanDef) => (e.1, some e.2)) = id := by
      funext e; rfl
    rw [this, List.map_id]
    rw [ofList_of_nodup]
    exact nodup_keys_mergeSort _ _ (nodup_keys_of_perm (hσ.defs m).symm hwf)
  · intro a ha
    rw [List.mem_map] at ha
    obtain ⟨e, _, rfl⟩ := ha
    rfl

/-- the stream values of a map: exponents are `int32`, times `uint64`, sizes below 2^64 bytes -/
def valuesInRange (m : GoMap (Nat × Nat) SV) : Prop := ∀ e ∈ m, e.2.inRange = true ∧ e.2.sizeOK

/-- no timestamped value is nested deeper than the decoder accepts -/
def valuesShallow (m : GoMap (Nat × Nat) SV) : Prop := ∀ e ∈ m, e.2.tsvDepth ≤ 2

theorem aggsFromMsg_aggsToMsg (σ : CodecSched) (hσ : σ.IsSched) (m : GoMap (Nat × Nat) SV) (hwf : GoMap.WF m)
    (hr : valuesInRange m) (hd : valuesShallow m) :
    aggsFromMsg (aggsToMsg σ m) = .ok ((σ.aggs m).mergeSort leAggKey) := by
  rw [aggsToMsg_eq]
  unfold aggsFromMsg
  have hmem : ∀ e ∈ (σ.aggs m).mergeSort leAggKey, e ∈ m := fun e he =>
    (hσ.aggs m).mem_iff.mp ((List.mergeSort_perm _ _).mem_iff.mp he)
  rw [goMapM_ok _ (fun (a : AggMsg) => ((a.sid, a.agg), ((unmarshalProtoSV a.sv).toOption.getD default)))]
  · simp only [List.map_map]
    have hid : ∀ e ∈ (σ.aggs m).mergeSort leAggKey,
        ((fun (a : AggMsg) => ((a.sid, a.agg), ((unmarshalProtoSV a.sv).toOption.getD default))) ∘ toAggMsg) e = e := by
      intro e he
      obtain ⟨h1, h2⟩ := hr e (hmem e he)
      simp only [Function.comp, toAggMsg]
      rw [unmarshalProtoSV_makeSVMsg e.2 h1 h2, if_pos (hd e (hmem e he))]
      rfl
    rw [List.map_congr_left hid, List.map_id']
    rw [ofList_of_nodup]
    exact nodup_keys_mergeSort _ _ (nodup_keys_of_perm (hσ.aggs m).symm hwf)
  · intro a ha
    rw [List.mem_map] at ha
    obtain ⟨e, he, rfl⟩ := ha
    obtain ⟨h1, h2⟩ := hr e (hmem e he)
    simp only [toAggMsg]
    rw [unmarshalProtoSV_makeSVMsg e.2 h1 h2, if_pos (hd e (hmem e he))]
    rfl

/-- when decoding the encoded aggregates succeeds, no value was nested too deeply -/
theorem valuesShallow_of_decode (σ : CodecSched) (hσ : σ.IsSched) (m : GoMap (Nat × Nat) SV)
    (hr : valuesInRange m) (r : GoMap (Nat × Nat) SV) (h : aggsFromMsg (aggsToMsg σ m) = .ok r) :
    valuesShallow m := by
  intro e he
  apply Classical.byContradiction
  intro hdeep
  rw [aggsToMsg_eq] at h
  unfold aggsFromMsg at h
  have hmem : toAggMsg e ∈ ((σ.aggs m).mergeSort leAggKey).map toAggMsg :=
    List.mem_map.mpr ⟨e, (List.mergeSort_perm _ _).mem_iff.mpr ((hσ.aggs m).mem_iff.mpr he), rfl⟩
  have herr := goMapM_err_of_mem (fun (e : AggMsg) =>
      match unmarshalProtoSV e.sv with
      | .ok v => GoRes.ok ((e.sid, e.agg), v)
      | .err c => .err c
      | .panic => .panic) _ (by
        intro a
        cases h : unmarshalProtoSV a.sv with
        | panic => exact absurd h (unmarshalProtoSV_ne_panic _)
        | err c => simp
        | ok x => simp) (toAggMsg e) hmem (by
        obtain ⟨h1, h2⟩ := hr e he
        simp only [toAggMsg]
        rw [unmarshalProtoSV_makeSVMsg e.2 h1 h2, if_neg hdeep]
        rfl)
  revert h herr
  cases goMapM _ _ <;> simp [GoRes.isErr]

theorem vaFromMsgV1_vaToMsgV1 (σ : CodecSched) (hσ : σ.IsSched) (m : GoMap Nat Nat) (hwf : GoMap.WF m) :
    vaFromMsgV1 (vaToMsgV1 σ m) = (σ.va m).mergeSort leKey := by
  unfold vaFromMsgV1 vaToMsgV1
  rw [ofList_of_nodup]
  exact nodup_keys_mergeSort _ _ (nodup_keys_of_perm (hσ.va m).symm hwf)

/-! ## v0 validity starts -/

def toSeconds (e : Nat × Nat) : Nat × Nat := (e.1, e.2 / 1000000000)
def toNanos (e : Nat × Nat) : Nat × Nat := (e.1, e.2 * 1000000000)
def floorSeconds (e : Nat × Nat) : Nat × Nat := (e.1, e.2 / 1000000000 * 1000000000)

theorem goMapM_ite {α β : Type} (p : α → Bool) (c : String) (g : α → β) (l : List α) :
    goMapM (fun a => if p a then GoRes.err c else GoRes.ok (g a)) l =
      if l.any p then .err c else .ok (l.map g) := by
  induction l with
  | nil => rfl
  | cons a as ih =>
    simp only [goMapM, List.any_cons, List.map_cons]
    by_cases hp : p a
    · simp [hp]
    · simp only [hp, Bool.false_eq_true, if_false, Bool.false_or, ih]
      by_cases hq : as.any p <;> simp [hq]

theorem vaToMsgV0_eq (σ : CodecSched) (m : GoMap Nat Nat) :
    vaToMsgV0 σ m = if (σ.va m).any (fun e => decide (e.2 / 1000000000 > maxUint32)) then .err errVATooLarge
      else .ok (((σ.va m).map toSeconds).mergeSort leKey) := by
  unfold vaToMsgV0
  have := goMapM_ite (fun (e : Nat × Nat) => decide (e.2 / 1000000000 > maxUint32)) errVATooLarge toSeconds (σ.va m)
  simp only [decide_eq_true_eq] at this
  simp only [toSeconds] at this ⊢
  rw [this]
  by_cases hq : (σ.va m).any (fun e => decide (e.2 / 1000000000 > maxUint32)) = true
  · rw [if_pos hq, if_pos hq]
  · rw [if_neg hq, if_neg hq]

theorem map_mergeSort_key (f : Nat × Nat → Nat × Nat) (hf : ∀ e, (f e).1 = e.1) (l : List (Nat × Nat)) :
    (l.mergeSort leKey).map f = (l.map f).mergeSort leKey := by
  apply List.map_mergeSort
  intro a _ b _
  simp [leKey, hf]

theorem map_keys_eq (f : Nat × Nat → Nat × Nat) (hf : ∀ e, (f e).1 = e.1) (l : List (Nat × Nat)) :
    (l.map f).map (·.1) = l.map (·.1) := by
  simp [List.map_map, Function.comp_def, hf]

theorem vaFromMsgV0_sorted (σ : CodecSched) (hσ : σ.IsSched) (m : GoMap Nat Nat) (hwf : GoMap.WF m) :
    vaFromMsgV0 (((σ.va m).map toSeconds).mergeSort leKey) = ((σ.va m).map floorSeconds).mergeSort leKey := by
  unfold vaFromMsgV0
  have h1 : (((σ.va m).map toSeconds).mergeSort leKey).map (fun e => (e.1, e.2 * 1000000000)) =
      ((σ.va m).map floorSeconds).mergeSort leKey := by
    rw [← map_mergeSort_key toSeconds (fun _ => rfl), List.map_map,
      ← map_mergeSort_key floorSeconds (fun _ => rfl)]
    rfl
  rw [h1, ofList_of_nodup]
  apply nodup_keys_mergeSort
  rw [map_keys_eq floorSeconds (fun _ => rfl)]
  exact nodup_keys_of_perm (hσ.va m).symm hwf

end DSV.LLO
