import DSV.LLO.Aggregators
import DSV.Lemmas.Rank
import DSV.Lemmas.DecOrder
/-!
# Rank-k median (`medianOf`) within the honest range, for the executable model
-/
namespace DSV.LLO
open DSV

theorem medianOf_eq {α : Type} [Inhabited α] (le : α → α → Bool) (xs : List α) (h : 0 < xs.length) :
    ∃ (hk : (xs.mergeSort le).length / 2 < (xs.mergeSort le).length),
      medianOf le xs = (xs.mergeSort le)[(xs.mergeSort le).length / 2] := by
  have hl : (xs.mergeSort le).length = xs.length := List.length_mergeSort _
  have hk : (xs.mergeSort le).length / 2 < (xs.mergeSort le).length := by omega
  refine ⟨hk, ?_⟩
  unfold medianOf
  rw [getElem!_pos (xs.mergeSort le) (xs.length / 2) (by omega)]
  simp [hl]

/-- the rank-k median of `xs` lies between two honest values whenever `xs` is a permutation of
    honest ++ other values with strictly more honest ones -/
theorem medianOf_honest {α : Type} [Inhabited α] (le : α → α → Bool)
    (tot : ∀ a b, le a b = true ∨ le b a = true) (tr : ∀ a b c, le a b = true → le b c = true → le a c = true)
    (xs hs bs : List α) (hperm : xs.Perm (hs ++ bs)) (hmaj : bs.length < hs.length) :
    (∃ lo ∈ hs, le lo (medianOf le xs) = true) ∧ (∃ hi ∈ hs, le (medianOf le xs) hi = true) := by
  have hlen : xs.length = hs.length + bs.length := by simpa using hperm.length_eq
  obtain ⟨hk, heq⟩ := medianOf_eq le xs (by omega)
  rw [heq]
  have hsorted : (xs.mergeSort le).Pairwise (fun a b => le a b = true) :=
    List.pairwise_mergeSort (fun a b c => tr a b c) (fun a b => by simpa using tot a b) xs
  have tot' : Rank.Total le := tot
  have tr' : Rank.Trans le := tr
  exact Rank.median_in_honest_range le tot' tr' (xs.mergeSort le) hs bs
    ((List.mergeSort_perm xs le).trans hperm) hsorted hmaj hk

theorem natLe_total (a b : Nat) : decide (a ≤ b) = true ∨ decide (b ≤ a) = true := by
  simp only [decide_eq_true_eq]; omega

theorem natLe_trans (a b c : Nat) (h1 : decide (a ≤ b) = true) (h2 : decide (b ≤ c) = true) :
    decide (a ≤ c) = true := by
  simp only [decide_eq_true_eq] at *; omega

end DSV.LLO
