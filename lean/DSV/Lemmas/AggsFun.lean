import DSV.Lemmas.Aggs
/-!
# The aggregate stored for a (stream, aggregator) pair is a function of the pair
(so the order in which the pairs are visited cannot matter)
-/
namespace DSV.LLO
open DSV DSV.GoMap

/-- previous aggregate copied forward: only timestamped values -/
def copiedTsv (prev : Outcome) (k : Nat × Nat) : Option SV :=
  match prev.aggs.get? k with
  | some (.tsv t v) => some (.tsv t v)
  | _ => none

/-- value stored for a pair that has not been processed yet (`.ok none` = nothing stored) -/
def aggOneValue (cfg : Cfg) (prev : Outcome) (so : GoMap Nat (List (Option SV))) (k : Nat × Nat) : GoRes (Option SV) :=
  match aggregate k.2 ((so.get? k.1).getD []) cfg.f with
  | none => .err "no-aggregator"
  | some res =>
    match res with
    | .ok (some (.tsv t v)) =>
      match copiedTsv prev k with
      | some (.tsv pt pv) => if t ≤ pt then .ok (some (.tsv pt pv)) else .ok (some (.tsv t v))
      | _ => .ok (some (.tsv t v))
    | .ok (some v) => .ok (some v)
    | .ok none => .ok (copiedTsv prev k)
    | .err _ => .ok (copiedTsv prev k)
    | .panic => .panic

/-- storing an optional value -/
def putOpt (aggs : GoMap (Nat × Nat) SV) (k : Nat × Nat) : Option SV → GoMap (Nat × Nat) SV
  | some v => aggs.set k v
  | none => aggs

theorem get?_putOpt (aggs : GoMap (Nat × Nat) SV) (k k' : Nat × Nat) (ov : Option SV)
    (hn : get? aggs k = none) :
    get? (putOpt aggs k ov) k' = if k' = k then ov else get? aggs k' := by
  cases ov with
  | none => simp only [putOpt]; by_cases h : k' = k <;> simp [h, hn]
  | some v => simp only [putOpt, get?_set]

theorem set_set_same (aggs : GoMap (Nat × Nat) SV) (k : Nat × Nat) (v w : SV) (k' : Nat × Nat) :
    get? ((aggs.set k v).set k w) k' = get? (aggs.set k w) k' := by
  rw [get?_set, get?_set, get?_set]; by_cases h : k' = k <;> simp [h]

/-- one step on a fresh key, extensionally -/
theorem aggregateOne_fresh (cfg : Cfg) (prev : Outcome) (so : GoMap Nat (List (Option SV)))
    (aggs : GoMap (Nat × Nat) SV) (sid agg : Nat) (hc : aggs.contains (sid, agg) = false) :
    match aggregateOne cfg prev so aggs sid agg, aggOneValue cfg prev so (sid, agg) with
    | .ok a', .ok ov => ∀ k', get? a' k' = if k' = (sid, agg) then ov else get? aggs k'
    | .err e, .err e' => e = e'
    | .panic, .panic => True
    | _, _ => False := by
  have hn : get? aggs (sid, agg) = none := (contains_false_iff aggs _).mp hc
  unfold aggregateOne aggOneValue copiedTsv
  simp only [hc, Bool.false_eq_true, if_false]
  cases ha : aggregate agg ((so.get? sid).getD []) cfg.f with
  | none => simp
  | some res =>
    cases res with
    | panic => simp
    | err e =>
      simp only
      intro k'
      cases hp : prev.aggs.get? (sid, agg) with
      | none => simp only; by_cases h : k' = (sid, agg) <;> simp [h, hn]
      | some pv =>
        cases pv with
        | tsv pt w => simp only [get?_set]
        | dec d => simp only; by_cases h : k' = (sid, agg) <;> simp [h, hn]
        | quote a b c => simp only; by_cases h : k' = (sid, agg) <;> simp [h, hn]
    | ok r =>
      cases r with
      | none =>
        simp only
        intro k'
        cases hp : prev.aggs.get? (sid, agg) with
        | none => simp only; by_cases h : k' = (sid, agg) <;> simp [h, hn]
        | some pv =>
          cases pv with
          | tsv pt w => simp only [get?_set]
          | dec d => simp only; by_cases h : k' = (sid, agg) <;> simp [h, hn]
          | quote a b c => simp only; by_cases h : k' = (sid, agg) <;> simp [h, hn]
      | some v =>
        cases v with
        | dec d =>
          simp only
          intro k'
          cases hp : prev.aggs.get? (sid, agg) with
          | none => simp only [get?_set]
          | some pv => cases pv <;> simp only [get?_set] <;> by_cases h : k' = (sid, agg) <;> simp [h]
        | quote a b c =>
          simp only
          intro k'
          cases hp : prev.aggs.get? (sid, agg) with
          | none => simp only [get?_set]
          | some pv => cases pv <;> simp only [get?_set] <;> by_cases h : k' = (sid, agg) <;> simp [h]
        | tsv t w =>
          simp only
          cases hp : prev.aggs.get? (sid, agg) with
          | none =>
            simp only [hn]
            intro k'; simp only [get?_set]
          | some pv =>
            cases pv with
            | dec d => simp only [hn]; intro k'; simp only [get?_set]
            | quote a b c => simp only [hn]; intro k'; simp only [get?_set]
            | tsv pt pw =>
              have hg : get? (aggs.set (sid, agg) (.tsv pt pw)) (sid, agg) = some (.tsv pt pw) := by
                rw [get?_set]; simp
              simp only [hg]
              by_cases hle : t ≤ pt
              · simp only [hle, if_true]; intro k'; simp only [get?_set]
              · simp only [hle, if_false]; intro k'; simp only [get?_set]; by_cases h : k' = (sid, agg) <;> simp [h]

end DSV.LLO

namespace DSV.LLO
open DSV DSV.GoMap

/-- the value finally stored for a pair (none = nothing stored) -/
def valueOf (cfg : Cfg) (prev : Outcome) (so : GoMap Nat (List (Option SV))) (k : Nat × Nat) : Option SV :=
  match aggOneValue cfg prev so k with
  | .ok ov => ov
  | _ => none

theorem aggOneValue_no_panic (cfg : Cfg) (prev : Outcome) (so : GoMap Nat (List (Option SV))) (k : Nat × Nat)
    (hagg : ∀ r, aggregate k.2 ((so.get? k.1).getD []) cfg.f = some r → r ≠ .panic) :
    aggOneValue cfg prev so k ≠ .panic := by
  unfold aggOneValue
  cases ha : aggregate k.2 ((so.get? k.1).getD []) cfg.f with
  | none => simp
  | some res =>
    have := hagg res ha
    cases res with
    | panic => exact absurd rfl this
    | err e => simp
    | ok r =>
      cases r with
      | none => simp
      | some v =>
        cases v with
        | dec d => simp
        | quote a b c => simp
        | tsv t w =>
          simp only
          split
          · split <;> simp
          · simp

theorem aggOneValue_err (cfg : Cfg) (prev : Outcome) (so : GoMap Nat (List (Option SV))) (k : Nat × Nat) (e : String)
    (h : aggOneValue cfg prev so k = .err e) : e = "no-aggregator" := by
  unfold aggOneValue at h
  cases ha : aggregate k.2 ((so.get? k.1).getD []) cfg.f with
  | none => rw [ha] at h; simp at h; exact h.symm
  | some res =>
    rw [ha] at h
    cases res with
    | panic => simp at h
    | err e' => simp at h
    | ok r =>
      cases r with
      | none => simp at h
      | some v =>
        cases v with
        | dec d => simp at h
        | quote a b c => simp at h
        | tsv t w =>
          simp only at h
          split at h
          · split at h <;> simp at h
          · simp at h

/-- state of the aggregation loop after the pairs `ps` -/
def AggFun (cfg : Cfg) (prev : Outcome) (so : GoMap Nat (List (Option SV))) (ps : List (Nat × Nat)) :
    GoRes (GoMap (Nat × Nat) SV) → Prop
  | .ok aggs => (∀ p ∈ ps, ∃ ov, aggOneValue cfg prev so p = .ok ov) ∧ WF aggs ∧
      ∀ k, get? aggs k = if k ∈ ps then valueOf cfg prev so k else none
  | .err e => e = "no-aggregator" ∧ ∃ p ∈ ps, aggOneValue cfg prev so p = .err "no-aggregator"
  | .panic => False

theorem aggFun_step (cfg : Cfg) (prev : Outcome) (so : GoMap Nat (List (Option SV))) (ps : List (Nat × Nat))
    (acc : GoRes (GoMap (Nat × Nat) SV)) (s : Stream)
    (hnp : aggOneValue cfg prev so (s.sid, s.agg) ≠ .panic)
    (h : AggFun cfg prev so ps acc) :
    AggFun cfg prev so (ps ++ [(s.sid, s.agg)])
      (acc.bind fun aggs => aggregateOne cfg prev so aggs s.sid s.agg) := by
  cases acc with
  | panic => exact h
  | err e =>
    obtain ⟨he, p, hp, hpe⟩ := h
    exact ⟨he, p, by simp [hp], hpe⟩
  | ok aggs =>
    obtain ⟨hall, hwf, hget⟩ := h
    simp only [GoRes.bind]
    by_cases hc : aggs.contains (s.sid, s.agg) = true
    · -- already present: unchanged, and the pair was processed before
      have hin : (s.sid, s.agg) ∈ ps := by
        apply Classical.byContradiction; intro hni
        have := hget (s.sid, s.agg)
        rw [if_neg hni] at this
        have hs := (contains_iff_get? aggs _).mp hc
        rw [this] at hs; cases hs
      have : aggregateOne cfg prev so aggs s.sid s.agg = .ok aggs := by
        unfold aggregateOne; simp [hc]
      rw [this]
      refine ⟨?_, hwf, ?_⟩
      · intro p hp
        rcases List.mem_append.mp hp with hp | hp
        · exact hall p hp
        · simp only [List.mem_singleton] at hp; subst hp; exact hall _ hin
      · intro k
        rw [hget k]
        by_cases hk : k ∈ ps
        · simp [hk]
        · have : k ≠ (s.sid, s.agg) := fun e => hk (e ▸ hin)
          simp [hk, this]
    · have hcf : aggs.contains (s.sid, s.agg) = false := by simpa using hc
      have hfresh := aggregateOne_fresh cfg prev so aggs s.sid s.agg hcf
      have hn : get? aggs (s.sid, s.agg) = none := (contains_false_iff aggs _).mp hcf
      cases h1 : aggregateOne cfg prev so aggs s.sid s.agg with
      | ok a' =>
        cases h2 : aggOneValue cfg prev so (s.sid, s.agg) with
        | ok ov =>
          rw [h1, h2] at hfresh
          simp only at hfresh
          obtain ⟨hw', _, _, _⟩ := aggregateOne_spec cfg prev so aggs a' s.sid s.agg hwf h1
          refine ⟨?_, hw', ?_⟩
          · intro p hp
            rcases List.mem_append.mp hp with hp | hp
            · exact hall p hp
            · simp only [List.mem_singleton] at hp; subst hp; exact ⟨ov, h2⟩
          · intro k
            rw [hfresh k]
            by_cases hk : k = (s.sid, s.agg)
            · subst hk
              simp [valueOf, h2]
            · rw [if_neg hk, hget k]
              by_cases hkp : k ∈ ps <;> simp [hkp, hk]
        | err e => rw [h1, h2] at hfresh; exact absurd hfresh (by simp)
        | panic => exact absurd h2 hnp
      | err e =>
        cases h2 : aggOneValue cfg prev so (s.sid, s.agg) with
        | ok ov => rw [h1, h2] at hfresh; exact absurd hfresh (by simp)
        | err e' =>
          rw [h1, h2] at hfresh
          simp only at hfresh
          have he' := aggOneValue_err cfg prev so _ e' h2
          subst he'
          exact ⟨hfresh, (s.sid, s.agg), by simp, h2⟩
        | panic => exact absurd h2 hnp
      | panic =>
        cases h2 : aggOneValue cfg prev so (s.sid, s.agg) with
        | ok ov => rw [h1, h2] at hfresh; exact absurd hfresh (by simp)
        | err e' => rw [h1, h2] at hfresh; exact absurd hfresh (by simp)
        | panic => exact absurd h2 hnp

/-- **functional characterisation of the `StreamAggregates` section** -/
theorem aggregateAll_fun (cfg : Cfg) (prev : Outcome) (so : GoMap Nat (List (Option SV)))
    (defs : List (Nat × ChanDef))
    (hnp : ∀ k, aggOneValue cfg prev so k ≠ .panic) :
    AggFun cfg prev so ((defs.flatMap (·.2.streams)).map (fun s => (s.sid, s.agg)))
      (aggregateAll cfg prev so defs) := by
  unfold aggregateAll
  have gen : ∀ (ss : List Stream) (ps : List (Nat × Nat)) (acc : GoRes (GoMap (Nat × Nat) SV)),
      AggFun cfg prev so ps acc →
      AggFun cfg prev so (ps ++ ss.map (fun s => (s.sid, s.agg)))
        (ss.foldl (fun (acc : GoRes (GoMap (Nat × Nat) SV)) s =>
          acc.bind fun aggs => aggregateOne cfg prev so aggs s.sid s.agg) acc) := by
    intro ss
    induction ss with
    | nil => intro ps acc h; simpa using h
    | cons s ss ih =>
      intro ps acc h
      simp only [List.foldl_cons, List.map_cons]
      have := ih (ps ++ [(s.sid, s.agg)]) _ (aggFun_step cfg prev so ps acc s (hnp _) h)
      simpa [List.append_assoc] using this
  have h0 : AggFun cfg prev so [] (.ok []) :=
    ⟨fun p hp => (by cases hp), (by simp [WF, keys]), fun k => (by simp)⟩
  have := gen (defs.flatMap (·.2.streams)) [] (.ok []) h0
  simpa using this

end DSV.LLO
