import DSV.LLO.Aggregators
set_option linter.unusedSimpArgs false
/-!
# `mostCommonType` — specification

The loop keeps three buckets (one per value type) and the current winner.  Result:
the winning type has the largest bucket, ties go to the smaller type number, and the returned
bucket is exactly the sub-list of values of that type (in order).
-/
namespace DSV.LLO
open DSV

/-- the values of type `t`, in order -/
def ofType (t : Nat) (vs : List (Option SV)) : List SV :=
  vs.filterMap (fun x => match x with | some v => if v.type = t then some v else none | none => none)

theorem SV.type_lt (v : SV) : v.type < 3 := by cases v <;> simp [SV.type]

theorem ofType_append (t : Nat) (a b : List (Option SV)) : ofType t (a ++ b) = ofType t a ++ ofType t b := by
  simp [ofType, List.filterMap_append]

theorem ofType_single_some (t : Nat) (v : SV) : ofType t [some v] = if v.type = t then [v] else [] := by
  simp only [ofType, List.filterMap_cons, List.filterMap_nil]
  split <;> rename_i h <;> split at h <;> simp_all

theorem ofType_single_none (t : Nat) : ofType t [none] = [] := by simp [ofType]

/-- loop invariant -/
structure MctInv (vs : List (Option SV)) (s : MCTState) : Prop where
  bDec : s.bDec = ofType 0 vs
  bQuote : s.bQuote = ofType 1 vs
  bTsv : s.bTsv = ofType 2 vs
  typ_lt : s.typ < 3
  largest : s.largest = ofType s.typ vs
  best : ∀ t, t < 3 → (ofType t vs).length < (ofType s.typ vs).length ∨
      ((ofType t vs).length = (ofType s.typ vs).length ∧ s.typ ≤ t)

theorem mctInv_init : MctInv [] {} := by
  constructor <;> simp [ofType]

theorem mctInv_step (vs : List (Option SV)) (s : MCTState) (x : Option SV) (h : MctInv vs s) :
    MctInv (vs ++ [x]) (mctStep s x) := by
  cases x with
  | none =>
    simp only [mctStep]
    constructor
    · rw [ofType_append, ofType_single_none, List.append_nil]; exact h.bDec
    · rw [ofType_append, ofType_single_none, List.append_nil]; exact h.bQuote
    · rw [ofType_append, ofType_single_none, List.append_nil]; exact h.bTsv
    · exact h.typ_lt
    · rw [ofType_append, ofType_single_none, List.append_nil]; exact h.largest
    · intro t ht
      simp only [ofType_append, ofType_single_none, List.append_nil]
      exact h.best t ht
  | some v =>
    obtain ⟨bD, bQ, bT, ty, lg⟩ := s
    obtain ⟨h1, h2, h3, htl, h5, hb⟩ := h
    simp only at h1 h2 h3 htl h5 hb
    subst h1 h2 h3 h5
    have hv := v.type_lt
    have hlen : ∀ t, (ofType t (vs ++ [some v])).length =
        (ofType t vs).length + (if v.type = t then 1 else 0) := by
      intro t
      rw [ofType_append, ofType_single_some]
      split <;> simp
    have hcases : v.type = 0 ∨ v.type = 1 ∨ v.type = 2 := by omega
    have hty : ty = 0 ∨ ty = 1 ∨ ty = 2 := by omega
    have b0 := hb 0 (by omega)
    have b1 := hb 1 (by omega)
    have b2 := hb 2 (by omega)
    have a0 := hlen 0
    have a1 := hlen 1
    have a2 := hlen 2
    rcases hcases with h0 | h0 | h0 <;> rcases hty with hs | hs | hs <;> subst hs <;>
      simp only [h0] at a0 a1 a2 <;>
      simp only [mctStep, h0, MCTState.bucket, show (1 : Nat) ≠ 0 by decide, show (2 : Nat) ≠ 0 by decide,
        show (2 : Nat) ≠ 1 by decide, if_true, if_false] <;>
      split <;> rename_i hc <;>
      simp only [List.length_append, List.length_singleton, Bool.or_eq_true, decide_eq_true_eq,
            Bool.and_eq_true, beq_iff_eq, not_or, not_and] at hc <;>
      (constructor
       · simp [ofType_append, ofType_single_some, h0]
       · simp [ofType_append, ofType_single_some, h0]
       · simp [ofType_append, ofType_single_some, h0]
       · simp
       · simp [ofType_append, ofType_single_some, h0] <;> omega
       · intro t ht
         have at2 := hlen t
         simp only [h0] at at2
         have : t = 0 ∨ t = 1 ∨ t = 2 := by omega
         rcases this with rfl | rfl | rfl <;> simp at * <;> omega)

theorem mctInv_foldl (pre vs : List (Option SV)) (s : MCTState) (h : MctInv pre s) :
    MctInv (pre ++ vs) (vs.foldl mctStep s) := by
  induction vs generalizing pre s with
  | nil => simpa using h
  | cons x xs ih =>
    have := ih (pre ++ [x]) (mctStep s x) (mctInv_step pre s x h)
    simpa [List.append_assoc] using this

/-- specification of `mostCommonType` -/
theorem mostCommonType_spec (vs : List (Option SV)) :
    let r := mostCommonType vs
    r.1 < 3 ∧ r.2 = ofType r.1 vs ∧
    ∀ t, t < 3 → (ofType t vs).length < (ofType r.1 vs).length ∨
      ((ofType t vs).length = (ofType r.1 vs).length ∧ r.1 ≤ t) := by
  have h := mctInv_foldl [] vs {} mctInv_init
  simp only [List.nil_append] at h
  exact ⟨h.typ_lt, h.largest, h.best⟩

theorem ofType_length_perm (t : Nat) {a b : List (Option SV)} (h : a.Perm b) :
    (ofType t a).length = (ofType t b).length := by
  unfold ofType
  exact (h.filterMap _).length_eq

theorem ofType_perm (t : Nat) {a b : List (Option SV)} (h : a.Perm b) : (ofType t a).Perm (ofType t b) :=
  h.filterMap _

/-- the winning type does not depend on the order of the observations -/
theorem mostCommonType_perm {a b : List (Option SV)} (h : a.Perm b) :
    (mostCommonType a).1 = (mostCommonType b).1 := by
  obtain ⟨ha3, _, ha⟩ := mostCommonType_spec a
  obtain ⟨hb3, _, hb⟩ := mostCommonType_spec b
  have h1 := ha (mostCommonType b).1 hb3
  have h2 := hb (mostCommonType a).1 ha3
  have e1 := ofType_length_perm (mostCommonType a).1 h
  have e2 := ofType_length_perm (mostCommonType b).1 h
  omega

/-- the winning bucket is a permutation of the other list's winning bucket -/
theorem mostCommonType_bucket_perm {a b : List (Option SV)} (h : a.Perm b) :
    (mostCommonType a).2.Perm (mostCommonType b).2 := by
  have ht := mostCommonType_perm h
  rw [(mostCommonType_spec a).2.1, (mostCommonType_spec b).2.1, ht]
  exact ofType_perm _ h

theorem ofType_map_some (t : Nat) (hs : List SV) :
    ofType t (hs.map some) = hs.filter (fun v => decide (v.type = t)) := by
  induction hs with
  | nil => rfl
  | cons a as ih =>
    have : ofType t ((a :: as).map some) = ofType t [some a] ++ ofType t (as.map some) := by
      rw [← ofType_append]; rfl
    rw [this, ih, ofType_single_some, List.filter_cons]
    by_cases h : a.type = t <;> simp [h]

theorem mem_ofType {t : Nat} {vs : List (Option SV)} {v : SV} :
    v ∈ ofType t vs ↔ some v ∈ vs ∧ v.type = t := by
  simp only [ofType, List.mem_filterMap]
  constructor
  · rintro ⟨x, hx, hv⟩
    cases x with
    | none => simp at hv
    | some w =>
      simp only at hv
      split at hv
      · cases hv; exact ⟨hx, by assumption⟩
      · cases hv
  · rintro ⟨hx, ht⟩
    exact ⟨some v, hx, by simp [ht]⟩

end DSV.LLO
