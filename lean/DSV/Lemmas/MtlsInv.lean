import DSV.MTLS.Lock
/-!
# Invariant of the lock-protocol transition system (`DSV.MTLS.Lock`)

`Inv` ties the ghost component `held` of every thread to the abstract mutex state and carries the
facts the C20 theorems need.  It holds initially and is preserved by every step, for any number of
threads and any interleaving, *because every thread runs a well-locked program* (`wl`).
-/
namespace DSV.MTLS
variable {K : Type}

def ind (b : Bool) : Nat := if b then 1 else 0

/-- threads holding the read side / the write side -/
def nR (ts : List (Thread K)) : Nat := ts.countP (fun t => t.held == .r)
def nW (ts : List (Thread K)) : Nat := ts.countP (fun t => t.held == .w)

theorem nR_split (pre post : List (Thread K)) (t : Thread K) :
    nR (pre ++ t :: post) = nR pre + nR post + ind (t.held == .r) := by
  simp only [nR, ind, List.countP_append, List.countP_cons]; omega

theorem nW_split (pre post : List (Thread K)) (t : Thread K) :
    nW (pre ++ t :: post) = nW pre + nW post + ind (t.held == .w) := by
  simp only [nW, ind, List.countP_append, List.countP_cons]; omega

theorem nR_snoc (ts : List (Thread K)) (t : Thread K) : nR (ts ++ [t]) = nR ts + ind (t.held == .r) := by
  simp only [nR, ind, List.countP_append, List.countP_cons, List.countP_nil]; omega

theorem nW_snoc (ts : List (Thread K)) (t : Thread K) : nW (ts ++ [t]) = nW ts + ind (t.held == .w) := by
  simp only [nW, ind, List.countP_append, List.countP_cons, List.countP_nil]; omega

theorem held_ne_r_of_nR_zero {ts : List (Thread K)} (h : nR ts = 0) : ∀ t ∈ ts, t.held ≠ .r := by
  intro t ht he
  have := (List.countP_eq_zero (p := fun t : Thread K => t.held == .r)).1 h t ht
  simp [he] at this

theorem held_ne_w_of_nW_zero {ts : List (Thread K)} (h : nW ts = 0) : ∀ t ∈ ts, t.held ≠ .w := by
  intro t ht he
  have := (List.countP_eq_zero (p := fun t : Thread K => t.held == .w)).1 h t ht
  simp [he] at this

/-! ### what `wl` says about the head action -/

theorem wl_rlock {m : Mode} {p : List Act} (h : wl m (.rlock :: p) = true) : m = .none ∧ wl .r p = true := by
  cases m <;> simp_all [wl]
theorem wl_lock {m : Mode} {p : List Act} (h : wl m (.lock :: p) = true) : m = .none ∧ wl .w p = true := by
  cases m <;> simp_all [wl]
theorem wl_runlock {m : Mode} {p : List Act} (h : wl m (.runlock :: p) = true) : m = .r ∧ wl .none p = true := by
  cases m <;> simp_all [wl]
theorem wl_unlock {m : Mode} {p : List Act} (h : wl m (.unlock :: p) = true) : m = .w ∧ wl .none p = true := by
  cases m <;> simp_all [wl]
theorem wl_read {m : Mode} {p : List Act} (h : wl m (.read :: p) = true) : m ≠ .none ∧ wl m p = true := by
  cases m <;> simp_all [wl]
theorem wl_write {m : Mode} {p : List Act} (h : wl m (.write :: p) = true) : m = .w ∧ wl .w p = true := by
  cases m <;> simp_all [wl]

/-! ### the invariant -/

structure Inv (s : State K) : Prop where
  /-- every thread's remaining program is well locked from the side it holds -/
  wl_all : ∀ t ∈ s.threads, wl t.held t.prog = true
  /-- the mutex's reader count is the number of threads inside a read section -/
  readers_eq : nR s.threads = s.sh.readers
  /-- the mutex's writer flag is set iff exactly one thread is inside a write section -/
  writer_eq : nW s.threads = ind s.sh.writer
  /-- RWMutex: writer excludes readers -/
  excl : s.sh.writer = true → s.sh.readers = 0
  /-- a thread inside a read section still sees the value `keys` had at its `RLock` -/
  snap_eq : ∀ t ∈ s.threads, t.held = .r → t.snap = s.sh.cell
  /-- every logged read made inside a read section returned the value at the `RLock` point -/
  obs_ok : ∀ t ∈ s.threads, ∀ o ∈ t.obs, o.mode = .r → o.val = o.atLock
  /-- no access outside a critical section was ever logged -/
  obs_locked : ∀ t ∈ s.threads, ∀ o ∈ t.obs, o.mode ≠ .none
  cell_hist : s.sh.cell ∈ s.sh.hist
  obs_hist : ∀ t ∈ s.threads, ∀ o ∈ t.obs, o.val ∈ s.sh.hist

theorem inv_init {s : State K} (h : Init s) : Inv s := by
  obtain ⟨hw, hr, hh, hf⟩ := h
  have hnone : ∀ t ∈ s.threads, t.held = .none := fun t ht => (hf t ht).1
  have hR : nR s.threads = 0 := by
    apply (List.countP_eq_zero).2
    intro t ht; simp [hnone t ht]
  have hW : nW s.threads = 0 := by
    apply (List.countP_eq_zero).2
    intro t ht; simp [hnone t ht]
  refine ⟨?_, by omega, by simp [hW, hw, ind], by simp [hw], ?_, ?_, ?_, by simp [hh], ?_⟩
  · intro t ht
    have := hf t ht
    rw [this.1]; exact this.2.1
  · intro t ht he; rw [hnone t ht] at he; cases he
  · intro t ht o ho; rw [(hf t ht).2.2] at ho; cases ho
  · intro t ht o ho; rw [(hf t ht).2.2] at ho; cases ho
  · intro t ht o ho; rw [(hf t ht).2.2] at ho; cases ho

theorem inv_spawn {sh : Shared K} {ts : List (Thread K)} {t : Thread K}
    (hi : Inv ⟨sh, ts⟩) (hf : t.Fresh) : Inv ⟨sh, ts ++ [t]⟩ := by
  obtain ⟨h1, h2, h3, h4, h5, h6, h6', h7, h8⟩ := hi
  obtain ⟨fh, fw, fo⟩ := hf
  simp only at *
  refine ⟨?_, ?_, ?_, h4, ?_, ?_, ?_, h7, ?_⟩
  · intro u hu
    rcases List.mem_append.1 hu with hu | hu
    · exact h1 u hu
    · simp only [List.mem_singleton] at hu; subst hu; rw [fh]; exact fw
  · simp only [nR_snoc, fh, ind]; simpa using h2
  · simp only [nW_snoc, fh]; simpa [ind] using h3
  · intro u hu he
    rcases List.mem_append.1 hu with hu | hu
    · exact h5 u hu he
    · simp only [List.mem_singleton] at hu; subst hu; rw [fh] at he; cases he
  · intro u hu o ho
    rcases List.mem_append.1 hu with hu | hu
    · exact h6 u hu o ho
    · simp only [List.mem_singleton] at hu; subst hu; rw [fo] at ho; cases ho
  · intro u hu o ho
    rcases List.mem_append.1 hu with hu | hu
    · exact h6' u hu o ho
    · simp only [List.mem_singleton] at hu; subst hu; rw [fo] at ho; cases ho
  · intro u hu o ho
    rcases List.mem_append.1 hu with hu | hu
    · exact h8 u hu o ho
    · simp only [List.mem_singleton] at hu; subst hu; rw [fo] at ho; cases ho

/-- membership in `pre ++ t :: post` -/
theorem mem_split {α} {pre post : List α} {t u : α} :
    u ∈ pre ++ t :: post ↔ u = t ∨ u ∈ pre ∨ u ∈ post := by
  simp only [List.mem_append, List.mem_cons]
  constructor
  · rintro (h | h | h)
    · exact .inr (.inl h)
    · exact .inl h
    · exact .inr (.inr h)
  · rintro (h | h | h)
    · exact .inr (.inl h)
    · exact .inl h
    · exact .inr (.inr h)

/-- the other threads keep every per-thread invariant when neither they nor the fields the
    invariant mentions change -/
theorem inv_act {sh sh' : Shared K} {pre post : List (Thread K)} {t t' : Thread K}
    (hi : Inv ⟨sh, pre ++ t :: post⟩) (he : exec sh t = some (sh', t')) :
    Inv ⟨sh', pre ++ t' :: post⟩ := by
  obtain ⟨h1, h2, h3, h4, h5, h6, h6', h7, h8⟩ := hi
  simp only at *
  have ht : t ∈ pre ++ t :: post := mem_split.2 (.inl rfl)
  have hother : ∀ u, (u ∈ pre ∨ u ∈ post) → u ∈ pre ++ t :: post := fun u hu => mem_split.2 (.inr hu)
  have hwl := h1 t ht
  rw [nR_split] at h2
  rw [nW_split] at h3
  unfold exec at he
  split at he
  · cases he
  · -- rlock
    rename_i p hp
    rw [hp] at hwl
    obtain ⟨hm, hwl'⟩ := wl_rlock hwl
    split at he
    · cases he
    · rename_i hnw
      cases he
      have hwF : sh.writer = false := by simpa using hnw
      refine ⟨?_, ?_, ?_, ?_, ?_, ?_, ?_, h7, ?_⟩
      · intro u hu
        rcases mem_split.1 hu with rfl | hu
        · exact hwl'
        · exact h1 u (hother u hu)
      · simp only [nR_split]; simp only [hm, ind] at h2 ⊢; simp at h2 ⊢; omega
      · simp only [nW_split]; simp only [hm, ind] at h3 ⊢; simpa using h3
      · intro hw; simp [hwF] at hw
      · intro u hu hr
        rcases mem_split.1 hu with rfl | hu
        · rfl
        · exact h5 u (hother u hu) hr
      · intro u hu o ho
        rcases mem_split.1 hu with rfl | hu
        · exact h6 t ht o ho
        · exact h6 u (hother u hu) o ho
      · intro u hu o ho
        rcases mem_split.1 hu with rfl | hu
        · exact h6' t ht o ho
        · exact h6' u (hother u hu) o ho
      · intro u hu o ho
        rcases mem_split.1 hu with rfl | hu
        · exact h8 t ht o ho
        · exact h8 u (hother u hu) o ho
  · -- lock
    rename_i p hp
    rw [hp] at hwl
    obtain ⟨hm, hwl'⟩ := wl_lock hwl
    split at he
    · cases he
    · rename_i hfree
      cases he
      have hwF : sh.writer = false ∧ sh.readers = 0 := by simpa using hfree
      refine ⟨?_, ?_, ?_, ?_, ?_, ?_, ?_, h7, ?_⟩
      · intro u hu
        rcases mem_split.1 hu with rfl | hu
        · exact hwl'
        · exact h1 u (hother u hu)
      · simp only [nR_split]; simp only [hm, ind] at h2 ⊢; simpa using h2
      · simp only [nW_split]; simp only [hm, hwF.1, ind] at h3 ⊢; simp at h3 ⊢; omega
      · intro _; exact hwF.2
      · intro u hu hr
        rcases mem_split.1 hu with rfl | hu
        · cases hr
        · exact h5 u (hother u hu) hr
      · intro u hu o ho
        rcases mem_split.1 hu with rfl | hu
        · exact h6 t ht o ho
        · exact h6 u (hother u hu) o ho
      · intro u hu o ho
        rcases mem_split.1 hu with rfl | hu
        · exact h6' t ht o ho
        · exact h6' u (hother u hu) o ho
      · intro u hu o ho
        rcases mem_split.1 hu with rfl | hu
        · exact h8 t ht o ho
        · exact h8 u (hother u hu) o ho
  · -- runlock
    rename_i p hp
    rw [hp] at hwl
    obtain ⟨hm, hwl'⟩ := wl_runlock hwl
    cases he
    have hrpos : sh.readers ≥ 1 := by simp only [hm, ind] at h2; simp at h2; omega
    have hwF : sh.writer = false := by
      cases hw : sh.writer
      · rfl
      · have := h4 hw; omega
    refine ⟨?_, ?_, ?_, ?_, ?_, ?_, ?_, h7, ?_⟩
    · intro u hu
      rcases mem_split.1 hu with rfl | hu
      · exact hwl'
      · exact h1 u (hother u hu)
    · simp only [nR_split]; simp only [hm, ind] at h2 ⊢; simp at h2 ⊢; omega
    · simp only [nW_split]; simp only [hm, ind] at h3 ⊢; simpa using h3
    · intro hw; simp [hwF] at hw
    · intro u hu hr
      rcases mem_split.1 hu with rfl | hu
      · cases hr
      · exact h5 u (hother u hu) hr
    · intro u hu o ho
      rcases mem_split.1 hu with rfl | hu
      · exact h6 t ht o ho
      · exact h6 u (hother u hu) o ho
    · intro u hu o ho
      rcases mem_split.1 hu with rfl | hu
      · exact h6' t ht o ho
      · exact h6' u (hother u hu) o ho
    · intro u hu o ho
      rcases mem_split.1 hu with rfl | hu
      · exact h8 t ht o ho
      · exact h8 u (hother u hu) o ho
  · -- unlock
    rename_i p hp
    rw [hp] at hwl
    obtain ⟨hm, hwl'⟩ := wl_unlock hwl
    cases he
    refine ⟨?_, ?_, ?_, ?_, ?_, ?_, ?_, h7, ?_⟩
    · intro u hu
      rcases mem_split.1 hu with rfl | hu
      · exact hwl'
      · exact h1 u (hother u hu)
    · simp only [nR_split]; simp only [hm, ind] at h2 ⊢; simpa using h2
    · simp only [nW_split]
      simp only [hm, ind] at h3 ⊢
      cases hw : sh.writer <;> simp [hw] at h3 ⊢ <;> omega
    · intro hw; cases hw
    · intro u hu hr
      rcases mem_split.1 hu with rfl | hu
      · cases hr
      · exact h5 u (hother u hu) hr
    · intro u hu o ho
      rcases mem_split.1 hu with rfl | hu
      · exact h6 t ht o ho
      · exact h6 u (hother u hu) o ho
    · intro u hu o ho
      rcases mem_split.1 hu with rfl | hu
      · exact h6' t ht o ho
      · exact h6' u (hother u hu) o ho
    · intro u hu o ho
      rcases mem_split.1 hu with rfl | hu
      · exact h8 t ht o ho
      · exact h8 u (hother u hu) o ho
  · -- read
    rename_i p hp
    rw [hp] at hwl
    obtain ⟨hm, hwl'⟩ := wl_read hwl
    cases he
    refine ⟨?_, ?_, ?_, h4, ?_, ?_, ?_, h7, ?_⟩
    · intro u hu
      rcases mem_split.1 hu with rfl | hu
      · exact hwl'
      · exact h1 u (hother u hu)
    · simp only [nR_split]; exact h2
    · simp only [nW_split]; exact h3
    · intro u hu hr
      rcases mem_split.1 hu with rfl | hu
      · exact h5 t ht hr
      · exact h5 u (hother u hu) hr
    · intro u hu o ho
      rcases mem_split.1 hu with rfl | hu
      · simp only [List.mem_cons] at ho
        rcases ho with rfl | ho
        · intro hr; exact (h5 t ht hr).symm
        · exact h6 t ht o ho
      · exact h6 u (hother u hu) o ho
    · intro u hu o ho
      rcases mem_split.1 hu with rfl | hu
      · simp only [List.mem_cons] at ho
        rcases ho with rfl | ho
        · exact hm
        · exact h6' t ht o ho
      · exact h6' u (hother u hu) o ho
    · intro u hu o ho
      rcases mem_split.1 hu with rfl | hu
      · simp only [List.mem_cons] at ho
        rcases ho with rfl | ho
        · exact h7
        · exact h8 t ht o ho
      · exact h8 u (hother u hu) o ho
  · -- write
    rename_i p hp
    rw [hp] at hwl
    obtain ⟨hm, hwl'⟩ := wl_write hwl
    cases he
    -- the writer holds the write side, so the flag is set and nobody is inside a read section
    have hwT : sh.writer = true := by
      cases hw : sh.writer
      · simp only [hm, hw, ind] at h3; simp at h3
      · rfl
    have hr0 : nR pre + nR post = 0 := by
      have := h4 hwT
      simp only [hm, ind] at h2; simp at h2; omega
    have hnoR : ∀ u, (u ∈ pre ∨ u ∈ post) → u.held ≠ .r := by
      intro u hu
      rcases hu with hu | hu
      · exact held_ne_r_of_nR_zero (by omega) u hu
      · exact held_ne_r_of_nR_zero (by omega) u hu
    refine ⟨?_, ?_, ?_, h4, ?_, ?_, ?_, ?_, ?_⟩
    · intro u hu
      rcases mem_split.1 hu with rfl | hu
      · simp only; rw [hm]; exact hwl'
      · exact h1 u (hother u hu)
    · simp only [nR_split]; exact h2
    · simp only [nW_split]; exact h3
    · intro u hu hr
      rcases mem_split.1 hu with rfl | hu
      · simp only at hr; rw [hm] at hr; cases hr
      · exact absurd hr (hnoR u hu)
    · intro u hu o ho
      rcases mem_split.1 hu with rfl | hu
      · exact h6 t ht o ho
      · exact h6 u (hother u hu) o ho
    · intro u hu o ho
      rcases mem_split.1 hu with rfl | hu
      · exact h6' t ht o ho
      · exact h6' u (hother u hu) o ho
    · simp
    · intro u hu o ho
      rcases mem_split.1 hu with rfl | hu
      · exact List.mem_cons_of_mem _ (h8 t ht o ho)
      · exact List.mem_cons_of_mem _ (h8 u (hother u hu) o ho)

theorem inv_step {s s' : State K} (hi : Inv s) (hs : Step s s') : Inv s' := by
  cases hs with
  | act sh sh' pre post t t' he => exact inv_act hi he
  | spawn sh ts t hf => exact inv_spawn hi hf

theorem inv_reachable {s0 s : State K} (h0 : Init s0) (hr : Reachable s0 s) : Inv s := by
  induction hr with
  | refl => exact inv_init h0
  | step _ hs ih => exact inv_step ih hs

/-! ### consequences used by the property theorems -/

/-- counts ⇒ pairwise exclusion -/
theorem pairwise_not_overlapping {s : State K} (hi : Inv s) :
    s.threads.Pairwise (fun a b => ¬ overlapping a b) := by
  rw [List.pairwise_iff_forall_sublist]
  intro a b hab
  have hR := hab.countP_le (p := fun t : Thread K => t.held == .r)
  have hW := hab.countP_le (p := fun t : Thread K => t.held == .w)
  have e2 := hi.readers_eq
  have e3 := hi.writer_eq
  have e4 := hi.excl
  unfold nR at e2
  unfold nW at e3
  simp only [List.countP_cons, List.countP_nil] at hR hW
  intro hov
  have key : ∀ x y : Thread K, x.held = .w → y.held ≠ .none →
      ((if x.held == Mode.w then 1 else 0) + (if y.held == Mode.w then 1 else 0) ≤ ind s.sh.writer) →
      ((if x.held == Mode.r then 1 else 0) + (if y.held == Mode.r then 1 else 0) ≤ s.sh.readers) → False := by
    intro x y hx hy c1 c2
    cases hyh : y.held
    · exact hy hyh
    · -- y reads while x writes
      cases hw : s.sh.writer
      · simp [hx, hyh, hw, ind] at c1
      · have := e4 hw
        simp [hx, hyh] at c2; omega
    · -- two writers
      cases hw : s.sh.writer <;> simp [hx, hyh, hw, ind] at c1
  rcases hov with ⟨ha, hb⟩ | ⟨hb, ha⟩
  · exact key a b ha hb (by simp only [ind] at *; omega) (by omega)
  · exact key b a hb ha (by simp only [ind] at *; omega) (by omega)

theorem nextWrite_held {t : Thread K} (hwl : wl t.held t.prog = true) (h : t.nextWrite = true) : t.held = .w := by
  unfold Thread.nextWrite at h
  split at h
  · rename_i p hp; rw [hp] at hwl; exact (wl_write hwl).1
  · cases h

theorem nextAccess_held {t : Thread K} (hwl : wl t.held t.prog = true) (h : t.nextAccess = true) : t.held ≠ .none := by
  unfold Thread.nextAccess at h
  split at h
  · rename_i p hp; rw [hp] at hwl; exact (wl_read hwl).1
  · rename_i p hp; rw [hp] at hwl; rw [(wl_write hwl).1]; intro h; cases h
  · cases h

/-- while one thread is inside a write section every other thread is outside any critical section -/
theorem others_idle_of_writer {sh : Shared K} {pre post : List (Thread K)} {t : Thread K}
    (hi : Inv ⟨sh, pre ++ t :: post⟩) (hw : t.held = .w) : ∀ u ∈ pre ++ post, u.held = .none := by
  have h2 := hi.readers_eq
  have h3 := hi.writer_eq
  have h4 := hi.excl
  simp only at h2 h3 h4
  rw [nR_split] at h2
  rw [nW_split] at h3
  have hwT : sh.writer = true := by
    cases hs : sh.writer
    · simp only [hw, hs, ind] at h3; simp at h3
    · rfl
  have hr := h4 hwT
  simp only [hw, hwT, ind] at h2 h3
  simp at h2 h3
  intro u hu
  have hnr : u.held ≠ .r := by
    rcases List.mem_append.1 hu with hu | hu
    · exact held_ne_r_of_nR_zero (by omega) u hu
    · exact held_ne_r_of_nR_zero (by omega) u hu
  have hnw : u.held ≠ .w := by
    rcases List.mem_append.1 hu with hu | hu
    · exact held_ne_w_of_nW_zero (by omega) u hu
    · exact held_ne_w_of_nW_zero (by omega) u hu
  cases hh : u.held
  · rfl
  · exact absurd hh hnr
  · exact absurd hh hnw

/-- the only action that changes the cell is `write`, and it stores the thread's `arg` -/
theorem exec_cell_change {sh sh' : Shared K} {t t' : Thread K} (he : exec sh t = some (sh', t'))
    (hc : sh'.cell ≠ sh.cell) : t.nextWrite = true ∧ sh'.cell = t.arg := by
  unfold exec at he
  unfold Thread.nextWrite
  split at he
  · cases he
  · split at he
    · cases he
    · cases he; exact absurd rfl hc
  · split at he
    · cases he
    · cases he; exact absurd rfl hc
  · cases he; exact absurd rfl hc
  · cases he; exact absurd rfl hc
  · cases he; exact absurd rfl hc
  · rename_i p hp; cases he; rw [hp]; exact ⟨rfl, rfl⟩

/-- `exec` never changes a thread's `arg`, and the history grows only by that `arg` -/
theorem exec_arg_hist {sh sh' : Shared K} {t t' : Thread K} (he : exec sh t = some (sh', t')) :
    t'.arg = t.arg ∧ (sh'.hist = sh.hist ∨ sh'.hist = t.arg :: sh.hist) := by
  unfold exec at he
  split at he
  · cases he
  · split at he
    · cases he
    · cases he; exact ⟨rfl, .inl rfl⟩
  · split at he
    · cases he
    · cases he; exact ⟨rfl, .inl rfl⟩
  · cases he; exact ⟨rfl, .inl rfl⟩
  · cases he; exact ⟨rfl, .inl rfl⟩
  · cases he; exact ⟨rfl, .inl rfl⟩
  · cases he; exact ⟨rfl, .inr rfl⟩

/-- every value `keys` ever held is the initial one or the argument of some `Replace` thread -/
theorem hist_sources_aux {s0 s : State K} (h0 : s0.sh.hist = [s0.sh.cell]) (hr : Reachable s0 s) :
    ∀ L ∈ s.sh.hist, L = s0.sh.cell ∨ ∃ t ∈ s.threads, L = t.arg := by
  induction hr with
  | refl => intro L hL; rw [h0] at hL; simp only [List.mem_singleton] at hL; exact .inl hL
  | step _ hs ih =>
    cases hs with
    | spawn sh ts t hf =>
      intro L hL
      rcases ih L hL with h | ⟨u, hu, h⟩
      · exact .inl h
      · exact .inr ⟨u, List.mem_append_left _ hu, h⟩
    | act sh sh' pre post t t' he =>
      obtain ⟨ha, hh⟩ := exec_arg_hist he
      have lift : ∀ L, (∃ u ∈ pre ++ t :: post, L = u.arg) → ∃ u ∈ pre ++ t' :: post, L = u.arg := by
        rintro L ⟨u, hu, h⟩
        rcases mem_split.1 hu with rfl | hu
        · exact ⟨t', mem_split.2 (.inl rfl), by rw [ha]; exact h⟩
        · exact ⟨u, mem_split.2 (.inr hu), h⟩
      intro L hL
      simp only at hL ih
      rcases hh with hh | hh
      · rw [hh] at hL
        rcases ih L hL with h | h
        · exact .inl h
        · exact .inr (lift L h)
      · rw [hh] at hL
        rcases List.mem_cons.1 hL with rfl | hL
        · exact .inr ⟨t', mem_split.2 (.inl rfl), ha.symm⟩
        · rcases ih L hL with h | h
          · exact .inl h
          · exact .inr (lift L h)

end DSV.MTLS
