import DSV.LLO.CodecSV
import DSV.Lemmas.CodecDec
/-!
# protobuf wire format: what the encoders of `Wire.lean` write, `parseMsg` reads back
-/
namespace DSV.LLO
open DSV

theorem varint_lt (n : Nat) (h : n < 128) : varint n = [UInt8.ofNat n] := by
  rw [varint]; simp [h]

theorem varint_ge (n : Nat) (h : ¬ n < 128) :
    varint n = UInt8.ofNat (n % 128 + 128) :: varint (n / 128) := by
  rw [varint]; simp [h]

theorem varint_ne_nil (n : Nat) : varint n ≠ [] := by
  by_cases h : n < 128
  · rw [varint_lt n h]; simp
  · rw [varint_ge n h]; simp

private theorem toNat_ofNat_lt (n : Nat) (h : n < 256) : (UInt8.ofNat n).toNat = n := by
  rw [UInt8.toNat_ofNat']; omega

/-- reading back a varint written at byte index `i`; `n < 2·128^(9-i)` says it fits the
    remaining `10 - i` bytes (for `i = 0`: `n < 2^64`) -/
theorem consumeVarintAux_varint (n : Nat) : ∀ (i : Nat) (rest : List UInt8), i ≤ 9 → n < 2 * 128 ^ (9 - i) →
    consumeVarintAux i (varint n ++ rest) = some (n, rest) := by
  induction n using Nat.strongRecOn with
  | _ n ih =>
    intro i rest hi hn
    by_cases h : n < 128
    · rw [varint_lt n h]
      simp only [List.cons_append, List.nil_append, consumeVarintAux, toNat_ofNat_lt n (by omega), h, if_true]
      have : ¬ (i ≥ 9 ∧ n > 1) := by
        intro ⟨h9, h1⟩
        have : i = 9 := by omega
        subst this
        simp at hn
        omega
      simp [this]
    · rw [varint_ge n h]
      have hb : (UInt8.ofNat (n % 128 + 128)).toNat = n % 128 + 128 := toNat_ofNat_lt _ (by omega)
      have hi9 : ¬ i ≥ 9 := by
        intro h9
        have : i = 9 := by omega
        subst this
        simp at hn
        omega
      simp only [List.cons_append, consumeVarintAux, hb]
      rw [if_neg (by omega), if_neg hi9]
      have hp : 128 ^ (9 - i) = 128 * 128 ^ (9 - (i + 1)) := by
        have : 9 - i = (9 - (i + 1)) + 1 := by omega
        rw [this, Nat.pow_succ]; omega
      rw [ih (n / 128) (by omega) (i + 1) rest (by omega) (by rw [hp] at hn; omega)]
      simp only
      congr 2
      omega

theorem consumeVarint_varint (n : Nat) (rest : List UInt8) (hn : n < 2 ^ 64) :
    consumeVarint (varint n ++ rest) = some (n, rest) :=
  consumeVarintAux_varint n 0 rest (by omega) (by simpa using hn)

theorem consumeBytes_enc (bs rest : List UInt8) (h : bs.length < 2 ^ 64) :
    consumeBytes (varint bs.length ++ bs ++ rest) = some (bs, rest) := by
  unfold consumeBytes
  rw [List.append_assoc, consumeVarint_varint _ _ h]
  simp

/-- the fields the encoders of `Wire.lean` write -/
def encField : Nat × WVal → List UInt8
  | (num, .varint v) => varint (num * 8) ++ varint v
  | (num, .bytes b) => varint (num * 8 + 2) ++ varint b.length ++ b
  | (_, .other) => []

def fieldOK : Nat × WVal → Prop
  | (num, .varint v) => 1 ≤ num ∧ num ≤ 536870911 ∧ v < 2 ^ 64
  | (num, .bytes b) => 1 ≤ num ∧ num ≤ 536870911 ∧ b.length < 2 ^ 64
  | (_, .other) => False

def encFields (fs : List (Nat × WVal)) : List UInt8 := fs.flatMap encField

theorem parseMsgAux_encFields : ∀ (fs : List (Nat × WVal)) (fuel : Nat), (∀ f ∈ fs, fieldOK f) →
    (encFields fs).length ≤ fuel → parseMsgAux fuel (encFields fs) = some fs := by
  intro fs
  induction fs with
  | nil => intro fuel _ _; cases fuel <;> simp [encFields, parseMsgAux]
  | cons f fs ih =>
    intro fuel hok hfuel
    have hf := hok f (List.mem_cons_self)
    have hrest : ∀ g ∈ fs, fieldOK g := fun g hg => hok g (List.mem_cons_of_mem _ hg)
    obtain ⟨num, w⟩ := f
    cases w with
    | other => simp [fieldOK] at hf
    | varint v =>
      obtain ⟨h1, h2, h3⟩ := hf
      have henc : encFields ((num, WVal.varint v) :: fs) = varint (num * 8) ++ (varint v ++ encFields fs) := by
        simp [encFields, encField, List.append_assoc]
      rw [henc] at hfuel ⊢
      have hne : varint (num * 8) ++ (varint v ++ encFields fs) ≠ [] := by
        simp [varint_ne_nil]
      have hlen1 : 1 ≤ (varint (num * 8)).length := by
        cases hv : varint (num * 8) with
        | nil => exact absurd hv (varint_ne_nil _)
        | cons _ _ => simp
      have hlen2 : 1 ≤ (varint v).length := by
        cases hv : varint v with
        | nil => exact absurd hv (varint_ne_nil _)
        | cons _ _ => simp
      cases fuel with
      | zero => simp only [List.length_append] at hfuel; omega
      | succ fuel =>
        cases hl : varint (num * 8) ++ (varint v ++ encFields fs) with
        | nil => exact absurd hl hne
        | cons b bs =>
          simp only [parseMsgAux]
          rw [← hl, consumeVarint_varint _ _ (by omega)]
          simp only
          have hd : num * 8 / 8 = num := by omega
          have hm : num * 8 % 8 = 0 := by omega
          rw [hd, hm]
          rw [if_neg (by omega), if_neg (by omega), if_pos rfl, consumeVarint_varint _ _ h3]
          simp only
          rw [ih fuel hrest (by simp only [List.length_append] at hfuel; omega)]
          rfl
    | bytes bs =>
      obtain ⟨h1, h2, h3⟩ := hf
      have henc : encFields ((num, WVal.bytes bs) :: fs) = varint (num * 8 + 2) ++ (varint bs.length ++ bs ++ encFields fs) := by
        simp [encFields, encField, List.append_assoc]
      rw [henc] at hfuel ⊢
      have hne : varint (num * 8 + 2) ++ (varint bs.length ++ bs ++ encFields fs) ≠ [] := by
        simp [varint_ne_nil]
      have hlen1 : 1 ≤ (varint (num * 8 + 2)).length := by
        cases hv : varint (num * 8 + 2) with
        | nil => exact absurd hv (varint_ne_nil _)
        | cons _ _ => simp
      cases fuel with
      | zero => simp only [List.length_append] at hfuel; omega
      | succ fuel =>
        cases hl : varint (num * 8 + 2) ++ (varint bs.length ++ bs ++ encFields fs) with
        | nil => exact absurd hl hne
        | cons b bs' =>
          simp only [parseMsgAux]
          rw [← hl, consumeVarint_varint _ _ (by omega)]
          simp only
          have hd : (num * 8 + 2) / 8 = num := by omega
          have hm : (num * 8 + 2) % 8 = 2 := by omega
          rw [hd, hm]
          rw [if_neg (by omega), if_neg (by omega), if_neg (by omega), if_pos rfl, consumeBytes_enc _ _ h3]
          simp only
          rw [ih fuel hrest (by simp only [List.length_append] at hfuel; omega)]
          rfl

theorem parseMsg_encFields (fs : List (Nat × WVal)) (h : ∀ f ∈ fs, fieldOK f) :
    parseMsg (encFields fs) = some fs :=
  parseMsgAux_encFields fs _ h (Nat.le_refl _)

end DSV.LLO
