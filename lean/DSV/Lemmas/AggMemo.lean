import DSV.LLO.AggMemo
import DSV.Lemmas.GoMap
/-!
The `attempted` set of the repaired aggregation loop changes no result (K8).
-/
namespace DSV.LLO
open DSV DSV.GoMap

/-- a pair whose processing stores nothing, whatever has been stored for other pairs -/
def Fails (cfg : Cfg) (prev : Outcome) (so : GoMap Nat (List (Option SV))) (k : Nat × Nat) : Prop :=
  (∀ t v, prev.aggs.get? k ≠ some (.tsv t v)) ∧
  (aggregate k.2 ((so.get? k.1).getD []) cfg.f = some (.ok none) ∨
    ∃ e, aggregate k.2 ((so.get? k.1).getD []) cfg.f = some (.err e))

theorem contains_set_eq (m : GoMap (Nat × Nat) SV) (k k' : Nat × Nat) (v : SV) :
    contains (set m k v) k' = (decide (k' = k) || contains m k') := by
  have h1 := contains_iff_get? (set m k v) k'
  have h2 := contains_iff_get? m k'
  rw [get?_set] at h1
  by_cases hk : k' = k
  · subst hk
    simp only [if_true, Option.isSome_some, iff_true] at h1
    simp [h1]
  · simp only [hk, if_false] at h1
    simp only [hk, decide_false, Bool.false_or]
    cases hc : contains m k' <;> cases hc' : contains (set m k v) k' <;> simp_all

theorem copyPrevTsv_of_fails {cfg : Cfg} {prev : Outcome} {so : GoMap Nat (List (Option SV))} {k : Nat × Nat}
    (hf : Fails cfg prev so k) (aggs : GoMap (Nat × Nat) SV) : copyPrevTsv prev aggs k = aggs := by
  unfold copyPrevTsv
  split
  · next t v h => exact absurd h (hf.1 t v)
  · rfl

/-- a failing pair is left alone by the loop body -/
theorem aggregateOne_of_fails {cfg : Cfg} {prev : Outcome} {so : GoMap Nat (List (Option SV))} {sid agg : Nat}
    (hf : Fails cfg prev so (sid, agg)) (aggs : GoMap (Nat × Nat) SV) (hc : aggs.contains (sid, agg) = false) :
    aggregateOne cfg prev so aggs sid agg = .ok aggs := by
  unfold aggregateOne
  simp only [hc, Bool.false_eq_true, if_false]
  have h2 := hf.2
  simp only [] at h2
  cases hp : prev.aggs.get? (sid, agg) with
  | none => simp only []; rcases h2 with h | ⟨e, h⟩ <;> rw [h]
  | some pv =>
    cases pv with
    | tsv t v => exact absurd hp (hf.1 t v)
    | dec d => simp only []; rcases h2 with h | ⟨e, h⟩ <;> rw [h]
    | quote a b c => simp only []; rcases h2 with h | ⟨e, h⟩ <;> rw [h]

/-- what one run of the loop body on a pair that is not stored yet can do -/
theorem aggregateOne_cases (cfg : Cfg) (prev : Outcome) (so : GoMap Nat (List (Option SV)))
    (aggs : GoMap (Nat × Nat) SV) (sid agg : Nat) (hc : aggs.contains (sid, agg) = false) :
    match aggregateOne cfg prev so aggs sid agg with
    | .ok a' => (a'.contains (sid, agg) = true ∧ ∀ k', a'.contains k' = (decide (k' = (sid, agg)) || aggs.contains k'))
        ∨ (a' = aggs ∧ Fails cfg prev so (sid, agg))
    | _ => True := by
  unfold aggregateOne
  simp only [hc, Bool.false_eq_true, if_false]
  -- the copy step
  cases hp : prev.aggs.get? (sid, agg) with
  | none =>
    simp only []
    cases ha : aggregate agg ((so.get? sid).getD []) cfg.f with
    | none => simp
    | some res =>
      have hnt : ∀ t v, prev.aggs.get? (sid, agg) ≠ some (.tsv t v) := by intro t v; rw [hp]; simp
      have hget : get? aggs (sid, agg) = none := (contains_false_iff aggs _).mp hc
      cases res with
      | panic => simp
      | err e => simp only []; exact Or.inr ⟨by first | rfl | trivial, hnt, Or.inr ⟨e, ha⟩⟩
      | ok ov =>
        cases ov with
        | none => simp only []; exact Or.inr ⟨by first | rfl | trivial, hnt, Or.inl ha⟩
        | some v =>
          cases v with
          | dec d => simp only []; exact Or.inl ⟨by rw [contains_set_eq]; simp, fun k' => contains_set_eq _ _ _ _⟩
          | quote a b c => simp only []; exact Or.inl ⟨by rw [contains_set_eq]; simp, fun k' => contains_set_eq _ _ _ _⟩
          | tsv t v =>
            simp only [hget]
            exact Or.inl ⟨by rw [contains_set_eq]; simp, fun k' => contains_set_eq _ _ _ _⟩
  | some pv =>
    cases pv with
    | dec d =>
      simp only []
      have hnt : ∀ t v, prev.aggs.get? (sid, agg) ≠ some (.tsv t v) := by intro t v; rw [hp]; simp
      have hget : get? aggs (sid, agg) = none := (contains_false_iff aggs _).mp hc
      cases ha : aggregate agg ((so.get? sid).getD []) cfg.f with
      | none => simp
      | some res =>
        cases res with
        | panic => simp
        | err e => simp only []; exact Or.inr ⟨by first | rfl | trivial, hnt, Or.inr ⟨e, ha⟩⟩
        | ok ov =>
          cases ov with
          | none => simp only []; exact Or.inr ⟨by first | rfl | trivial, hnt, Or.inl ha⟩
          | some v =>
            cases v with
            | dec d => simp only []; exact Or.inl ⟨by rw [contains_set_eq]; simp, fun k' => contains_set_eq _ _ _ _⟩
            | quote a b c => simp only []; exact Or.inl ⟨by rw [contains_set_eq]; simp, fun k' => contains_set_eq _ _ _ _⟩
            | tsv t v =>
              simp only [hget]
              exact Or.inl ⟨by rw [contains_set_eq]; simp, fun k' => contains_set_eq _ _ _ _⟩
    | quote a b c =>
      simp only []
      have hnt : ∀ t v, prev.aggs.get? (sid, agg) ≠ some (.tsv t v) := by intro t v; rw [hp]; simp
      have hget : get? aggs (sid, agg) = none := (contains_false_iff aggs _).mp hc
      cases ha : aggregate agg ((so.get? sid).getD []) cfg.f with
      | none => simp
      | some res =>
        cases res with
        | panic => simp
        | err e => simp only []; exact Or.inr ⟨by first | rfl | trivial, hnt, Or.inr ⟨e, ha⟩⟩
        | ok ov =>
          cases ov with
          | none => simp only []; exact Or.inr ⟨by first | rfl | trivial, hnt, Or.inl ha⟩
          | some v =>
            cases v with
            | dec d => simp only []; exact Or.inl ⟨by rw [contains_set_eq]; simp, fun k' => contains_set_eq _ _ _ _⟩
            | quote a b c => simp only []; exact Or.inl ⟨by rw [contains_set_eq]; simp, fun k' => contains_set_eq _ _ _ _⟩
            | tsv t v =>
              simp only [hget]
              exact Or.inl ⟨by rw [contains_set_eq]; simp, fun k' => contains_set_eq _ _ _ _⟩
    | tsv pt pv =>
      simp only []
      -- the copied value is stored: whatever the aggregator says, the pair is contained afterwards
      have hset : ∀ k', contains (set aggs (sid, agg) (.tsv pt pv)) k' = (decide (k' = (sid, agg)) || aggs.contains k') :=
        fun k' => contains_set_eq _ _ _ _
      have hself : contains (set aggs (sid, agg) (.tsv pt pv)) (sid, agg) = true := by rw [hset]; simp
      cases ha : aggregate agg ((so.get? sid).getD []) cfg.f with
      | none => simp
      | some res =>
        cases res with
        | panic => simp
        | err e => simp only []; exact Or.inl ⟨hself, hset⟩
        | ok ov =>
          cases ov with
          | none => simp only []; exact Or.inl ⟨hself, hset⟩
          | some v =>
            have hset2 : ∀ w k', contains (set (set aggs (sid, agg) (.tsv pt pv)) (sid, agg) w) k' = (decide (k' = (sid, agg)) || aggs.contains k') := by
              intro w k'; rw [contains_set_eq, hset]; cases decide (k' = (sid, agg)) <;> simp
            cases v with
            | dec d => simp only []; exact Or.inl ⟨by rw [hset2]; simp, hset2 _⟩
            | quote a b c => simp only []; exact Or.inl ⟨by rw [hset2]; simp, hset2 _⟩
            | tsv t v =>
              have hg : get? (set aggs (sid, agg) (.tsv pt pv)) (sid, agg) = some (.tsv pt pv) := by rw [get?_set]; simp
              simp only [hg]
              by_cases hle : t ≤ pt
              · simp only [hle, if_true]; exact Or.inl ⟨hself, hset⟩
              · simp only [hle, if_false]; exact Or.inl ⟨by rw [hset2]; simp, hset2 _⟩

/-- relation between the state of the loop with the `attempted` set and the state of the loop without -/
def MemoRel (cfg : Cfg) (prev : Outcome) (so : GoMap Nat (List (Option SV))) :
    GoRes (GoMap (Nat × Nat) SV × List (Nat × Nat)) → GoRes (GoMap (Nat × Nat) SV) → Prop
  | .ok (a, att), .ok a' => a = a' ∧ ∀ k ∈ att, a.contains k = true ∨ Fails cfg prev so k
  | .err e, .err e' => e = e'
  | .panic, .panic => True
  | _, _ => False

theorem memo_step (cfg : Cfg) (prev : Outcome) (so : GoMap Nat (List (Option SV))) (s : Stream)
    (m : GoRes (GoMap (Nat × Nat) SV × List (Nat × Nat))) (p : GoRes (GoMap (Nat × Nat) SV))
    (h : MemoRel cfg prev so m p) :
    MemoRel cfg prev so (m.bind fun st => aggregateOneMemo cfg prev so st s.sid s.agg)
      (p.bind fun aggs => aggregateOne cfg prev so aggs s.sid s.agg) := by
  match m, p, h with
  | .err e, .err e', h => exact h
  | .panic, .panic, _ => trivial
  | .ok (a, att), .ok a', ⟨ha, hatt⟩ =>
    subst ha
    simp only [GoRes.bind]
    unfold aggregateOneMemo
    by_cases hc : a.contains (s.sid, s.agg) = true
    · -- already stored: both skip
      have h1 : aggregateOne cfg prev so a s.sid s.agg = .ok a := by unfold aggregateOne; simp [hc]
      simp only [hc, if_true, h1]
      exact ⟨rfl, hatt⟩
    · have hc' : a.contains (s.sid, s.agg) = false := by simpa using hc
      simp only [hc', Bool.false_eq_true, if_false]
      by_cases ht : att.contains (s.sid, s.agg) = true
      · -- attempted before and nothing stored: it failed then, it fails now
        have hmem : (s.sid, s.agg) ∈ att := by simpa using ht
        have hf : Fails cfg prev so (s.sid, s.agg) := by
          rcases hatt _ hmem with h | h
          · rw [hc'] at h; exact absurd h (by simp)
          · exact h
        simp only [ht, if_true, aggregateOne_of_fails hf a hc', copyPrevTsv_of_fails hf a]
        exact ⟨rfl, hatt⟩
      · have ht' : att.contains (s.sid, s.agg) = false := by simpa using ht
        simp only [ht', Bool.false_eq_true, if_false]
        have hcases := aggregateOne_cases cfg prev so a s.sid s.agg hc'
        cases hr : aggregateOne cfg prev so a s.sid s.agg with
        | err e => simp [GoRes.bind, MemoRel]
        | panic => simp [GoRes.bind, MemoRel]
        | ok a2 =>
          rw [hr] at hcases
          simp only [GoRes.bind]
          refine ⟨rfl, ?_⟩
          intro k hk
          rcases List.mem_cons.mp hk with rfl | hk
          · rcases hcases with ⟨h1, _⟩ | ⟨_, h2⟩
            · exact Or.inl h1
            · exact Or.inr h2
          · rcases hatt k hk with h | h
            · rcases hcases with ⟨_, h2⟩ | ⟨h1, _⟩
              · left; rw [h2, h]; simp
              · left; rw [h1]; exact h
            · exact Or.inr h

theorem memo_foldl (cfg : Cfg) (prev : Outcome) (so : GoMap Nat (List (Option SV))) (ss : List Stream)
    (m : GoRes (GoMap (Nat × Nat) SV × List (Nat × Nat))) (p : GoRes (GoMap (Nat × Nat) SV))
    (h : MemoRel cfg prev so m p) :
    MemoRel cfg prev so
      (ss.foldl (fun acc s => acc.bind fun st => aggregateOneMemo cfg prev so st s.sid s.agg) m)
      (ss.foldl (fun acc s => acc.bind fun aggs => aggregateOne cfg prev so aggs s.sid s.agg) p) := by
  induction ss generalizing m p with
  | nil => exact h
  | cons s ss ih => exact ih _ _ (memo_step cfg prev so s m p h)

theorem aggregateAllMemo_rel (cfg : Cfg) (prev : Outcome) (so : GoMap Nat (List (Option SV))) (defs : List (Nat × ChanDef)) :
    MemoRel cfg prev so (aggregateAllMemo cfg prev so defs) (aggregateAll cfg prev so defs) :=
  memo_foldl cfg prev so _ _ _ ⟨rfl, by simp⟩

end DSV.LLO
