import DSV.Lemmas.GoMap
/-!
# Order-independence lemmas: maps as sets of entries
-/
namespace DSV.GoMap
variable {κ ν : Type} [DecidableEq κ]

theorem erase_comm (m : GoMap κ ν) (a b : κ) : erase (erase m a) b = erase (erase m b) a := by
  unfold erase
  rw [List.filter_filter, List.filter_filter]
  congr 1; funext e; exact Bool.and_comm _ _

theorem foldl_erase_perm (m : GoMap κ ν) {l₁ l₂ : List κ} (h : l₁.Perm l₂) :
    l₁.foldl (fun m id => erase m id) m = l₂.foldl (fun m id => erase m id) m :=
  h.foldl_eq' (fun x _ y _ z => erase_comm z x y) m

theorem nodup_of_wf (m : GoMap κ ν) (h : WF m) : m.Nodup := by
  unfold WF keys at h
  exact List.Pairwise.of_map (fun e : κ × ν => e.1) (fun a b hne hab => hne (by rw [hab])) h

/-- two well-formed maps with the same lookups have the same entries -/
theorem perm_of_get?_eq [DecidableEq ν] {a b : GoMap κ ν} (ha : WF a) (hb : WF b) (h : ∀ k, get? a k = get? b k) :
    a.Perm b := by
  rw [List.perm_iff_count]
  intro e
  rw [(nodup_of_wf a ha).count, (nodup_of_wf b hb).count]
  have : e ∈ a ↔ e ∈ b := by
    constructor
    · intro he
      have := get?_eq_some_of_mem a ha e he
      rw [h] at this
      have := mem_of_get?_eq_some b e.1 e.2 this
      simpa using this
    · intro he
      have := get?_eq_some_of_mem b hb e he
      rw [← h] at this
      have := mem_of_get?_eq_some a e.1 e.2 this
      simpa using this
  by_cases he : e ∈ a
  · simp [he, this.mp he]
  · have hb' : e ∉ b := fun hh => he (this.mpr hh)
    simp [he, hb']

/-- sorting by key is canonical on well-formed maps: permuted entry lists sort to the same list -/
theorem mergeSort_eq_of_perm (le : κ → κ → Bool)
    (trans : ∀ a b c, le a b = true → le b c = true → le a c = true)
    (total : ∀ a b, le a b = true ∨ le b a = true)
    (antisymm : ∀ a b, le a b = true → le b a = true → a = b)
    {a b : GoMap κ ν} (ha : WF a) (h : a.Perm b) :
    a.mergeSort (fun x y => le x.1 y.1) = b.mergeSort (fun x y => le x.1 y.1) := by
  have hb : WF b := by unfold WF keys at *; exact (h.map _).nodup_iff.mp ha
  apply List.Perm.eq_of_pairwise (le := fun x y => le x.1 y.1 = true)
  · intro x y hx hy h1 h2
    have hk : x.1 = y.1 := antisymm _ _ h1 h2
    have hx' : x ∈ a := (List.mergeSort_perm _ _).mem_iff.mp hx
    have hy' : y ∈ a := h.mem_iff.mpr ((List.mergeSort_perm _ _).mem_iff.mp hy)
    have g1 := get?_eq_some_of_mem a ha x hx'
    have g2 := get?_eq_some_of_mem a ha y hy'
    rw [hk, g2] at g1
    cases x; cases y; simp_all
  · exact List.pairwise_mergeSort (fun x y z => trans x.1 y.1 z.1) (fun x y => by simpa using total x.1 y.1) _
  · exact List.pairwise_mergeSort (fun x y z => trans x.1 y.1 z.1) (fun x y => by simpa using total x.1 y.1) _
  · exact ((List.mergeSort_perm _ _).trans h).trans (List.mergeSort_perm _ _).symm

end DSV.GoMap
