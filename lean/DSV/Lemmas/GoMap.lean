import DSV.Go.Basic
/-!
# Lemmas about `GoMap` (entry lists with Go map semantics)
-/
namespace DSV.GoMap
variable {κ ν : Type} [DecidableEq κ]

@[simp] theorem get?_nil (k : κ) : get? ([] : GoMap κ ν) k = none := rfl

theorem get?_cons (e : κ × ν) (m : GoMap κ ν) (k : κ) :
    get? (e :: m) k = if e.1 = k then some e.2 else get? m k := by
  unfold get?
  simp only [List.find?_cons]
  by_cases h : e.1 = k
  · simp [h]
  · have : (e.1 == k) = false := by simp [h]
    simp [this, h]

theorem contains_iff_get? (m : GoMap κ ν) (k : κ) : contains m k = true ↔ (get? m k).isSome = true := by
  induction m with
  | nil => simp [contains, get?]
  | cons e m ih =>
    rw [get?_cons]
    simp only [contains, List.any_cons, Bool.or_eq_true, beq_iff_eq] at *
    by_cases h : e.1 = k <;> simp [h, ih]

theorem contains_false_iff (m : GoMap κ ν) (k : κ) : contains m k = false ↔ get? m k = none := by
  have := contains_iff_get? m k
  cases hc : contains m k <;> cases hg : get? m k <;> simp_all

theorem get?_erase (m : GoMap κ ν) (k k' : κ) :
    get? (erase m k) k' = if k' = k then none else get? m k' := by
  induction m with
  | nil => simp [erase]
  | cons e m ih =>
    simp only [erase, List.filter_cons] at *
    by_cases he : e.1 = k
    · simp only [he, bne_self_eq_false, Bool.false_eq_true, if_false]
      rw [ih, get?_cons]
      by_cases hk : k' = k
      · simp [hk]
      · have : ¬ e.1 = k' := fun h => hk (by rw [← h, he])
        simp [hk, this]
    · have : (e.1 != k) = true := by simp [he]
      simp only [this, if_true]
      rw [get?_cons, get?_cons, ih]
      by_cases hk : k' = k
      · subst hk; simp [he]
      · simp [hk]

theorem get?_append_single (m : GoMap κ ν) (k k' : κ) (v : ν) :
    get? (m ++ [(k, v)]) k' = match get? m k' with | some x => some x | none => if k = k' then some v else none := by
  induction m with
  | nil => simp [get?_cons]
  | cons e m ih =>
    simp only [List.cons_append, get?_cons]
    by_cases h : e.1 = k' <;> simp [h, ih]

theorem get?_map_set (m : GoMap κ ν) (k k' : κ) (v : ν) :
    get? (m.map (fun e => if e.1 == k then (k, v) else e)) k' =
      if k' = k then (if (get? m k).isSome then some v else none) else get? m k' := by
  induction m with
  | nil => simp
  | cons e m ih =>
    simp only [List.map_cons, get?_cons, ih]
    by_cases he : e.1 = k
    · simp only [he, beq_self_eq_true, if_true]
      by_cases hk : k' = k
      · simp [hk]
      · have : ¬ k = k' := fun h => hk h.symm
        simp [hk, this]
    · have h1 : (e.1 == k) = false := by simp [he]
      simp only [h1, Bool.false_eq_true, if_false]
      by_cases hk : k' = k
      · subst hk; simp [he]
      · by_cases h2 : e.1 = k' <;> simp [hk, h2, he]

/-- `m[k] = v` then lookup -/
theorem get?_set (m : GoMap κ ν) (k k' : κ) (v : ν) :
    get? (set m k v) k' = if k' = k then some v else get? m k' := by
  unfold set
  split
  · rename_i hc
    rw [get?_map_set]
    have := (contains_iff_get? m k).mp hc
    by_cases hk : k' = k <;> simp [hk, this]
  · rename_i hc
    have hn : get? m k = none := (contains_false_iff m k).mp (by simpa using hc)
    rw [get?_append_single]
    by_cases hk : k' = k
    · subst hk; simp [hn]
    · have : ¬ k = k' := fun h => hk h.symm
      cases hg : get? m k' <;> simp [hk, this]

theorem get?_foldl_erase (m : GoMap κ ν) (ids : List κ) (k : κ) :
    get? (ids.foldl (fun m id => erase m id) m) k = if k ∈ ids then none else get? m k := by
  induction ids generalizing m with
  | nil => simp
  | cons i is ih =>
    simp only [List.foldl_cons, ih, get?_erase, List.mem_cons]
    by_cases h1 : k ∈ is <;> by_cases h2 : k = i <;> simp [h1, h2]

theorem keys_erase_sublist (m : GoMap κ ν) (k : κ) : (keys (erase m k)).Sublist (keys m) := by
  unfold keys erase
  exact (List.filter_sublist).map _

theorem length_erase_le (m : GoMap κ ν) (k : κ) : (erase m k).length ≤ m.length :=
  List.length_filter_le _ _

theorem length_set (m : GoMap κ ν) (k : κ) (v : ν) :
    (set m k v).length = if contains m k then m.length else m.length + 1 := by
  unfold set; split <;> simp

theorem wf_erase (m : GoMap κ ν) (k : κ) (h : WF m) : WF (erase m k) :=
  (keys_erase_sublist m k).nodup h

theorem keys_set (m : GoMap κ ν) (k : κ) (v : ν) :
    keys (set m k v) = if contains m k then keys m else keys m ++ [k] := by
  unfold set keys
  split
  · rw [List.map_map]
    apply List.map_congr_left
    intro e _
    simp only [Function.comp]
    by_cases h : e.1 = k <;> simp [h]
  · rw [List.map_append]; rfl

theorem mem_keys_iff (m : GoMap κ ν) (k : κ) : k ∈ keys m ↔ contains m k = true := by
  unfold keys contains
  simp only [List.mem_map, List.any_eq_true, beq_iff_eq]

theorem wf_set (m : GoMap κ ν) (k : κ) (v : ν) (h : WF m) : WF (set m k v) := by
  unfold WF at *
  rw [keys_set]
  split
  · exact h
  · rename_i hc
    rw [List.nodup_append]
    refine ⟨h, by simp, ?_⟩
    intro a ha b hb
    simp only [List.mem_singleton] at hb
    subst hb
    intro hab; subst hab
    exact hc ((mem_keys_iff m a).mp ha)

end DSV.GoMap

namespace DSV.GoMap
variable {κ ν : Type} [DecidableEq κ]

theorem get?_eq_none_of_not_mem_keys (m : GoMap κ ν) (k : κ) (h : k ∉ keys m) : get? m k = none := by
  have : contains m k = false := by
    cases hc : contains m k
    · rfl
    · exact absurd ((mem_keys_iff m k).mpr hc) h
  exact (contains_false_iff m k).mp this

theorem get?_eq_some_of_mem (m : GoMap κ ν) (hwf : WF m) (e : κ × ν) (he : e ∈ m) : get? m e.1 = some e.2 := by
  induction m with
  | nil => cases he
  | cons a as ih =>
    rw [get?_cons]
    unfold WF keys at hwf
    simp only [List.map_cons, List.nodup_cons] at hwf
    rcases List.mem_cons.mp he with rfl | hmem
    · simp
    · have hne : ¬ a.1 = e.1 := by
        intro heq
        exact hwf.1 (heq ▸ List.mem_map_of_mem (f := (·.1)) hmem)
      simp only [hne, if_false]
      exact ih hwf.2 hmem

theorem mem_of_get?_eq_some (m : GoMap κ ν) (k : κ) (v : ν) (h : get? m k = some v) : (k, v) ∈ m := by
  induction m with
  | nil => simp at h
  | cons a as ih =>
    rw [get?_cons] at h
    by_cases ha : a.1 = k
    · simp only [ha, if_true, Option.some.injEq] at h
      have : a = (k, v) := by cases a; simp_all
      simp [this]
    · simp only [ha, if_false] at h
      exact List.mem_cons_of_mem _ (ih h)

/-- lookup in a well-formed map does not depend on the order of its entries -/
theorem get?_perm {a b : GoMap κ ν} (hwf : WF a) (h : a.Perm b) (k : κ) : get? a k = get? b k := by
  have hwfb : WF b := by unfold WF keys at *; exact (h.map _).nodup_iff.mp hwf
  cases ha : get? a k with
  | some v =>
    have := mem_of_get?_eq_some a k v ha
    have := get?_eq_some_of_mem b hwfb (k, v) (h.mem_iff.mp this)
    exact this.symm
  | none =>
    cases hb : get? b k with
    | none => rfl
    | some v =>
      have := mem_of_get?_eq_some b k v hb
      have := get?_eq_some_of_mem a hwf (k, v) (h.mem_iff.mpr this)
      rw [ha] at this; cases this

/-- folding `set` over entries with distinct keys -/
theorem get?_foldl_set {ν' : Type} (g : κ × ν → ν') (l : List (κ × ν)) (hl : (l.map (·.1)).Nodup)
    (m0 : GoMap κ ν') (k : κ) :
    get? (l.foldl (fun m e => m.set e.1 (g e)) m0) k =
      match get? l k with
      | some v => some (g (k, v))
      | none => get? m0 k := by
  induction l generalizing m0 with
  | nil => simp
  | cons e es ih =>
    simp only [List.map_cons, List.nodup_cons] at hl
    simp only [List.foldl_cons]
    rw [ih hl.2, get?_cons (ν := ν)]
    by_cases he : e.1 = k
    · subst he
      have : get? es e.1 = none := get?_eq_none_of_not_mem_keys es e.1 hl.1
      simp [this, get?_set]
    · have hk : ¬ k = e.1 := fun h => he h.symm
      simp only [he, if_false]
      cases get? es k <;> simp [get?_set, hk]

theorem mem_set (m : GoMap κ ν) (k : κ) (v : ν) (e : κ × ν) (h : e ∈ set m k v) : e = (k, v) ∨ e ∈ m := by
  unfold set at h
  split at h
  · simp only [List.mem_map] at h
    obtain ⟨a, ha, rfl⟩ := h
    by_cases hk : (a.1 == k) = true
    · simp [hk]
    · simp only [hk, Bool.false_eq_true, if_false]; exact Or.inr ha
  · simp only [List.mem_append, List.mem_singleton] at h
    rcases h with h | h
    · exact Or.inr h
    · exact Or.inl h

end DSV.GoMap
