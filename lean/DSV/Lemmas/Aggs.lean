import DSV.LLO.Plugin
import DSV.Lemmas.GoMap
/-!
# The `StreamAggregates` section of `outcome()`
-/
namespace DSV.LLO
open DSV DSV.GoMap

def isTsv : SV → Bool
  | .tsv _ _ => true
  | _ => false

def tsvAt : SV → Nat
  | .tsv t _ => t
  | _ => 0

/-- what one (stream, aggregator) step guarantees -/
theorem aggregateOne_spec (cfg : Cfg) (prev : Outcome) (so : GoMap Nat (List (Option SV)))
    (aggs aggs' : GoMap (Nat × Nat) SV) (sid agg : Nat) (hwf : WF aggs)
    (h : aggregateOne cfg prev so aggs sid agg = .ok aggs') :
    WF aggs' ∧
    (∀ k, k ≠ (sid, agg) → get? aggs' k = get? aggs k) ∧
    (aggs.contains (sid, agg) = true → aggs' = aggs) ∧
    (aggs.contains (sid, agg) = false →
      ∀ pt pv, prev.aggs.get? (sid, agg) = some (.tsv pt pv) →
        ∃ v', get? aggs' (sid, agg) = some v' ∧ (isTsv v' = true → pt ≤ tsvAt v') ∧
          ((aggregate agg ((so.get? sid).getD []) cfg.f).map GoRes.isErr = some true → v' = .tsv pt pv)) := by
  unfold aggregateOne at h
  by_cases hc : aggs.contains (sid, agg) = true
  · simp only [hc, if_true] at h
    cases h
    exact ⟨hwf, fun _ _ => rfl, fun _ => rfl, fun hf => by rw [hc] at hf; cases hf⟩
  · have hcf : aggs.contains (sid, agg) = false := by simpa using hc
    simp only [hcf, Bool.false_eq_true, if_false] at h
    -- the map after copying the previous timestamped value
    cases hp : prev.aggs.get? (sid, agg) with
    | none =>
      simp only [hp] at h
      cases ha : aggregate agg ((so.get? sid).getD []) cfg.f with
      | none => simp [ha] at h
      | some res =>
        simp only [ha] at h
        have hn : get? aggs (sid, agg) = none := (contains_false_iff aggs _).mp hcf
        refine ⟨?_, ?_, fun hh => (by rw [hcf] at hh; cases hh), fun _ pt pv hpp => by cases hpp⟩
        · cases res with
          | ok r =>
            cases r with
            | none => simp only at h; cases h; exact hwf
            | some v =>
              cases v <;> simp only [hn] at h <;> cases h <;> exact wf_set _ _ _ hwf
          | err e => simp only at h; cases h; exact hwf
          | panic => simp only at h; cases h
        · intro k hk
          cases res with
          | ok r =>
            cases r with
            | none => simp only at h; cases h; rfl
            | some v =>
              cases v <;> simp only [hn] at h <;> cases h <;> rw [get?_set] <;> simp [hk]
          | err e => simp only at h; cases h; rfl
          | panic => simp only at h; cases h
    | some pvv =>
      cases pvv with
      | dec d =>
        simp only [hp] at h
        cases ha : aggregate agg ((so.get? sid).getD []) cfg.f with
        | none => simp [ha] at h
        | some res =>
          simp only [ha] at h
          have hn : get? aggs (sid, agg) = none := (contains_false_iff aggs _).mp hcf
          refine ⟨?_, ?_, fun hh => (by rw [hcf] at hh; cases hh), fun _ pt pv hpp => by cases hpp⟩
          · cases res with
            | ok r =>
              cases r with
              | none => simp only at h; cases h; exact hwf
              | some v =>
                cases v <;> simp only [hn] at h <;> cases h <;> exact wf_set _ _ _ hwf
            | err e => simp only at h; cases h; exact hwf
            | panic => simp only at h; cases h
          · intro k hk
            cases res with
            | ok r =>
              cases r with
              | none => simp only at h; cases h; rfl
              | some v =>
                cases v <;> simp only [hn] at h <;> cases h <;> rw [get?_set] <;> simp [hk]
            | err e => simp only at h; cases h; rfl
            | panic => simp only at h; cases h
      | quote a b c =>
        simp only [hp] at h
        cases ha : aggregate agg ((so.get? sid).getD []) cfg.f with
        | none => simp [ha] at h
        | some res =>
          simp only [ha] at h
          have hn : get? aggs (sid, agg) = none := (contains_false_iff aggs _).mp hcf
          refine ⟨?_, ?_, fun hh => (by rw [hcf] at hh; cases hh), fun _ pt pv hpp => by cases hpp⟩
          · cases res with
            | ok r =>
              cases r with
              | none => simp only at h; cases h; exact hwf
              | some v =>
                cases v <;> simp only [hn] at h <;> cases h <;> exact wf_set _ _ _ hwf
            | err e => simp only at h; cases h; exact hwf
            | panic => simp only at h; cases h
          · intro k hk
            cases res with
            | ok r =>
              cases r with
              | none => simp only at h; cases h; rfl
              | some v =>
                cases v <;> simp only [hn] at h <;> cases h <;> rw [get?_set] <;> simp [hk]
            | err e => simp only at h; cases h; rfl
            | panic => simp only at h; cases h
      | tsv pt pv =>
        simp only [hp] at h
        have hg : get? (aggs.set (sid, agg) (.tsv pt pv)) (sid, agg) = some (.tsv pt pv) := by
          rw [get?_set]; simp
        have hw1 : WF (aggs.set (sid, agg) (.tsv pt pv)) := wf_set _ _ _ hwf
        cases ha : aggregate agg ((so.get? sid).getD []) cfg.f with
        | none => simp [ha] at h
        | some res =>
          simp only [ha] at h
          cases res with
          | panic => simp only at h; cases h
          | err e =>
            simp only at h; cases h
            refine ⟨hw1, fun k hk => (by rw [get?_set]; simp [hk]), fun hh => (by rw [hcf] at hh; cases hh), ?_⟩
            intro _ pt' pv' hpp
            cases hpp
            exact ⟨_, hg, fun _ => Nat.le_refl _, fun _ => rfl⟩
          | ok r =>
            cases r with
            | none =>
              simp only at h; cases h
              refine ⟨hw1, fun k hk => (by rw [get?_set]; simp [hk]), fun hh => (by rw [hcf] at hh; cases hh), ?_⟩
              intro _ pt' pv' hpp
              cases hpp
              exact ⟨_, hg, fun _ => Nat.le_refl _, fun he => by simp [GoRes.isErr] at he⟩
            | some v =>
              cases v with
              | tsv t w =>
                simp only [hg] at h
                split at h
                · rename_i hle
                  cases h
                  refine ⟨hw1, fun k hk => (by rw [get?_set]; simp [hk]), fun hh => (by rw [hcf] at hh; cases hh), ?_⟩
                  intro _ pt' pv' hpp
                  cases hpp
                  exact ⟨_, hg, fun _ => Nat.le_refl _, fun he => by simp [GoRes.isErr] at he⟩
                · rename_i hgt
                  cases h
                  refine ⟨wf_set _ _ _ hw1, fun k hk => (by rw [get?_set, get?_set]; simp [hk]),
                    fun hh => (by rw [hcf] at hh; cases hh), ?_⟩
                  intro _ pt' pv' hpp
                  cases hpp
                  refine ⟨.tsv t w, (by rw [get?_set]; simp), fun _ => (by simp [tsvAt]; omega), fun he => by simp [GoRes.isErr] at he⟩
              | dec d =>
                simp only at h; cases h
                refine ⟨wf_set _ _ _ hw1, fun k hk => (by rw [get?_set, get?_set]; simp [hk]),
                  fun hh => (by rw [hcf] at hh; cases hh), ?_⟩
                intro _ pt' pv' hpp
                cases hpp
                exact ⟨.dec d, (by rw [get?_set]; simp), fun hi => (by simp [isTsv] at hi), fun he => by simp [GoRes.isErr] at he⟩
              | quote a b c =>
                simp only at h; cases h
                refine ⟨wf_set _ _ _ hw1, fun k hk => (by rw [get?_set, get?_set]; simp [hk]),
                  fun hh => (by rw [hcf] at hh; cases hh), ?_⟩
                intro _ pt' pv' hpp
                cases hpp
                exact ⟨.quote a b c, (by rw [get?_set]; simp), fun hi => (by simp [isTsv] at hi), fun he => by simp [GoRes.isErr] at he⟩

end DSV.LLO

namespace DSV.LLO
open DSV DSV.GoMap

/-- the aggregation attempt for a (stream, aggregator) pair failed -/
def aggFailed (cfg : Cfg) (so : GoMap Nat (List (Option SV))) (k : Nat × Nat) : Prop :=
  (aggregate k.2 ((so.get? k.1).getD []) cfg.f).map GoRes.isErr = some true

/-- invariant of the aggregation loop after processing the (stream, aggregator) pairs `ps` -/
structure AggInv (cfg : Cfg) (prev : Outcome) (so : GoMap Nat (List (Option SV))) (ps : List (Nat × Nat))
    (aggs : GoMap (Nat × Nat) SV) : Prop where
  wf : WF aggs
  keys : ∀ k, aggs.contains k = true → k ∈ ps
  tsv : ∀ k ∈ ps, ∀ pt pv, prev.aggs.get? k = some (.tsv pt pv) →
    ∃ v', get? aggs k = some v' ∧ (isTsv v' = true → pt ≤ tsvAt v') ∧ (aggFailed cfg so k → v' = .tsv pt pv)

theorem aggInv_step (cfg : Cfg) (prev : Outcome) (so : GoMap Nat (List (Option SV))) (ps : List (Nat × Nat))
    (aggs aggs' : GoMap (Nat × Nat) SV) (sid agg : Nat) (hinv : AggInv cfg prev so ps aggs)
    (h : aggregateOne cfg prev so aggs sid agg = .ok aggs') : AggInv cfg prev so (ps ++ [(sid, agg)]) aggs' := by
  obtain ⟨hw', hother, hsame, hnew⟩ := aggregateOne_spec cfg prev so aggs aggs' sid agg hinv.wf h
  constructor
  · exact hw'
  · intro k hk
    by_cases hkk : k = (sid, agg)
    · simp [hkk]
    · have : get? aggs' k = get? aggs k := hother k hkk
      have hc : aggs.contains k = true := by
        rw [contains_iff_get?] at hk ⊢; rw [← this]; exact hk
      simp [hinv.keys k hc]
  · intro k hk pt pv hp
    by_cases hc : aggs.contains (sid, agg) = true
    · -- nothing changed
      rw [hsame hc]
      have hk' : k ∈ ps := by
        rcases List.mem_append.mp hk with h | h
        · exact h
        · simp only [List.mem_singleton] at h; subst h; exact hinv.keys _ hc
      exact hinv.tsv k hk' pt pv hp
    · have hcf : aggs.contains (sid, agg) = false := by simpa using hc
      by_cases hkk : k = (sid, agg)
      · subst hkk
        obtain ⟨v', h1, h2, h3⟩ := hnew hcf pt pv hp
        exact ⟨v', h1, h2, h3⟩
      · have hk' : k ∈ ps := by
          rcases List.mem_append.mp hk with h | h
          · exact h
          · simp only [List.mem_singleton] at h; exact absurd h hkk
        rw [hother k hkk]
        exact hinv.tsv k hk' pt pv hp

theorem aggInv_foldl (cfg : Cfg) (prev : Outcome) (so : GoMap Nat (List (Option SV)))
    (ss : List Stream) (ps : List (Nat × Nat)) (aggs0 aggs : GoMap (Nat × Nat) SV)
    (hinv : AggInv cfg prev so ps aggs0)
    (h : ss.foldl (fun (acc : GoRes (GoMap (Nat × Nat) SV)) s =>
        acc.bind fun aggs => aggregateOne cfg prev so aggs s.sid s.agg) (GoRes.ok aggs0) = GoRes.ok aggs) :
    AggInv cfg prev so (ps ++ ss.map (fun s => (s.sid, s.agg))) aggs := by
  induction ss generalizing ps aggs0 with
  | nil => simp only [List.foldl_nil] at h; cases h; simpa using hinv
  | cons s ss ih =>
    simp only [List.foldl_cons] at h
    have hb : (GoRes.ok aggs0).bind (fun aggs => aggregateOne cfg prev so aggs s.sid s.agg) =
        aggregateOne cfg prev so aggs0 s.sid s.agg := rfl
    rw [hb] at h
    cases h1 : aggregateOne cfg prev so aggs0 s.sid s.agg with
    | ok a1 =>
      rw [h1] at h
      have := ih (ps ++ [(s.sid, s.agg)]) a1 (aggInv_step cfg prev so ps aggs0 a1 s.sid s.agg hinv h1) h
      simpa [List.append_assoc] using this
    | err e =>
      rw [h1] at h
      exfalso
      have : ∀ (l : List Stream), l.foldl (fun (acc : GoRes (GoMap (Nat × Nat) SV)) s =>
          acc.bind fun aggs => aggregateOne cfg prev so aggs s.sid s.agg) (GoRes.err e) = GoRes.err e := by
        intro l; induction l with
        | nil => rfl
        | cons y ys ih' => simp only [List.foldl_cons]; exact ih'
      rw [this] at h; cases h
    | panic =>
      rw [h1] at h
      exfalso
      have : ∀ (l : List Stream), l.foldl (fun (acc : GoRes (GoMap (Nat × Nat) SV)) s =>
          acc.bind fun aggs => aggregateOne cfg prev so aggs s.sid s.agg) GoRes.panic = GoRes.panic := by
        intro l; induction l with
        | nil => rfl
        | cons y ys ih' => simp only [List.foldl_cons]; exact ih'
      rw [this] at h; cases h

/-- **specification of the `StreamAggregates` section** -/
theorem aggregateAll_spec (cfg : Cfg) (prev : Outcome) (so : GoMap Nat (List (Option SV)))
    (defs : List (Nat × ChanDef)) (aggs : GoMap (Nat × Nat) SV)
    (h : aggregateAll cfg prev so defs = .ok aggs) :
    AggInv cfg prev so ((defs.flatMap (·.2.streams)).map (fun s => (s.sid, s.agg))) aggs := by
  unfold aggregateAll at h
  have := aggInv_foldl cfg prev so (defs.flatMap (·.2.streams)) [] [] aggs
    ⟨by simp [WF, keys], fun k hk => by simp [contains] at hk, fun k hk => by cases hk⟩ h
  simpa using this

end DSV.LLO
