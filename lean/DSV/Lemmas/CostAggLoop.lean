import DSV.Cost.AggLoop
/-! Lemmas about the aggregation-loop cost model (K8). -/
namespace DSV.Cost.AggLoop

/-- invariant of the repaired loop -/
structure Inv (e : Env) (seen : List Nat) (s : St) : Prop where
  nodup : s.tried.Nodup
  sub : ∀ p ∈ s.tried, p ∈ seen
  stored_sub : ∀ p ∈ s.stored, p ∈ s.tried
  cost_eq : s.cost = seen.length + (s.tried.map e.c).sum

theorem step_inv (e : Env) (seen : List Nat) (s : St) (p : Nat) (h : Inv e seen s) :
    Inv e (seen ++ [p]) (step true e s p) := by
  unfold step
  by_cases h1 : p ∈ s.stored
  · rw [if_pos h1]
    exact ⟨h.nodup, fun q hq => List.mem_append_left _ (h.sub q hq), h.stored_sub,
      by simp [h.cost_eq]; omega⟩
  · rw [if_neg h1]
    by_cases h2 : p ∈ s.tried
    · rw [if_pos ⟨rfl, h2⟩]
      exact ⟨h.nodup, fun q hq => List.mem_append_left _ (h.sub q hq), h.stored_sub,
        by simp [h.cost_eq]; omega⟩
    · rw [if_neg (by intro hh; exact h2 hh.2)]
      refine ⟨List.nodup_cons.mpr ⟨h2, h.nodup⟩, ?_, ?_, ?_⟩
      · intro q hq
        rcases List.mem_cons.mp hq with rfl | hq
        · simp
        · exact List.mem_append_left _ (h.sub q hq)
      · intro q hq
        by_cases hs : e.succ p = true
        · simp only [hs, if_true] at hq
          rcases List.mem_cons.mp hq with rfl | hq
          · simp
          · exact List.mem_cons_of_mem _ (h.stored_sub q hq)
        · simp only [hs] at hq
          exact List.mem_cons_of_mem _ (h.stored_sub q hq)
      · simp [h.cost_eq]; omega

theorem foldl_inv (e : Env) (ms seen : List Nat) (s : St) (h : Inv e seen s) :
    Inv e (seen ++ ms) (ms.foldl (step true e) s) := by
  induction ms generalizing seen s with
  | nil => simpa using h
  | cons p ms ih =>
    have := ih (seen ++ [p]) (step true e s p) (step_inv e seen s p h)
    simpa [List.append_assoc] using this

theorem run_inv (e : Env) (ms : List Nat) : Inv e ms (run true e ms) := by
  have := foldl_inv e ms [] {} ⟨List.nodup_nil, by simp, by simp, by simp⟩
  simpa [run] using this

theorem step_stored (m : Bool) (e : Env) (s : St) (p : Nat) (h : p ∈ s.stored) :
    step m e s p = { s with cost := s.cost + 1 } := by
  unfold step; rw [if_pos h]

theorem step_skip (e : Env) (s : St) (p : Nat) (h1 : p ∉ s.stored) (h2 : p ∈ s.tried) :
    step true e s p = { s with cost := s.cost + 1 } := by
  unfold step; rw [if_neg h1, if_pos ⟨rfl, h2⟩]

theorem step_run (m : Bool) (e : Env) (s : St) (p : Nat) (h1 : p ∉ s.stored) (h2 : m = false ∨ p ∉ s.tried) :
    step m e s p = { stored := if e.succ p then p :: s.stored else s.stored, tried := p :: s.tried, cost := s.cost + 1 + e.c p } := by
  unfold step
  rw [if_neg h1, if_neg]
  rintro ⟨hm, ht⟩
  rcases h2 with h2 | h2
  · rw [h2] at hm; exact Bool.noConfusion hm
  · exact h2 ht

/-- without the attempted set a failing pair is aggregated for every mention -/
theorem foldl_replicate_failing (e : Env) (p n : Nat) (hf : e.succ p = false) (s : St) (hs : p ∉ s.stored) :
    ((List.replicate n p).foldl (step false e) s).cost = s.cost + n * (1 + e.c p)
    ∧ ((List.replicate n p).foldl (step false e) s).stored = s.stored := by
  induction n generalizing s with
  | zero => simp
  | succ n ih =>
    rw [List.replicate_succ, List.foldl_cons, step_run false e s p hs (Or.inl rfl), hf]
    have := ih { stored := s.stored, tried := p :: s.tried, cost := s.cost + 1 + e.c p } hs
    dsimp only at this
    refine ⟨?_, by simpa using this.2⟩
    have h1 := this.1
    simp only [Bool.false_eq_true, if_false] at h1 ⊢
    rw [h1, Nat.succ_mul]
    omega

/-- the two loops store the same aggregates -/
structure Sim (e : Env) (a b : St) : Prop where
  stored_eq : a.stored = b.stored
  failing : ∀ p ∈ a.tried, p ∉ a.stored → e.succ p = false

theorem step_sim (e : Env) (a b : St) (p : Nat) (h : Sim e a b) :
    Sim e (step true e a p) (step false e b p) := by
  by_cases h1 : p ∈ a.stored
  · rw [step_stored true e a p h1, step_stored false e b p (h.stored_eq ▸ h1)]
    exact ⟨h.stored_eq, h.failing⟩
  · have h1b : p ∉ b.stored := h.stored_eq ▸ h1
    rw [step_run false e b p h1b (Or.inl rfl)]
    by_cases h2 : p ∈ a.tried
    · rw [step_skip e a p h1 h2]
      have hf := h.failing p h2 h1
      refine ⟨?_, h.failing⟩
      simp [hf, h.stored_eq]
    · rw [step_run true e a p h1 (Or.inr h2)]
      refine ⟨by simp [h.stored_eq], ?_⟩
      intro q hq hns
      dsimp only at hq hns
      by_cases hs : e.succ p = true
      · rw [if_pos hs] at hns
        rcases List.mem_cons.mp hq with rfl | hq
        · exact absurd List.mem_cons_self hns
        · exact h.failing q hq (fun hh => hns (List.mem_cons_of_mem _ hh))
      · rw [if_neg hs] at hns
        rcases List.mem_cons.mp hq with rfl | hq
        · simpa using hs
        · exact h.failing q hq hns

theorem foldl_sim (e : Env) (ms : List Nat) (a b : St) (h : Sim e a b) :
    Sim e (ms.foldl (step true e) a) (ms.foldl (step false e) b) := by
  induction ms generalizing a b with
  | nil => exact h
  | cons p ms ih => exact ih _ _ (step_sim e a b p h)

end DSV.Cost.AggLoop
