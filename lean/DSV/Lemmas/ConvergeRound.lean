import DSV.Lemmas.StepWF
import DSV.Lemmas.ConvergeMap
/-!
# Convergence of channel definitions: one round of `outcome()` (C14)

Connects the tallies of `decodeObservations` (`tally_spec`) with the `ChannelDefinitions` section of
`outcome()`:

* `removalsOf_spec`: when exactly the ids of `rm` have more than `f` removal votes, the removal loop
  deletes exactly `rm`;
* `effective_perm`: when exactly the hashes of the entries of `upd` have more than `f` update votes
  (and no counted observation carries a hash collision with an entry of `upd`), the candidates that
  pass the vote threshold are the entries of `upd`;
* `defsOf_applied`: hence the new definitions are `prev.defs` with `rm` removed and `upd` stored,
  as long as the cap leaves room for the new ids.
-/
namespace DSV.LLO
open DSV DSV.GoMap

/-! ## an invariant principle for `decodeObservations` -/

theorem tally_invariant (env : Env) (cfg : Cfg) (P : Tally → Prop) (h0 : P {})
    (hadd : ∀ t o, P t → P (tallyAdd env t o))
    (hrr : ∀ (t : Tally) rr, P t → P { t with validRR := some rr })
    (obs : List Obs) (t : Tally) (h : tally env cfg obs = .ok t) : P t := by
  unfold tally at h
  have gen : ∀ (l : List Obs) (t0 : Tally), P t0 →
      l.foldl (fun (a : GoRes Tally) o => a.bind (fun t => tallyStep env cfg t o)) (GoRes.ok t0) = GoRes.ok t →
      P t := by
    intro l
    induction l with
    | nil =>
      intro t0 hp hf
      simp only [List.foldl_nil] at hf
      cases hf; exact hp
    | cons x xs ih =>
      intro t0 hp hf
      simp only [List.foldl_cons] at hf
      have hb : (GoRes.ok t0).bind (fun t => tallyStep env cfg t x) = tallyStep env cfg t0 x := rfl
      rw [hb] at hf
      cases hs : tallyStep env cfg t0 x with
      | ok t1 =>
        rw [hs] at hf
        refine ih t1 ?_ hf
        unfold tallyStep at hs
        split at hs
        · split at hs
          · cases hs
          · split at hs
            · cases hs; exact hp
            · cases hs; exact hadd _ _ (hrr _ _ hp)
        · cases hs; exact hadd _ _ hp
      | err e =>
        rw [hs] at hf
        exfalso
        have : ∀ (l : List Obs), l.foldl (fun (a : GoRes Tally) o => a.bind (fun t => tallyStep env cfg t o)) (GoRes.err e) = GoRes.err e := by
          intro l; induction l with
          | nil => rfl
          | cons y ys ih' => simp only [List.foldl_cons]; exact ih'
        rw [this] at hf; cases hf
      | panic =>
        rw [hs] at hf
        exfalso
        have : ∀ (l : List Obs), l.foldl (fun (a : GoRes Tally) o => a.bind (fun t => tallyStep env cfg t o)) GoRes.panic = GoRes.panic := by
          intro l; induction l with
          | nil => rfl
          | cons y ys ih' => simp only [List.foldl_cons]; exact ih'
        rw [this] at hf; cases hf
  exact gen obs {} h0 h

/-- every hash that received a vote has a definition recorded in `updDefs` -/
def UpdDefsCover (t : Tally) : Prop :=
  ∀ h, 0 < (t.updVotes.get? h).getD 0 → (t.updDefs.get? h).isSome = true

theorem addUpdates_cover (env : Env) (t : Tally) (us : GoMap Nat ChanDef) (h : UpdDefsCover t) :
    UpdDefsCover (addUpdates env t us) := by
  unfold addUpdates
  induction us generalizing t with
  | nil => exact h
  | cons u us ih =>
    simp only [List.foldl_cons]
    apply ih
    intro h' hv
    simp only at hv ⊢
    rw [get?_set]
    by_cases hh : h' = env.hashOf u.1 u.2
    · simp [hh]
    · simp only [hh, if_false]
      rw [getD_incr] at hv
      simp only [hh, if_false, Nat.add_zero] at hv
      exact h h' hv

theorem tally_cover (env : Env) (cfg : Cfg) (obs : List Obs) (t : Tally) (h : tally env cfg obs = .ok t) :
    UpdDefsCover t := by
  apply tally_invariant env cfg UpdDefsCover _ _ _ obs t h
  · intro h hv; simp at hv
  · intro t o hp
    rw [tallyAdd_eq]
    have := addUpdates_cover env (tallyBase t o) o.updates (by exact hp)
    exact this
  · intro t rr hp; exact hp

/-! ## removals -/

theorem removalsOf_spec (env : Env) (cfg : Cfg) (σ : Sched) (stage : String) (prev : Outcome)
    (obs : List Obs) (t : Tally) (rm : List Nat)
    (hσ : σ.IsSched) (hobs : ∀ x ∈ obs, ObsWF env x) (ht : tally env cfg obs = .ok t)
    (hstage : stage ≠ stageRetired)
    (hR : ∀ c, cfg.f < votesFor (votesRemove c) (counted env obs) ↔ c ∈ rm) (k : Nat) :
    get? (removalsOf cfg σ stage prev t).2 k = if k ∈ rm then none else get? prev.defs k := by
  obtain ⟨inv, _⟩ := tally_spec env cfg obs t hobs ht
  unfold removalsOf
  have hs : (stage == stageRetired) = false := by simpa using hstage
  simp only [hs, Bool.false_eq_true, if_false]
  rw [(applyRemovals_spec cfg _ prev.defs).2 k]
  have hiff : k ∈ removedIds cfg (σ.rmVotes t.rmVotes) ↔ k ∈ rm := by
    rw [removedIds_perm cfg (hσ.1 t.rmVotes) k, mem_removedIds, ← hR k]
    have hv : (t.rmVotes.get? k).getD 0 = votesFor (votesRemove k) (counted env obs) := inv.rm k
    rw [← hv]
    constructor
    · rintro ⟨v, hm, hlt⟩
      have := get?_eq_some_of_mem t.rmVotes inv.wfRm (k, v) hm
      simp only at this
      rw [this]; exact hlt
    · intro hlt
      cases hg : t.rmVotes.get? k with
      | none => rw [hg] at hlt; simp at hlt
      | some v =>
        rw [hg] at hlt
        exact ⟨v, mem_of_get?_eq_some _ _ _ hg, hlt⟩
  by_cases hk : k ∈ rm
  · simp [hk, hiff.mpr hk]
  · have : k ∉ removedIds cfg (σ.rmVotes t.rmVotes) := fun h => hk (hiff.mp h)
    simp [hk, this]

theorem wf_removalsOf (cfg : Cfg) (σ : Sched) (stage : String) (prev : Outcome) (t : Tally)
    (h : WF prev.defs) : WF (removalsOf cfg σ stage prev t).2 := by
  unfold removalsOf; exact wf_applyRemovals _ _ _ h

/-! ## updates -/

/-- no counted observation proposes an update whose channel hash collides with a different entry of
    `S` (the hash is SHA-256 over the id and the definition in the implementation) -/
def NoCollision (env : Env) (obs : List Obs) (S : GoMap Nat ChanDef) : Prop :=
  ∀ o ∈ obs, ∀ e ∈ o.updates, ∀ e' ∈ S, env.hashOf e.1 e.2 = env.hashOf e'.1 e'.2 → e = e'

theorem NoCollision.mono {env : Env} {obs : List Obs} {S S' : GoMap Nat ChanDef}
    (h : NoCollision env obs S) (hs : ∀ e ∈ S', e ∈ S) : NoCollision env obs S' :=
  fun o ho e he e' he' => h o ho e he e' (hs e' he')

/-- candidates below the vote threshold are skipped: the loop is `updStep` over the others -/
theorem applyUpdates_eq (env : Env) (cfg : Cfg) (uv : GoMap Hash Nat) (cands : List (Hash × (Nat × ChanDef)))
    (D : GoMap Nat ChanDef) :
    applyUpdates env cfg uv cands D =
      ((cands.filter (fun c => decide (cfg.f < (uv.get? c.1).getD 0))).map (·.2)).foldl
        (updStep env.maxChannels) D := by
  unfold applyUpdates
  induction cands generalizing D with
  | nil => rfl
  | cons c cs ih =>
    simp only [List.foldl_cons, List.filter_cons]
    by_cases hv : (uv.get? c.1).getD 0 ≤ cfg.f
    · have hn : ¬ cfg.f < (uv.get? c.1).getD 0 := by omega
      simp only [hv, if_true, hn, decide_false, Bool.false_eq_true, if_false]
      exact ih D
    · have hn : cfg.f < (uv.get? c.1).getD 0 := by omega
      simp only [hv, if_false, hn, decide_true, if_true, List.map_cons, List.foldl_cons]
      exact ih _

/-- the candidates that pass the threshold are exactly the honest updates -/
theorem effective_perm (env : Env) (cfg : Cfg) (σ : Sched) (obs : List Obs) (t : Tally)
    (upd : GoMap Nat ChanDef) (hσ : σ.IsSched) (hobs : ∀ x ∈ obs, ObsWF env x)
    (ht : tally env cfg obs = .ok t) (hwfU : WF upd)
    (hU : ∀ h, cfg.f < votesFor (votesUpdate env h) (counted env obs) ↔ ∃ e ∈ upd, env.hashOf e.1 e.2 = h)
    (hinj : NoCollision env (counted env obs) upd) :
    ((((σ.updDefs t.updDefs).mergeSort candLe).filter
        (fun c => decide (cfg.f < (t.updVotes.get? c.1).getD 0))).map (·.2)).Perm upd := by
  obtain ⟨inv, _⟩ := tally_spec env cfg obs t hobs ht
  have hcover := tally_cover env cfg obs t ht
  have hperm : ((σ.updDefs t.updDefs).mergeSort candLe).Perm t.updDefs :=
    (List.mergeSort_perm _ _).trans (hσ.2.1 _)
  have hvotes : ∀ h, (t.updVotes.get? h).getD 0 = votesFor (votesUpdate env h) (counted env obs) := inv.upd
  -- what a candidate is
  have hcand : ∀ c, c ∈ (σ.updDefs t.updDefs).mergeSort candLe →
      env.hashOf c.2.1 c.2.2 = c.1 ∧ ∃ o ∈ counted env obs, c.2 ∈ o.updates := by
    intro c hc
    have hm : c ∈ t.updDefs := hperm.mem_iff.mp hc
    exact inv.defsFrom c.1 c.2 (get?_eq_some_of_mem t.updDefs inv.wfUpd c hm)
  apply (List.perm_ext_iff_of_nodup ?_ (nodup_of_wf upd hwfU)).mpr
  · intro e
    simp only [List.mem_map, List.mem_filter, decide_eq_true_eq]
    constructor
    · rintro ⟨c, ⟨hc, hlt⟩, rfl⟩
      obtain ⟨hh, o, ho, hmem⟩ := hcand c hc
      rw [hvotes] at hlt
      obtain ⟨e', he', hh'⟩ := (hU c.1).mp hlt
      have := hinj o ho c.2 hmem e' he' (by rw [hh, hh'])
      rw [this]; exact he'
    · intro he
      have hlt : cfg.f < votesFor (votesUpdate env (env.hashOf e.1 e.2)) (counted env obs) :=
        (hU _).mpr ⟨e, he, rfl⟩
      have hpos : 0 < (t.updVotes.get? (env.hashOf e.1 e.2)).getD 0 := by rw [hvotes]; omega
      have hsome := hcover _ hpos
      cases hg : t.updDefs.get? (env.hashOf e.1 e.2) with
      | none => rw [hg] at hsome; cases hsome
      | some e'' =>
        obtain ⟨hh, o, ho, hmem⟩ := inv.defsFrom _ _ hg
        have heq : e'' = e := hinj o ho e'' hmem e he hh
        subst heq
        refine ⟨(env.hashOf e''.1 e''.2, e''), ⟨?_, by rw [hvotes]; exact hlt⟩, rfl⟩
        exact hperm.mem_iff.mpr (mem_of_get?_eq_some _ _ _ hg)
  · -- distinct candidates have distinct hashes, the hash determines the entry, hence distinct entries
    have hnd : ((σ.updDefs t.updDefs).mergeSort candLe).Nodup :=
      hperm.nodup_iff.mpr (nodup_of_wf _ inv.wfUpd)
    have hnd' := List.Pairwise.filter (fun c => decide (cfg.f < (t.updVotes.get? c.1).getD 0)) hnd
    apply List.pairwise_map.mpr
    apply List.Pairwise.imp_of_mem _ hnd'
    intro a b ha hb hab h2
    have ha' := hcand a (List.mem_filter.mp ha).1
    have hb' := hcand b (List.mem_filter.mp hb).1
    apply hab
    have h1 : a.1 = b.1 := by rw [← ha'.1, ← hb'.1, h2]
    cases a; cases b; simp_all

/-- **the `ChannelDefinitions` section applies exactly the honest votes** -/
theorem defsOf_applied (env : Env) (cfg : Cfg) (σ : Sched) (stage : String) (prev : Outcome)
    (obs : List Obs) (t : Tally) (rm : List Nat) (upd : GoMap Nat ChanDef)
    (hσ : σ.IsSched) (hobs : ∀ x ∈ obs, ObsWF env x) (ht : tally env cfg obs = .ok t)
    (hstage : stage ≠ stageRetired) (hwf : WF prev.defs) (hwfU : WF upd)
    (hR : ∀ c, cfg.f < votesFor (votesRemove c) (counted env obs) ↔ c ∈ rm)
    (hU : ∀ h, cfg.f < votesFor (votesUpdate env h) (counted env obs) ↔ ∃ e ∈ upd, env.hashOf e.1 e.2 = h)
    (hinj : NoCollision env (counted env obs) upd)
    (hcap : ∀ D1 : GoMap Nat ChanDef, WF D1 →
      (∀ k, get? D1 k = if k ∈ rm then none else get? prev.defs k) →
      D1.length + (upd.filter (fun e => !D1.contains e.1)).length ≤ env.maxChannels) :
    Applied prev.defs rm upd (defsOf env cfg σ stage prev t) := by
  have hrm := removalsOf_spec env cfg σ stage prev obs t rm hσ hobs ht hstage hR
  have hwfD := wf_removalsOf cfg σ stage prev t hwf
  have hperm := effective_perm env cfg σ obs t upd hσ hobs ht hwfU hU hinj
  have hcap' := hcap _ hwfD hrm
  intro c
  unfold defsOf
  have hs : (stage == stageRetired) = false := by simpa using hstage
  simp only [hs, Bool.false_eq_true, if_false]
  rw [applyUpdates_eq]
  have hwfL : WF ((((σ.updDefs t.updDefs).mergeSort candLe).filter
        (fun c => decide (cfg.f < (t.updVotes.get? c.1).getD 0))).map (·.2)) := by
    unfold WF keys at *; exact (hperm.map _).nodup_iff.mpr hwfU
  rw [foldl_updStep_spec env.maxChannels _ hwfL _ ?_ c, get?_perm hwfL hperm c, hrm c]
  rw [← List.countP_eq_length_filter, hperm.countP_eq, List.countP_eq_length_filter]
  exact hcap'

end DSV.LLO

namespace DSV.LLO
open DSV DSV.GoMap

/-! ## the codec round trip between rounds only re-orders the definitions -/

theorem codecRoundTrip_defs {cfg : Cfg} {o o' : Outcome} (h : codecRoundTrip cfg o = .ok o') :
    o'.defs = byKey o.defs ∧ o'.stage = o.stage := by
  unfold codecRoundTrip at h
  simp only at h
  split at h
  · split at h
    · cases h
    · split at h
      · cases h
      · cases h; exact ⟨rfl, rfl⟩
  · cases h; exact ⟨rfl, rfl⟩

/-- `Q prev r` holds for every round of the history, `prev` being the agreed outcome the round
    starts from (rounds whose `Outcome()`/encoding fails do not advance the state) -/
def AlongRun (env : Env) (cfg : Cfg) (Q : Outcome → Round → Prop) : Outcome → List Round → Prop
  | _, [] => True
  | o, r :: rs =>
    Q o r ∧ AlongRun env cfg Q (match step env cfg r o with | .ok o' => o' | _ => o) rs

/-- a condition on all states of a history holds in particular along it -/
theorem alongRun_of_forall_states (env : Env) (cfg : Cfg) (P : Outcome → Prop) (o0 : Outcome) (rs : List Round)
    (h : ∀ o ∈ o0 :: run env cfg o0 rs, P o) : AlongRun env cfg (fun prev _ => P prev) o0 rs := by
  induction rs generalizing o0 with
  | nil => trivial
  | cons r rs ih =>
    refine ⟨h o0 (by simp), ?_⟩
    unfold run at h
    cases hs : step env cfg r o0 with
    | ok o' =>
      rw [hs] at h
      simp only at h ⊢
      exact ih o' (fun o ho => h o (List.mem_cons_of_mem _ ho))
    | err e =>
      rw [hs] at h
      simp only at h ⊢
      exact ih o0 h
    | panic =>
      rw [hs] at h
      simp only at h ⊢
      exact ih o0 h

end DSV.LLO
