import DSV.Lemmas.Outcome
import DSV.Lemmas.Tally
import DSV.Lemmas.History
/-!
# Well-formedness of outcomes is preserved by every round
-/
namespace DSV.LLO
open DSV DSV.GoMap

/-- maps of an outcome have distinct keys (they are Go maps) -/
def WFOutcome (o : Outcome) : Prop := WF o.defs ∧ WF o.va

/-- the predecessor cache hands out well-formed maps -/
def EnvWF (env : Env) : Prop := ∀ b rr, env.check b = some rr → WF rr.va

/-- assumptions about one round: the iteration orders are permutations, decoded observations are
    Go values (distinct map keys; distinct update entries hash differently) -/
def RoundOK (env : Env) (r : Round) : Prop := r.σ.IsSched ∧ ∀ x ∈ r.obs, ObsWF env x

theorem outcome_wf {env : Env} {cfg : Cfg} {σ : Sched} {n : Nat} {prev o : Outcome} {obs : List Obs}
    (henv : EnvWF env) (hobs : ∀ x ∈ obs, ObsWF env x) (hprev : WFOutcome prev)
    (h : outcome env cfg σ n prev obs = .ok o) : WFOutcome o := by
  obtain ⟨_, t, ht, _, _, _, hdefs, hva, _⟩ := outcome_ok h
  obtain ⟨_, horig⟩ := tally_spec env cfg obs t hobs ht
  constructor
  · rw [hdefs]; unfold defsOf removalsOf
    exact wf_applyUpdates _ _ _ _ _ (wf_applyRemovals _ _ _ hprev.1)
  · rw [hva]
    apply wf_vaOf env
    intro rr hrr
    obtain ⟨x, _, hc⟩ := horig rr hrr
    exact henv _ _ hc

theorem step_wf {env : Env} {cfg : Cfg} {r : Round} {prev o' : Outcome}
    (henv : EnvWF env) (hr : RoundOK env r) (hprev : WFOutcome prev)
    (h : step env cfg r prev = .ok o') : WFOutcome o' := by
  obtain ⟨o, h1, h2⟩ := step_ok h
  have hw := outcome_wf henv hr.2 hprev h1
  obtain ⟨_, _, hd, hv, _⟩ := codecRoundTrip_ok h2 hw.1 hw.2
  exact ⟨hd, hv⟩

theorem truncVA_idem (cfg : Cfg) (v : Nat) : truncVA cfg (truncVA cfg v) = truncVA cfg v := by
  unfold truncVA
  split
  · have : v / 1000000000 * 1000000000 / 1000000000 = v / 1000000000 := by
      rw [Nat.mul_div_cancel _ (by decide)]
    rw [this]
  · rfl

end DSV.LLO
