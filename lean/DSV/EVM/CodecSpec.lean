import DSV.EVM.Codec
import DSV.EVM.CodecDecode
import DSV.Props.C13
/-!
# Specification side of property C12

The formulas of the property text, written over `Int`/`Nat` without reference to the decimal
library's operations:

* `specFee price base`   = `base / price × 10^18` rounded half away from zero, `0` if either is `≤ 0`
* `specScaled d m`       = `trunc(d × m)` toward zero
* `specPadded`, `specPacked` : the integers a payload element must decode to
* `fitsPadded`, `fitsPacked` : the element is of a supported shape and every integer lies in its declared type

and the Go-type invariants of the inputs (`Dec.exp` is an `int32`, ids are `uint32`, nanoseconds `uint64`).
-/
namespace DSV.EVM
open DSV DSV.LLO

/-! ## fee -/

/-- numerator / denominator of `d / d2 × 10^p` as integers (one of the two powers is `10^0`) -/
def quoNum (d d2 : Dec) (p : Int) : Int :=
  if d.exp - d2.exp + p < 0 then d.coef else d.coef * 10 ^ (d.exp - d2.exp + p).toNat

def quoDen (d d2 : Dec) (p : Int) : Int :=
  if d.exp - d2.exp + p < 0 then d2.coef * 10 ^ (-(d.exp - d2.exp + p)).toNat else d2.coef

/-- the fee of the property: `base / price × 10^18` rounded to the nearest integer, ties away from
    zero; `0` when the price or the base fee is `≤ 0`.  (`⌊(2·num + den) / (2·den)⌋` is that rounding
    for positive `num/den`, see `C12.fee_is_nearest`.) -/
def specFee (price base : Dec) : Int :=
  if base.coef ≤ 0 ∨ price.coef ≤ 0 then 0
  else (2 * quoNum base price 18 + quoDen base price 18) / (2 * quoDen base price 18)

/-- precondition of `decimal.QuoRem` inside `CalculateFee`; its violation is known finding K4 -/
def feeSafe (price base : Dec) : Prop :=
  base.coef ≤ 0 ∨ price.coef ≤ 0 ∨
    (Dec.minInt32 ≤ base.exp - price.exp + 18 ∧ base.exp - price.exp + 18 ≤ Dec.maxInt32)

/-- the token price a report value stands for: a decimal, the benchmark of a quote; missing ⇒ fee 0 -/
def specFeeOf (v : Option SV) (base : Dec) : Int :=
  match v with
  | some (.dec d) => specFee d base
  | some (.quote _ bm _) => specFee bm base
  | _ => 0

def feeSafeOf (v : Option SV) (base : Dec) : Prop :=
  match v with
  | some (.dec d) => feeSafe d base
  | some (.quote _ bm _) => feeSafe bm base
  | _ => True

/-! ## scaled values -/

/-- `trunc(d × m)` toward zero -/
def specScaled (d : Dec) (m : Int) : Int :=
  if d.exp ≥ 0 then d.coef * m * 10 ^ d.exp.toNat
  else Int.tdiv (d.coef * m) (10 ^ (-d.exp).toNat)

/-- representable in the declared type (`none` = the type string is not a Solidity integer type) -/
def fitsTy (ty : Option (Bool × Nat)) (v : Int) : Prop :=
  match ty with
  | some (s, b) => DSV.Props.C13.fits s b v
  | none => False

def Enc1.m (e : Enc1) : Int := e.mult.getD 1

/-- the words an element of the unpacked payload must decode to -/
def specPadded (a : ABIEnc) (v : Option SV) : List Int :=
  match v, a.encoders with
  | some (.dec d), [e] => [specScaled d e.m]
  | some (.tsv t (.dec d)), [e0, e1] => [specScaled ⟨t, 0⟩ e0.m, specScaled d e1.m]
  | _, _ => []

/-- supported shape and every integer in its declared type -/
def fitsPadded (a : ABIEnc) (v : Option SV) : Prop :=
  match v, a.encoders with
  | some (.dec d), [e] => fitsTy (parseType e.ty) (specScaled d e.m)
  | some (.tsv t (.dec d)), [e0, e1] =>
    fitsTy (parseType e0.ty) (specScaled ⟨t, 0⟩ e0.m) ∧ fitsTy (parseType e1.ty) (specScaled d e1.m)
  | _, _ => False

/-- one packed field: nothing for the `bytes0` sentinel -/
def specPackedField (e : Enc1) (x : Dec) : Option Int :=
  if e.ty = zeroBytesSentinel then none else some (specScaled x e.m)

/-- the inner value of a timestamped value under the second encoder -/
def specPackedInner (e : Enc1) (inner : SV) : Option Int :=
  if e.ty = zeroBytesSentinel then none
  else match inner with
    | .dec d => some (specScaled d e.m)
    | _ => none

/-- the fields an element of the streamlined payload must decode to -/
def specPacked (a : ABIEnc) (v : Option SV) : List (Option Int) :=
  match v, a.encoders with
  | some (.dec d), [e] => [specPackedField e d]
  | some (.tsv t inner), [e0, e1] => [specPackedField e0 ⟨t, 0⟩, specPackedInner e1 inner]
  | _, _ => []

def fitsPackedField (e : Enc1) (x : Dec) : Prop :=
  e.ty = zeroBytesSentinel ∨ fitsTy (parseType e.ty) (specScaled x e.m)

def fitsPackedInner (e : Enc1) (inner : SV) : Prop :=
  e.ty = zeroBytesSentinel ∨
    match inner with
    | .dec d => fitsTy (parseType e.ty) (specScaled d e.m)
    | _ => False

def fitsPacked (a : ABIEnc) (v : Option SV) : Prop :=
  match v, a.encoders with
  | some (.dec d), [e] => fitsPackedField e d
  | some (.tsv t inner), [e0, e1] => fitsPackedField e0 ⟨t, 0⟩ ∧ fitsPackedInner e1 inner
  | _, _ => False

/-! ## Go type invariants of the inputs -/

def decOk (d : Dec) : Prop := Dec.minInt32 ≤ d.exp ∧ d.exp ≤ Dec.maxInt32

/-- every decimal inside a stream value has an `int32` exponent -/
def svOk : SV → Prop
  | .dec d => decOk d
  | .quote a b c => decOk a ∧ decOk b ∧ decOk c
  | .tsv _ inner => svOk inner

def valuesOk (vs : List (Option SV)) : Prop := ∀ v ∈ vs, ∀ sv, v = some sv → svOk sv

end DSV.EVM
