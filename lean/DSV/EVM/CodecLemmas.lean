import DSV.EVM.CodecSpec
import DSV.Lemmas.DecOrder
import DSV.Lemmas.Bytes
/-!
# Helper lemmas for property C12 (no property theorems here)
-/
namespace DSV.EVM
open DSV DSV.LLO DSV.Props

/-- rounding half up of a non-negative quotient, computed the way `DivRound` does -/
theorem round_half (aa bb : Int) (hb : 0 < bb) :
    (if 2 * (aa % bb) < bb then aa / bb else aa / bb + 1) = (2 * aa + bb) / (2 * bb) := by
  have hq := Int.mul_ediv_add_emod aa bb
  have hr0 := Int.emod_nonneg aa (show bb ≠ 0 by omega)
  have hr1 := Int.emod_lt_of_pos aa hb
  have h2b : (2 * bb) ≠ 0 := by omega
  have key : 2 * aa + bb = (2 * (aa % bb) + bb) + (2 * bb) * (aa / bb) := by grind
  rw [key, Int.add_mul_ediv_left _ _ h2b]
  split
  · rw [Int.ediv_eq_zero_of_lt (a := 2 * (aa % bb) + bb) (b := 2 * bb) (by omega) (by omega)]; omega
  · have k2 : 2 * (aa % bb) + bb = (2 * (aa % bb) - bb) + (2 * bb) * 1 := by omega
    rw [k2, Int.add_mul_ediv_left _ _ h2b, Int.ediv_eq_zero_of_lt (a := 2 * (aa % bb) - bb) (b := 2 * bb) (by omega) (by omega)]; omega


theorem quoDen_pos (d d2 : Dec) (p : Int) (h : 0 < d2.coef) : 0 < quoDen d d2 p := by
  unfold quoDen
  split
  · exact Int.mul_pos h (Int.pow_pos (by decide))
  · exact h

theorem dec_add_same_exp (a b e : Int) : Dec.add ⟨a, e⟩ ⟨b, e⟩ = ⟨a + b, e⟩ := by
  simp [Dec.add, Dec.coefAt]

theorem dec_sign_pos (d : Dec) (h : 0 < d.coef) : d.sign = 1 := by
  unfold Dec.sign; rw [if_neg (by omega), if_pos h]

/-- the rounding decision of `DivRound`: `2·|r|` at exponent `x` against `|c|` at exponent `y ≥ x` -/
theorem lt_r2 (r c x y : Int) (hr : 0 ≤ r) (hc : 0 < c) (hxy : x ≤ y) :
    (Dec.lt ⟨2 * ((r.natAbs : Nat) : Int), x⟩ (Dec.abs ⟨c, y⟩) = true) ↔ 2 * r < c * 10 ^ (y - x).toNat := by
  rw [Dec.lt_iff _ _ x (by simp) (by simpa [Dec.abs] using hxy)]
  simp only [Dec.coefAt, Dec.abs, Int.sub_self, Int.toNat_zero, Int.pow_zero, Int.mul_one]
  rw [Int.natAbs_of_nonneg hr, Int.natAbs_of_nonneg (Int.le_of_lt hc)]

theorem divRound_pos (d d2 : Dec) (p : Int) (hd : 0 < d.coef) (hd2 : 0 < d2.coef)
    (he1 : d.exp - d2.exp + p ≤ Dec.maxInt32) (he2 : Dec.minInt32 ≤ d.exp - d2.exp + p) :
    d.divRound d2 p = .ok ⟨(2 * quoNum d d2 p + quoDen d d2 p) / (2 * quoDen d d2 p), -p⟩ := by
  have hd2ne : d2.coef ≠ 0 := by omega
  have hE : d.exp - d2.exp - -p = d.exp - d2.exp + p := by omega
  have hs : ¬ d.sign * d2.sign < 0 := by rw [dec_sign_pos d hd, dec_sign_pos d2 hd2]; decide
  unfold Dec.divRound Dec.quoRem
  simp only [hE, if_neg hd2ne]
  rw [if_neg (by omega)]
  by_cases hneg : d.exp - d2.exp + p < 0
  · simp only [if_pos hneg, quoNum, quoDen]
    generalize hbb : d2.coef * 10 ^ (-(d.exp - d2.exp + p)).toNat = bb
    have hbpos : 0 < bb := by rw [← hbb]; exact Int.mul_pos hd2 (Int.pow_pos (by decide))
    simp only [GoRes.bind_ok, Dec.tquo, Dec.trem, GoRes.pure_eq, if_neg hs,
      Int.tdiv_eq_ediv_of_nonneg (Int.le_of_lt hd), Int.tmod_eq_emod_of_nonneg (Int.le_of_lt hd)]
    have hr0 := Int.emod_nonneg d.coef (show bb ≠ 0 by omega)
    have hlt := lt_r2 (d.coef % bb) d2.coef (d.exp + p) d2.exp hr0 hd2 (by omega)
    have hk : (d2.exp - (d.exp + p)).toNat = (-(d.exp - d2.exp + p)).toNat := by congr 1; omega
    rw [hk, hbb] at hlt
    rw [← round_half d.coef bb hbpos]
    by_cases hc : 2 * (d.coef % bb) < bb
    · rw [if_pos (hlt.mpr hc), if_pos hc]
    · rw [if_neg (fun h => hc (hlt.mp h)), if_neg hc, dec_add_same_exp]
  · simp only [if_neg hneg, quoNum, quoDen]
    generalize haa : d.coef * 10 ^ (d.exp - d2.exp + p).toNat = aa
    have hapos : 0 ≤ aa := by rw [← haa]; exact Int.le_of_lt (Int.mul_pos hd (Int.pow_pos (by decide)))
    simp only [GoRes.bind_ok, Dec.tquo, Dec.trem, GoRes.pure_eq, if_neg hs,
      Int.tdiv_eq_ediv_of_nonneg hapos, Int.tmod_eq_emod_of_nonneg hapos]
    have hr0 := Int.emod_nonneg aa hd2ne
    have hlt := lt_r2 (aa % d2.coef) d2.coef (-p + d2.exp + p) d2.exp hr0 hd2 (by omega)
    have hk : (d2.exp - (-p + d2.exp + p)).toNat = 0 := by
      have : d2.exp - (-p + d2.exp + p) = 0 := by omega
      rw [this]; rfl
    rw [hk, Int.pow_zero, Int.mul_one] at hlt
    rw [← round_half aa d2.coef hd2]
    by_cases hc : 2 * (aa % d2.coef) < d2.coef
    · rw [if_pos (hlt.mpr hc), if_pos hc]
    · rw [if_neg (fun h => hc (hlt.mp h)), if_neg hc, dec_add_same_exp]


theorem dec_mul_ok (a b : Dec) (h1 : a.exp + b.exp ≤ Dec.maxInt32) (h2 : Dec.minInt32 ≤ a.exp + b.exp) :
    a.mul b = .ok ⟨a.coef * b.coef, a.exp + b.exp⟩ := by
  unfold Dec.mul
  simp only []
  rw [if_neg (by omega)]

theorem calculateFee_eq (price base : Dec) (h : feeSafe price base) :
    calculateFee price base = .ok (specFee price base) := by
  unfold calculateFee specFee
  by_cases hz : base.coef ≤ 0 ∨ price.coef ≤ 0
  · rw [if_pos (by omega), if_pos hz]
  · rw [if_neg (by omega), if_neg hz]
    have hb : 0 < base.coef := by omega
    have hp : 0 < price.coef := by omega
    have hs : Dec.minInt32 ≤ base.exp - price.exp + 18 ∧ base.exp - price.exp + 18 ≤ Dec.maxInt32 := by
      rcases h with h | h | h
      · omega
      · omega
      · exact h
    rw [feePrecision, divRound_pos base price 18 hb hp hs.2 hs.1]
    simp only [GoRes.bind_ok]
    rw [dec_mul_ok _ _ (by simp [feeScalingFactor, Dec.maxInt32]) (by simp [feeScalingFactor, Dec.minInt32])]
    simp only [GoRes.bind_ok, GoRes.pure_eq, Dec.bigInt, Dec.rescale, feeScalingFactor]
    rw [if_neg (by decide), if_pos (by decide)]
    simp only [Dec.tquo]
    have : ((0 : Int) - (-18 + 0)).toNat = 18 := by decide
    rw [this, show (10 : Int) ^ 18 = 1000000000000000000 by decide]
    rw [Int.mul_tdiv_cancel _ (by decide)]

theorem calculateFee_panic (price base : Dec) (h : ¬ feeSafe price base) :
    calculateFee price base = .panic := by
  unfold feeSafe at h
  unfold calculateFee
  rw [if_neg (by omega)]
  have hp : price.coef ≠ 0 := by omega
  have hE : base.exp - price.exp - -feePrecision = base.exp - price.exp + 18 := by simp [feePrecision]
  unfold Dec.divRound Dec.quoRem
  simp only [hE, if_neg hp]
  rw [if_pos (by omega)]
  rfl

theorem specFee_nonneg (price base : Dec) : 0 ≤ specFee price base := by
  unfold specFee
  split
  · omega
  · rename_i h
    have hb : 0 < base.coef := by omega
    have hp : 0 < price.coef := by omega
    have hden := quoDen_pos base price 18 hp
    have hnum : 0 ≤ quoNum base price 18 := by
      unfold quoNum; split
      · omega
      · exact Int.le_of_lt (Int.mul_pos hb (Int.pow_pos (by decide)))
    exact Int.ediv_nonneg (by omega) (by omega)

/-- `specFee` is the integer nearest to `num/den`, ties upwards (away from zero: everything is positive) -/
theorem specFee_rounds (price base : Dec) (hb : 0 < base.coef) (hp : 0 < price.coef) :
    2 * quoDen base price 18 * specFee price base ≤ 2 * quoNum base price 18 + quoDen base price 18 ∧
    2 * quoNum base price 18 + quoDen base price 18 < 2 * quoDen base price 18 * (specFee price base + 1) := by
  have hden := quoDen_pos base price 18 hp
  unfold specFee
  rw [if_neg (by omega)]
  refine ⟨Int.mul_ediv_self_le (by omega), ?_⟩
  have := Int.lt_mul_ediv_self_add (x := 2 * quoNum base price 18 + quoDen base price 18)
    (k := 2 * quoDen base price 18) (by omega)
  rw [Int.mul_add, Int.mul_one]; exact this

/-! ## scaling -/

theorem mulBigInt_eq (d : Dec) (m : Int) (h : decOk d) :
    (d.mul ⟨m, 0⟩ >>= fun p => (pure p.bigInt : GoRes Int)) = .ok (specScaled d m) := by
  obtain ⟨h1, h2⟩ := h
  rw [dec_mul_ok d ⟨m, 0⟩ (by simpa using h2) (by simpa using h1)]
  simp only [GoRes.bind_ok, GoRes.pure_eq, Dec.bigInt, Dec.rescale, specScaled, Int.add_zero]
  by_cases h0 : d.exp = 0
  · rw [if_pos (by omega), if_pos (by omega), h0]; simp
  · rw [if_neg (by omega)]
    by_cases hp : 0 > d.exp
    · rw [if_pos hp, if_neg (by omega)]
      simp only [Dec.tquo]
      congr 3
      omega
    · rw [if_neg hp, if_pos (by omega)]
      simp

theorem scaleBy_eq (d : Dec) (m : Int) (h : decOk d) : scaleBy d m = .ok (specScaled d m) :=
  mulBigInt_eq d m h

theorem applyMultiplier_eq (e : Enc1) (d : Dec) (h : decOk d) :
    e.applyMultiplier d = .ok (specScaled d e.m) :=
  mulBigInt_eq d _ h

theorem decOk_nat (t : Nat) : decOk ⟨t, 0⟩ := by
  simp [decOk, Dec.minInt32, Dec.maxInt32]


/-! ## ABI words -/

theorem int_pow_cast (n : Nat) : ((2 ^ n : Nat) : Int) = (2 : Int) ^ n := by
  simp [Int.natCast_pow]

theorem abiWord_length (v : Int) : (abiWord v).length = 32 := beBytes_length _ _

theorem fromBE_abiWord (v : Int) : ((fromBE (abiWord v) : Nat) : Int) = v % (2 : Int) ^ 256 := by
  have hpos : (0 : Int) < (2 : Int) ^ 256 := Int.pow_pos (by omega)
  have hm0 : 0 ≤ v % (2 : Int) ^ 256 := Int.emod_nonneg _ (by omega)
  have hm1 : v % (2 : Int) ^ 256 < (2 : Int) ^ 256 := Int.emod_lt_of_pos _ hpos
  have hv : (v % (2 : Int) ^ 256).toNat < 2 ^ 256 := by
    have : ((v % (2 : Int) ^ 256).toNat : Int) < ((2 ^ 256 : Nat) : Int) := by
      rw [int_pow_cast, Int.toNat_of_nonneg hm0]; exact hm1
    exact Int.ofNat_lt.mp this
  unfold abiWord
  rw [fromBE_beBytes, pow256, Nat.mod_eq_of_lt hv, Int.toNat_of_nonneg hm0]

/-- a 32-byte word whose value is `v mod 2^256` reads back as the unsigned `v` when `v` is in range -/
theorem wordUint_of (bits : Nat) (hb : bits ≤ 256) (w : Bytes) (v : Int)
    (hw : ((fromBE w : Nat) : Int) = v % (2 : Int) ^ 256) (h0 : 0 ≤ v) (h1 : v < (2 : Int) ^ bits) :
    wordUint bits w = some v.toNat := by
  have hle : (2 : Int) ^ bits ≤ (2 : Int) ^ 256 := by
    rw [← int_pow_cast, ← int_pow_cast]; exact Int.ofNat_le.mpr (Nat.pow_le_pow_right (by omega) hb)
  rw [Int.emod_eq_of_lt h0 (by omega)] at hw
  have hn : fromBE w = v.toNat := by omega
  unfold wordUint
  rw [hn, if_pos]
  have : ((v.toNat : Nat) : Int) < ((2 ^ bits : Nat) : Int) := by
    rw [int_pow_cast, Int.toNat_of_nonneg h0]; exact h1
  exact Int.ofNat_lt.mp this

/-- … and as the signed `v` -/
theorem wordInt_of (bits : Nat) (hb1 : 1 ≤ bits) (hb : bits ≤ 256) (w : Bytes) (v : Int)
    (hw : ((fromBE w : Nat) : Int) = v % (2 : Int) ^ 256)
    (h0 : -((2 : Int) ^ (bits - 1)) ≤ v) (h1 : v ≤ (2 : Int) ^ (bits - 1) - 1) :
    wordInt bits w = some v := by
  have hle : (2 : Int) ^ (bits - 1) ≤ (2 : Int) ^ 255 := by
    rw [← int_pow_cast, ← int_pow_cast]; exact Int.ofNat_le.mpr (Nat.pow_le_pow_right (by omega) (by omega))
  have h256 : (2 : Int) ^ 256 = 2 * (2 : Int) ^ 255 := by decide
  have hc255 : ((2 ^ (256 - 1) : Nat) : Int) = (2 : Int) ^ 255 := by rw [int_pow_cast]
  have hts : toSigned 256 (fromBE w) = v := by
    unfold toSigned
    by_cases hneg : v < 0
    · have hmod : v % (2 : Int) ^ 256 = v + (2 : Int) ^ 256 := by
        rw [← Int.add_emod_right, Int.emod_eq_of_lt (by omega) (by omega)]
      have hge : fromBE w ≥ 2 ^ (256 - 1) := by
        have : ((2 ^ (256 - 1) : Nat) : Int) ≤ ((fromBE w : Nat) : Int) := by rw [hw, hc255, hmod]; omega
        exact Int.ofNat_le.mp this
      rw [if_pos hge, hw, hmod]; omega
    · have hmod : v % (2 : Int) ^ 256 = v := Int.emod_eq_of_lt (by omega) (by omega)
      have hlt : ¬ fromBE w ≥ 2 ^ (256 - 1) := by
        intro hge
        have : ((2 ^ (256 - 1) : Nat) : Int) ≤ ((fromBE w : Nat) : Int) := Int.ofNat_le.mpr hge
        rw [hw, hc255, hmod] at this; omega
      rw [if_neg hlt, hw, hmod]
  unfold wordInt
  simp only [hts]
  rw [if_pos ⟨h0, h1⟩]

theorem wordUint_abiWord_nat (bits : Nat) (hb : bits ≤ 256) (n : Nat) (h : n < 2 ^ bits) :
    wordUint bits (abiWord (n : Int)) = some n := by
  have := wordUint_of bits hb (abiWord n) n (fromBE_abiWord _) (by omega)
    (by rw [← int_pow_cast]; exact Int.ofNat_lt.mpr h)
  simpa using this

theorem wordUint_abiWord (bits : Nat) (hb : bits ≤ 256) (v : Int) (h0 : 0 ≤ v) (h1 : v < (2 : Int) ^ bits) :
    wordUint bits (abiWord v) = some v.toNat :=
  wordUint_of bits hb _ v (fromBE_abiWord _) h0 h1

theorem wordInt_abiWord (bits : Nat) (hb1 : 1 ≤ bits) (hb : bits ≤ 256) (v : Int)
    (h0 : -((2 : Int) ^ (bits - 1)) ≤ v) (h1 : v ≤ (2 : Int) ^ (bits - 1) - 1) :
    wordInt bits (abiWord v) = some v :=
  wordInt_of bits hb1 hb _ v (fromBE_abiWord _) h0 h1

/-! splitting words -/

theorem splitWords_cons (n : Nat) (w rest : Bytes) (hw : w.length = 32) :
    splitWords (n + 1) (w ++ rest) = (splitWords n rest).map (fun ws => w :: ws) := by
  simp only [splitWords]
  rw [if_neg (by simp [hw])]
  rw [List.take_left' hw, List.drop_left' hw]

theorem splitWords_nil : splitWords 0 [] = some [] := rfl


/-! ## range checks -/

theorem feeCheck_none (f : Int) : feeCheck f = none ↔ 0 ≤ f ∧ f < (2 : Int) ^ 192 := by
  unfold feeCheck maxUint192
  constructor
  · intro h
    split at h
    · cases h
    · split at h
      · cases h
      · omega
  · rintro ⟨h0, h1⟩
    rw [if_neg (by omega), if_neg (by omega)]

theorem feeCheck_some (f : Int) (h : ¬ (0 ≤ f ∧ f < (2 : Int) ^ 192)) : ∃ c, feeCheck f = some c := by
  cases hc : feeCheck f with
  | none => exact absurd ((feeCheck_none f).mp hc) h
  | some c => exact ⟨c, rfl⟩

theorem checkInt192_none (v : Int) :
    checkInt192 v = none ↔ -((2 : Int) ^ 191) ≤ v ∧ v ≤ (2 : Int) ^ 191 - 1 := by
  unfold checkInt192 minInt192 maxInt192
  constructor
  · intro h
    split at h
    · cases h
    · omega
  · rintro ⟨h0, h1⟩
    rw [if_neg (by omega)]

theorem checkInt192_some (v : Int) (h : ¬ (-((2 : Int) ^ 191) ≤ v ∧ v ≤ (2 : Int) ^ 191 - 1)) :
    ∃ c, checkInt192 v = some c := by
  cases hc : checkInt192 v with
  | none => exact absurd ((checkInt192_none v).mp hc) h
  | some c => exact ⟨c, rfl⟩


/-! ## v3 schema -/

theorem buildReportV3_ok (feed : Bytes) (rf : V3Fields) (bs : Bytes) (h : buildReportV3 feed rf = .ok bs) :
    (-((2 : Int) ^ 191) ≤ rf.benchmark ∧ rf.benchmark ≤ (2 : Int) ^ 191 - 1) ∧
    (-((2 : Int) ^ 191) ≤ rf.bid ∧ rf.bid ≤ (2 : Int) ^ 191 - 1) ∧
    (-((2 : Int) ^ 191) ≤ rf.ask ∧ rf.ask ≤ (2 : Int) ^ 191 - 1) ∧
    (0 ≤ rf.linkFee ∧ rf.linkFee < (2 : Int) ^ 192) ∧ (0 ≤ rf.nativeFee ∧ rf.nativeFee < (2 : Int) ^ 192) ∧
    bs = feed ++ (abiWord rf.validFrom ++ (abiWord rf.timestamp ++ (abiWord rf.nativeFee ++
          (abiWord rf.linkFee ++ (abiWord rf.expiresAt ++ (abiWord rf.benchmark ++
            (abiWord rf.bid ++ (abiWord rf.ask ++ [])))))))) := by
  unfold buildReportV3 at h
  split at h
  · cases h
  · rename_i hnone
    simp only [Option.or_eq_none_iff, checkInt192_none, feeCheck_none] at hnone
    obtain ⟨⟨⟨⟨hb, hbid⟩, hask⟩, hl⟩, hn⟩ := hnone
    refine ⟨hb, hbid, hask, hl, hn, ?_⟩
    cases h
    simp only [List.append_assoc, List.append_nil]

theorem buildReportV3_err (feed : Bytes) (rf : V3Fields)
    (h : ¬ ((-((2 : Int) ^ 191) ≤ rf.benchmark ∧ rf.benchmark ≤ (2 : Int) ^ 191 - 1) ∧
      (-((2 : Int) ^ 191) ≤ rf.bid ∧ rf.bid ≤ (2 : Int) ^ 191 - 1) ∧
      (-((2 : Int) ^ 191) ≤ rf.ask ∧ rf.ask ≤ (2 : Int) ^ 191 - 1) ∧
      (0 ≤ rf.linkFee ∧ rf.linkFee < (2 : Int) ^ 192) ∧ (0 ≤ rf.nativeFee ∧ rf.nativeFee < (2 : Int) ^ 192))) :
    ∃ c, buildReportV3 feed rf = .err c := by
  unfold buildReportV3
  split
  · rename_i c _; exact ⟨c, rfl⟩
  · rename_i hnone
    simp only [Option.or_eq_none_iff, checkInt192_none, feeCheck_none] at hnone
    obtain ⟨⟨⟨⟨hb, hbid⟩, hask⟩, hl⟩, hn⟩ := hnone
    exact absurd ⟨hb, hbid, hask, hl, hn⟩ h

theorem abiDecodeV3_words (feed : Bytes) (hfeed : feed.length = 32) (vf ts ex : Nat) (nf lf bm bid ask : Int)
    (hvf : vf < 2 ^ 32) (hts : ts < 2 ^ 32) (hex : ex < 2 ^ 32)
    (hnf : 0 ≤ nf ∧ nf < (2 : Int) ^ 192) (hlf : 0 ≤ lf ∧ lf < (2 : Int) ^ 192)
    (hbm : -((2 : Int) ^ 191) ≤ bm ∧ bm ≤ (2 : Int) ^ 191 - 1)
    (hbid : -((2 : Int) ^ 191) ≤ bid ∧ bid ≤ (2 : Int) ^ 191 - 1)
    (hask : -((2 : Int) ^ 191) ≤ ask ∧ ask ≤ (2 : Int) ^ 191 - 1) :
    abiDecodeV3 (feed ++ (abiWord vf ++ (abiWord ts ++ (abiWord nf ++ (abiWord lf ++ (abiWord ex ++
      (abiWord bm ++ (abiWord bid ++ (abiWord ask ++ [])))))))))
    = some { feedID := feed, validFrom := vf, timestamp := ts, nativeFee := nf.toNat, linkFee := lf.toNat,
             expiresAt := ex, benchmark := bm, bid := bid, ask := ask } := by
  unfold abiDecodeV3
  rw [splitWords_cons _ _ _ hfeed]
  repeat rw [splitWords_cons _ _ _ (abiWord_length _)]
  rw [splitWords_nil]
  simp only [Option.map_some]
  rw [wordUint_abiWord_nat 32 (by omega) vf hvf, wordUint_abiWord_nat 32 (by omega) ts hts,
    wordUint_abiWord_nat 32 (by omega) ex hex,
    wordUint_abiWord 192 (by omega) nf hnf.1 hnf.2, wordUint_abiWord 192 (by omega) lf hlf.1 hlf.2,
    wordInt_abiWord 192 (by omega) (by omega) bm hbm.1 hbm.2,
    wordInt_abiWord 192 (by omega) (by omega) bid hbid.1 hbid.2,
    wordInt_abiWord 192 (by omega) (by omega) ask hask.1 hask.2]
  rfl


/-! ## inversion -/

theorem bind_eq_ok {α β} {x : GoRes α} {f : α → GoRes β} {b : β} (h : (x >>= f) = .ok b) :
    ∃ a, x = .ok a ∧ f a = .ok b := by
  cases x with
  | ok a => exact ⟨a, rfl, h⟩
  | err c => simp at h
  | panic => simp at h

theorem mulBigInt_panic (d : Dec) (m : Int) (h : ¬ decOk d) :
    (d.mul ⟨m, 0⟩ >>= fun p => (pure p.bigInt : GoRes Int)) = .panic := by
  unfold decOk at h
  unfold Dec.mul
  simp only [Int.add_zero]
  rw [if_pos (by omega)]
  rfl

theorem scaleBy_ok (d : Dec) (m x : Int) (h : scaleBy d m = .ok x) : x = specScaled d m ∧ decOk d := by
  by_cases hd : decOk d
  · rw [scaleBy_eq d m hd] at h; cases h; exact ⟨rfl, hd⟩
  · have : scaleBy d m = .panic := mulBigInt_panic d m hd
    rw [this] at h; cases h

theorem applyMultiplier_ok (e : Enc1) (d : Dec) (x : Int) (h : e.applyMultiplier d = .ok x) :
    x = specScaled d e.m ∧ decOk d := scaleBy_ok d _ x h

theorem applyMultiplier_panic (e : Enc1) (d : Dec) (h : ¬ decOk d) : e.applyMultiplier d = .panic :=
  mulBigInt_panic d _ h

theorem calculateFee_ok (price base : Dec) (n : Int) (h : calculateFee price base = .ok n) :
    n = specFee price base ∧ feeSafe price base := by
  by_cases hs : feeSafe price base
  · rw [calculateFee_eq price base hs] at h; cases h; exact ⟨rfl, hs⟩
  · rw [calculateFee_panic price base hs] at h; cases h

theorem extractPrice_fee (v : Option SV) (p base : Dec) (h : extractPrice v = .ok p) :
    specFee p base = specFeeOf v base ∧ (feeSafe p base ↔ feeSafeOf v base) := by
  unfold extractPrice at h
  split at h
  · cases h
    refine ⟨?_, ?_⟩
    · simp [specFee, specFeeOf]
    · simp [feeSafe, feeSafeOf]
  · cases h; exact ⟨rfl, Iff.rfl⟩
  · cases h; exact ⟨rfl, Iff.rfl⟩
  · cases h

theorem extractTimestamps_ok (r : Report) (vas ots : Nat) (h : extractTimestamps r = .ok (vas, ots)) :
    vas = r.validAfter / 1000000000 ∧ ots = r.obsTs / 1000000000 ∧ vas ≤ 4294967295 ∧ ots ≤ 4294967295 := by
  unfold extractTimestamps at h
  simp only [] at h
  split at h
  · cases h
  · split at h
    · cases h
    · cases h; omega


/-! ## premium legacy -/

theorem extractReportValues_ok (r : Report) (np lp bid bm ask : Dec)
    (h : extractReportValues r = .ok (np, lp, bid, bm, ask)) :
    ∃ v0 v1, r.values = [v0, v1, some (.quote bid bm ask)] ∧ extractPrice v0 = .ok np ∧ extractPrice v1 = .ok lp := by
  unfold extractReportValues at h
  split at h
  · rename_i v0 v1 v2 hv
    obtain ⟨a, ha, h⟩ := bind_eq_ok h
    obtain ⟨b, hb, h⟩ := bind_eq_ok h
    split at h
    · simp only [GoRes.pure_eq, GoRes.ok.injEq, Prod.mk.injEq] at h
      obtain ⟨rfl, rfl, rfl, rfl, rfl⟩ := h
      exact ⟨v0, v1, hv, ha, hb⟩
    · cases h
  · cases h

theorem encodePremium_ok (r : Report) (o : PremiumOpts) (bs : Bytes) (h : encodePremium r o = .ok bs) :
    r.specimen = false ∧ ∃ v0 v1 bid bm ask, r.values = [v0, v1, some (.quote bid bm ask)] ∧
      o.multiplier ≠ some 0 ∧
      r.validAfter / 1000000000 ≤ 4294967295 ∧ r.obsTs / 1000000000 ≤ 4294967295 ∧
      feeSafeOf v0 o.baseUSDFee ∧ feeSafeOf v1 o.baseUSDFee ∧ decOk bm ∧ decOk bid ∧ decOk ask ∧
      buildReportV3 o.feedID
        { validFrom := (r.validAfter / 1000000000 + 1) % 2 ^ 32, timestamp := r.obsTs / 1000000000,
          nativeFee := specFeeOf v0 o.baseUSDFee, linkFee := specFeeOf v1 o.baseUSDFee,
          expiresAt := (r.obsTs / 1000000000 + o.window) % 2 ^ 32,
          benchmark := specScaled bm (o.multiplier.getD 1), bid := specScaled bid (o.multiplier.getD 1),
          ask := specScaled ask (o.multiplier.getD 1) } = .ok bs := by
  unfold encodePremium at h
  split at h
  · cases h
  · rename_i hspec
    refine ⟨by simpa using hspec, ?_⟩
    obtain ⟨⟨np, lp, bid, bm, ask⟩, hv, h⟩ := bind_eq_ok h
    obtain ⟨v0, v1, hvals, hp0, hp1⟩ := extractReportValues_ok r np lp bid bm ask hv
    simp only [] at h
    obtain ⟨m, hm, h⟩ := bind_eq_ok h
    obtain ⟨⟨vas, ots⟩, hts, h⟩ := bind_eq_ok h
    obtain ⟨hvas, hots, hvas32, hots32⟩ := extractTimestamps_ok r vas ots hts
    simp only [] at h
    obtain ⟨nf, hnf, h⟩ := bind_eq_ok h
    obtain ⟨lf, hlf, h⟩ := bind_eq_ok h
    obtain ⟨b, hb, h⟩ := bind_eq_ok h
    obtain ⟨bi, hbi, h⟩ := bind_eq_ok h
    obtain ⟨as, has, h⟩ := bind_eq_ok h
    obtain ⟨rfl, hsn⟩ := calculateFee_ok _ _ _ hnf
    obtain ⟨rfl, hsl⟩ := calculateFee_ok _ _ _ hlf
    obtain ⟨rfl, hdb⟩ := scaleBy_ok _ _ _ hb
    obtain ⟨rfl, hdbi⟩ := scaleBy_ok _ _ _ hbi
    obtain ⟨rfl, hdas⟩ := scaleBy_ok _ _ _ has
    obtain ⟨e0, s0⟩ := extractPrice_fee v0 np o.baseUSDFee hp0
    obtain ⟨e1, s1⟩ := extractPrice_fee v1 lp o.baseUSDFee hp1
    have hmult : o.multiplier ≠ some 0 ∧ m = o.multiplier.getD 1 := by
      cases hmo : o.multiplier with
      | none => rw [hmo] at hm; cases hm; simp
      | some x =>
        rw [hmo] at hm
        simp only [] at hm
        split at hm
        · cases hm
        · cases hm; rename_i hx; exact ⟨by simpa using hx, rfl⟩
    refine ⟨v0, v1, bid, bm, ask, hvals, hmult.1, by omega, by omega, s0.mp hsn, s1.mp hsl, hdb, hdbi, hdas, ?_⟩
    rw [← e0, ← e1, ← hmult.2, ← hvas, ← hots]
    exact h


theorem bind_eq_panic {α β} {x : GoRes α} {f : α → GoRes β} (h : (x >>= f) = .panic) :
    x = .panic ∨ ∃ a, x = .ok a ∧ f a = .panic := by
  cases x with
  | ok a => exact Or.inr ⟨a, rfl, h⟩
  | err c => simp at h
  | panic => exact Or.inl rfl

theorem res_cases {α} (x : GoRes α) (hp : x ≠ .panic) (hok : ∀ a, x ≠ .ok a) : ∃ c, x = .err c := by
  cases x with
  | ok a => exact absurd rfl (hok a)
  | err c => exact ⟨c, rfl⟩
  | panic => exact absurd rfl hp

theorem extractPrice_not_panic (v : Option SV) : extractPrice v ≠ .panic := by
  unfold extractPrice; split <;> simp

theorem extractTimestamps_not_panic (r : Report) : extractTimestamps r ≠ .panic := by
  unfold extractTimestamps; simp only []; split
  · simp
  · split <;> simp

theorem buildReportV3_not_panic (f : Bytes) (rf : V3Fields) : buildReportV3 f rf ≠ .panic := by
  unfold buildReportV3; split <;> simp

theorem calculateFee_not_panic (p b : Dec) (h : feeSafe p b) : calculateFee p b ≠ .panic := by
  rw [calculateFee_eq p b h]; simp

theorem scaleBy_not_panic (d : Dec) (m : Int) (h : decOk d) : scaleBy d m ≠ .panic := by
  rw [scaleBy_eq d m h]; simp

theorem extractReportValues_not_panic (r : Report) : extractReportValues r ≠ .panic := by
  unfold extractReportValues
  split
  · intro h
    rcases bind_eq_panic h with h | ⟨a, _, h⟩
    · exact extractPrice_not_panic _ h
    · rcases bind_eq_panic h with h | ⟨b, _, h⟩
      · exact extractPrice_not_panic _ h
      · split at h <;> simp at h
  · simp

theorem encodePremium_not_panic (r : Report) (o : PremiumOpts) (hv : valuesOk r.values)
    (hf : ∀ v ∈ r.values.take 2, feeSafeOf v o.baseUSDFee) : encodePremium r o ≠ .panic := by
  intro h
  unfold encodePremium at h
  split at h
  · cases h
  · rcases bind_eq_panic h with h | ⟨⟨np, lp, bid, bm, ask⟩, hvals, h⟩
    · exact extractReportValues_not_panic r h
    · obtain ⟨v0, v1, hvs, hp0, hp1⟩ := extractReportValues_ok r np lp bid bm ask hvals
      have hq : svOk (.quote bid bm ask) := hv _ (by rw [hvs]; simp) _ rfl
      obtain ⟨hdbid, hdbm, hdask⟩ := hq
      have hs0 : feeSafe np o.baseUSDFee :=
        (extractPrice_fee v0 np _ hp0).2.mpr (hf v0 (by rw [hvs]; simp))
      have hs1 : feeSafe lp o.baseUSDFee :=
        (extractPrice_fee v1 lp _ hp1).2.mpr (hf v1 (by rw [hvs]; simp))
      simp only [] at h
      rcases bind_eq_panic h with h | ⟨m, _, h⟩
      · split at h
        · cases h
        · split at h <;> cases h
      · rcases bind_eq_panic h with h | ⟨⟨vas, ots⟩, _, h⟩
        · exact extractTimestamps_not_panic r h
        · simp only [] at h
          rcases bind_eq_panic h with h | ⟨nf, _, h⟩
          · exact calculateFee_not_panic _ _ hs0 h
          · rcases bind_eq_panic h with h | ⟨lf, _, h⟩
            · exact calculateFee_not_panic _ _ hs1 h
            · rcases bind_eq_panic h with h | ⟨b, _, h⟩
              · exact scaleBy_not_panic _ _ hdbm h
              · rcases bind_eq_panic h with h | ⟨bi, _, h⟩
                · exact scaleBy_not_panic _ _ hdbid h
                · rcases bind_eq_panic h with h | ⟨as, _, h⟩
                  · exact scaleBy_not_panic _ _ hdask h
                  · exact buildReportV3_not_panic _ _ h


/-! ## padded payload (ABI-encode-unpacked) -/

theorem parse_bits (ty : String) (s : Bool) (b : Nat) (hp : parseType ty = some (s, b)) :
    ∃ k, b = 8 * k ∧ 1 ≤ k ∧ k ≤ 32 :=
  C13.widths_mem (C13.parse_width _ s b hp)

theorem paddedT_packedT (v : Int) (ty : Option (Bool × Nat)) (bs : Bytes) (h : encodePaddedT v ty = .ok bs) :
    ∃ b, encodePackedT v ty = .ok b := by
  unfold encodePaddedT at h
  split at h
  · rename_i b hb; exact ⟨b, hb⟩
  · cases h
  · cases h

/-- a successfully padded value is one word that reads back, under its declared type, as the value -/
theorem encodePadded_word (v : Int) (ty : String) (s : Bool) (b : Nat) (hp : parseType ty = some (s, b))
    (bs : Bytes) (h : encodePadded v ty = .ok bs) :
    bs.length = 32 ∧ wordTyped (s, b) bs = some v ∧ C13.fits s b v := by
  obtain ⟨k, rfl, hk1, hk32⟩ := parse_bits ty s b hp
  unfold encodePadded at h
  rw [hp] at h
  obtain ⟨hlen, hval⟩ := C13.padded_sign_extension s k hk1 hk32 v bs h
  obtain ⟨pb, hpb⟩ := paddedT_packedT v _ bs h
  have hfits : C13.fits s (8 * k) v := (C13.packed_ok_iff_fits s (8 * k) v).mp ⟨pb, hpb⟩
  refine ⟨hlen, ?_, hfits⟩
  unfold wordTyped
  cases s
  · simp only [Bool.false_eq_true, if_false]
    simp only [C13.fits, Bool.false_eq_true, if_false] at hfits
    rw [wordUint_of (8 * k) (by omega) bs v hval hfits.1 hfits.2]
    simp [Int.toNat_of_nonneg hfits.1]
  · simp only [if_true]
    simp only [C13.fits, if_true] at hfits
    exact wordInt_of (8 * k) (by omega) (by omega) bs v hval hfits.1 hfits.2

theorem encodePadded_err (v : Int) (ty : String) (h : ¬ fitsTy (parseType ty) v) :
    ∃ c, encodePadded v ty = .err c := by
  unfold encodePadded
  cases hp : parseType ty with
  | none => exact ⟨_, rfl⟩
  | some p =>
    obtain ⟨s, b⟩ := p
    rw [hp] at h
    have he := C13.packed_err_of_not_fits s b v h
    unfold encodePaddedT
    rw [he]
    exact ⟨_, rfl⟩

theorem encodePadded_not_panic (v : Int) (ty : String) : encodePadded v ty ≠ .panic :=
  (C13.never_panics v (parseType ty)).2

theorem encodePacked_not_panic (v : Int) (ty : String) : encodePacked v ty ≠ .panic :=
  (C13.never_panics v (parseType ty)).1


/-- one encoder, one decimal: a word that decodes to the scaled value -/
theorem encodeDecPadded_ok (e : Enc1) (d : Dec) (bs : Bytes) (h : e.encodeDecPadded d = .ok bs) :
    ∃ s b, parseType e.ty = some (s, b) ∧ bs.length = 32 ∧ wordTyped (s, b) bs = some (specScaled d e.m) ∧
      C13.fits s b (specScaled d e.m) := by
  unfold Enc1.encodeDecPadded at h
  obtain ⟨x, hx, h⟩ := bind_eq_ok h
  obtain ⟨rfl, _⟩ := applyMultiplier_ok e d x hx
  cases hp : parseType e.ty with
  | none =>
    unfold encodePadded at h; rw [hp] at h; cases h
  | some p =>
    obtain ⟨s, b⟩ := p
    exact ⟨s, b, rfl, encodePadded_word _ _ s b hp bs h⟩

theorem encodeDecPadded_err (e : Enc1) (d : Dec) (hd : decOk d)
    (h : ¬ fitsTy (parseType e.ty) (specScaled d e.m)) : ∃ c, e.encodeDecPadded d = .err c := by
  unfold Enc1.encodeDecPadded
  rw [applyMultiplier_eq e d hd]
  exact encodePadded_err _ _ h

theorem encodeDecPadded_not_panic (e : Enc1) (d : Dec) (hd : decOk d) : e.encodeDecPadded d ≠ .panic := by
  unfold Enc1.encodeDecPadded
  rw [applyMultiplier_eq e d hd]
  exact encodePadded_not_panic _ _

theorem encodeUint64Padded_eq (e : Enc1) (t : Nat) : e.encodeUint64Padded t = e.encodeDecPadded ⟨t, 0⟩ := rfl

theorem fitsTy_some {ty : String} {s : Bool} {b : Nat} (hp : parseType ty = some (s, b)) (v : Int) :
    fitsTy (parseType ty) v ↔ C13.fits s b v := by rw [hp]; rfl

theorem decodePaddedFields_cons (ty : Bool × Nat) (rest : List (Option (Bool × Nat))) (w tail : Bytes)
    (hw : w.length = 32) (v : Int) (hv : wordTyped ty w = some v) :
    decodePaddedFields (some ty :: rest) (w ++ tail) =
      (decodePaddedFields rest tail).map (fun p => (v :: p.1, p.2)) := by
  simp only [decodePaddedFields]
  rw [if_neg (by simp [hw]), List.take_left' hw, List.drop_left' hw, hv]
  cases decodePaddedFields rest tail with
  | none => rfl
  | some p => rfl

/-- an element of the payload that encodes: it fits, and its words decode to the specification -/
theorem abiEncodePadded_ok (a : ABIEnc) (v : Option SV) (bs : Bytes) (h : a.encodePadded v = .ok bs) :
    fitsPadded a v ∧ ∀ tail, decodePaddedFields (a.encoders.map (fun e => parseType e.ty)) (bs ++ tail) =
      some (specPadded a v, tail) := by
  unfold ABIEnc.encodePadded at h
  split at h
  · -- decimal
    rename_i d
    split at h
    · rename_i e henc
      obtain ⟨s, b, hp, hlen, hw, hfit⟩ := encodeDecPadded_ok e d bs h
      refine ⟨?_, ?_⟩
      · simp only [fitsPadded, henc]; exact (fitsTy_some hp _).mpr hfit
      · intro tail
        simp only [henc, List.map, hp, specPadded]
        rw [decodePaddedFields_cons (s, b) [] bs tail hlen _ hw]
        rfl
    · cases h
  · -- timestamped
    rename_i t inner
    split at h
    · rename_i e0 e1 henc
      obtain ⟨ts, hts, h⟩ := bind_eq_ok h
      rw [encodeUint64Padded_eq] at hts
      obtain ⟨s0, b0, hp0, hlen0, hw0, hfit0⟩ := encodeDecPadded_ok e0 _ ts hts
      cases inner with
      | dec d =>
        simp only [] at h
        obtain ⟨vb, hvb, h⟩ := bind_eq_ok h
        obtain ⟨s1, b1, hp1, hlen1, hw1, hfit1⟩ := encodeDecPadded_ok e1 d vb hvb
        cases h
        refine ⟨?_, ?_⟩
        · simp only [fitsPadded, henc]
          exact ⟨(fitsTy_some hp0 _).mpr hfit0, (fitsTy_some hp1 _).mpr hfit1⟩
        · intro tail
          simp only [henc, List.map, hp0, hp1, specPadded, List.append_assoc]
          rw [decodePaddedFields_cons (s0, b0) _ ts _ hlen0 _ hw0,
              decodePaddedFields_cons (s1, b1) [] vb tail hlen1 _ hw1]
          rfl
      | quote _ _ _ => cases h
      | tsv _ _ => cases h
    · cases h
  · cases h


theorem abiEncodePadded_not_panic (a : ABIEnc) (v : Option SV) (hv : ∀ sv, v = some sv → svOk sv) :
    a.encodePadded v ≠ .panic := by
  intro h
  unfold ABIEnc.encodePadded at h
  split at h
  · rename_i d
    have hd : decOk d := hv _ rfl
    split at h
    · exact encodeDecPadded_not_panic _ d hd h
    · cases h
  · rename_i t inner
    have hi : svOk inner := hv (.tsv t inner) rfl
    split at h
    · rename_i e0 e1 _
      rcases bind_eq_panic h with h | ⟨ts, _, h⟩
      · exact encodeDecPadded_not_panic e0 ⟨t, 0⟩ (decOk_nat t) h
      · cases inner with
        | dec d =>
          simp only [] at h
          rcases bind_eq_panic h with h | ⟨vb, _, h⟩
          · exact encodeDecPadded_not_panic e1 d hi h
          · cases h
        | quote _ _ _ => cases h
        | tsv _ _ => cases h
    · cases h
  · cases h

theorem abiEncodePadded_err (a : ABIEnc) (v : Option SV) (hv : ∀ sv, v = some sv → svOk sv)
    (h : ¬ fitsPadded a v) : ∃ c, a.encodePadded v = .err c :=
  res_cases _ (abiEncodePadded_not_panic a v hv) (fun bs hbs => h (abiEncodePadded_ok a v bs hbs).1)

/-- the payload loop: success means every element fits and the words decode to the specification -/
theorem buildPayloadLoop_ok (l : List (ABIEnc × Option SV)) (bs : Bytes) (h : buildPayloadLoop l = .ok bs) :
    (∀ p ∈ l, fitsPadded p.1 p.2) ∧
    decodePaddedValues (l.map (fun p => p.1.encoders.map (fun e => parseType e.ty))) bs =
      some (l.map (fun p => specPadded p.1 p.2)) := by
  induction l generalizing bs with
  | nil =>
    simp only [buildPayloadLoop] at h
    cases h
    exact ⟨by simp, rfl⟩
  | cons p rest ih =>
    obtain ⟨a, v⟩ := p
    simp only [buildPayloadLoop] at h
    split at h
    · cases h
    · rename_i b hb
      split at h
      · rename_i bs' hrest
        cases h
        obtain ⟨hf, hdec⟩ := ih bs' hrest
        obtain ⟨hfa, hda⟩ := abiEncodePadded_ok a v b hb
        refine ⟨?_, ?_⟩
        · intro p hp
          rcases List.mem_cons.mp hp with rfl | hp
          · exact hfa
          · exact hf p hp
        · simp only [List.map, decodePaddedValues]
          rw [hda bs']
          simp only [Option.bind_eq_bind, Option.bind_some]
          rw [hdec]
          rfl
      · cases h
      · cases h
    · split at h <;> cases h

theorem buildPayloadLoop_not_panic (l : List (ABIEnc × Option SV))
    (hv : ∀ p ∈ l, ∀ sv, p.2 = some sv → svOk sv) : buildPayloadLoop l ≠ .panic := by
  induction l with
  | nil => simp [buildPayloadLoop]
  | cons p rest ih =>
    obtain ⟨a, v⟩ := p
    have ih' := ih (fun p hp => hv p (List.mem_cons_of_mem _ hp))
    have hp := abiEncodePadded_not_panic a v (hv (a, v) (List.mem_cons_self ..))
    simp only [buildPayloadLoop]
    cases hb : a.encodePadded v with
    | panic => exact absurd hb hp
    | ok b =>
      cases hr : buildPayloadLoop rest with
      | panic => exact absurd hr ih'
      | ok _ => simp
      | err _ => simp
    | err c =>
      cases hr : buildPayloadLoop rest with
      | panic => exact absurd hr ih'
      | ok _ => simp
      | err _ => simp

theorem buildPayloadLoop_err (l : List (ABIEnc × Option SV))
    (hv : ∀ p ∈ l, ∀ sv, p.2 = some sv → svOk sv) (h : ¬ ∀ p ∈ l, fitsPadded p.1 p.2) :
    ∃ c, buildPayloadLoop l = .err c :=
  res_cases _ (buildPayloadLoop_not_panic l hv) (fun bs hbs => h (buildPayloadLoop_ok l bs hbs).1)


theorem buildHeader_ok (rf : BaseFields) (bs : Bytes) (h : buildHeader rf = .ok bs) :
    (0 ≤ rf.linkFee ∧ rf.linkFee < (2 : Int) ^ 192) ∧ (0 ≤ rf.nativeFee ∧ rf.nativeFee < (2 : Int) ^ 192) ∧
    bs = rf.feedID ++ (abiWord rf.validFrom ++ (abiWord rf.timestamp ++ (abiWord rf.nativeFee ++
          (abiWord rf.linkFee ++ (abiWord rf.expiresAt ++ []))))) := by
  unfold buildHeader at h
  split at h
  · cases h
  · rename_i hnone
    simp only [Option.or_eq_none_iff, feeCheck_none] at hnone
    refine ⟨hnone.1, hnone.2, ?_⟩
    cases h
    simp only [List.append_assoc, List.append_nil]

theorem buildHeader_err (rf : BaseFields)
    (h : ¬ ((0 ≤ rf.linkFee ∧ rf.linkFee < (2 : Int) ^ 192) ∧ (0 ≤ rf.nativeFee ∧ rf.nativeFee < (2 : Int) ^ 192))) :
    ∃ c, buildHeader rf = .err c := by
  unfold buildHeader
  split
  · rename_i c _; exact ⟨c, rfl⟩
  · rename_i hnone
    simp only [Option.or_eq_none_iff, feeCheck_none] at hnone
    exact absurd hnone h

theorem buildHeader_not_panic (rf : BaseFields) : buildHeader rf ≠ .panic := by
  unfold buildHeader; split <;> simp

theorem abiDecodeUnpacked_words (feed : Bytes) (hfeed : feed.length = 32) (vf ts ex : Nat) (nf lf : Int)
    (hvf : vf < 2 ^ 32) (hts : ts < 2 ^ 32) (hex : ex < 2 ^ 32)
    (hnf : 0 ≤ nf ∧ nf < (2 : Int) ^ 192) (hlf : 0 ≤ lf ∧ lf < (2 : Int) ^ 192)
    (layout : List (List (Option (Bool × Nat)))) (payload : Bytes) (vals : List (List Int))
    (hp : decodePaddedValues layout payload = some vals) :
    abiDecodeUnpacked layout
      ((feed ++ (abiWord vf ++ (abiWord ts ++ (abiWord nf ++ (abiWord lf ++ (abiWord ex ++ [])))))) ++ payload)
    = some { feedID := feed, validFrom := vf, timestamp := ts, nativeFee := nf.toNat, linkFee := lf.toNat,
             expiresAt := ex, values := vals } := by
  have hlen : (feed ++ (abiWord vf ++ (abiWord ts ++ (abiWord nf ++ (abiWord lf ++ (abiWord ex ++ [])))))).length
      = 192 := by
    simp [hfeed, abiWord_length]
  unfold abiDecodeUnpacked
  rw [if_neg (by rw [List.length_append, hlen]; omega), List.take_left' hlen, List.drop_left' hlen]
  rw [splitWords_cons _ _ _ hfeed]
  repeat rw [splitWords_cons _ _ _ (abiWord_length _)]
  rw [splitWords_nil]
  simp only [Option.map_some]
  rw [wordUint_abiWord_nat 32 (by omega) vf hvf, wordUint_abiWord_nat 32 (by omega) ts hts,
    wordUint_abiWord_nat 32 (by omega) ex hex,
    wordUint_abiWord 192 (by omega) nf hnf.1 hnf.2, wordUint_abiWord 192 (by omega) lf hlf.1 hlf.2, hp]
  rfl


theorem buildPayload_ok (abi : List ABIEnc) (vals : List (Option SV)) (bs : Bytes)
    (h : buildPayload abi vals = .ok bs) :
    abi.length = vals.length ∧ (∀ p ∈ abi.zip vals, fitsPadded p.1 p.2) ∧
    decodePaddedValues (unpackedLayout abi) bs = some ((abi.zip vals).map (fun p => specPadded p.1 p.2)) := by
  unfold buildPayload at h
  split at h
  · cases h
  · rename_i hlen
    have hlen' : abi.length = vals.length := by omega
    obtain ⟨hf, hd⟩ := buildPayloadLoop_ok _ bs h
    refine ⟨hlen', hf, ?_⟩
    have : (abi.zip vals).map (fun p => p.1.encoders.map (fun e => parseType e.ty)) = unpackedLayout abi := by
      have h1 := congrArg (List.map (fun (a : ABIEnc) => a.encoders.map (fun e => parseType e.ty)))
        (List.map_fst_zip (l₁ := abi) (l₂ := vals) (by omega))
      rw [List.map_map] at h1
      exact h1
    rw [← this]; exact hd

theorem buildPayload_not_panic (abi : List ABIEnc) (vals : List (Option SV)) (hv : valuesOk vals) :
    buildPayload abi vals ≠ .panic := by
  unfold buildPayload
  split
  · simp
  · apply buildPayloadLoop_not_panic
    intro p hp sv hsv
    exact hv p.2 (List.of_mem_zip hp).2 sv hsv

theorem buildPayload_err (abi : List ABIEnc) (vals : List (Option SV)) (hv : valuesOk vals)
    (h : ¬ (abi.length = vals.length ∧ ∀ p ∈ abi.zip vals, fitsPadded p.1 p.2)) :
    ∃ c, buildPayload abi vals = .err c :=
  res_cases _ (buildPayload_not_panic abi vals hv)
    (fun bs hbs => h ⟨(buildPayload_ok abi vals bs hbs).1, (buildPayload_ok abi vals bs hbs).2.1⟩)

theorem encodeUnpacked_ok (r : Report) (o : UnpackedOpts) (bs : Bytes) (h : encodeUnpacked r o = .ok bs) :
    r.specimen = false ∧ ∃ v0 v1 rest, r.values = v0 :: v1 :: rest ∧
      r.validAfter / 1000000000 ≤ 4294967295 ∧ r.obsTs / 1000000000 ≤ 4294967295 ∧
      feeSafeOf v0 o.baseUSDFee ∧ feeSafeOf v1 o.baseUSDFee ∧
      ∃ header payload, bs = header ++ payload ∧
      buildHeader
        { feedID := o.feedID, validFrom := (r.validAfter / 1000000000 + 1) % 2 ^ 32,
          timestamp := r.obsTs / 1000000000,
          nativeFee := specFeeOf v0 o.baseUSDFee, linkFee := specFeeOf v1 o.baseUSDFee,
          expiresAt := (r.obsTs / 1000000000 + o.window) % 2 ^ 32 } = .ok header ∧
      buildPayload o.abi rest = .ok payload := by
  unfold encodeUnpacked at h
  split at h
  · cases h
  · rename_i hspec
    refine ⟨by simpa using hspec, ?_⟩
    split at h
    · rename_i v0 v1 rest hvals
      obtain ⟨np, hp0, h⟩ := bind_eq_ok h
      obtain ⟨lp, hp1, h⟩ := bind_eq_ok h
      obtain ⟨⟨vas, ots⟩, hts, h⟩ := bind_eq_ok h
      obtain ⟨hvas, hots, hvas32, hots32⟩ := extractTimestamps_ok r vas ots hts
      simp only [] at h
      obtain ⟨nf, hnf, h⟩ := bind_eq_ok h
      obtain ⟨lf, hlf, h⟩ := bind_eq_ok h
      obtain ⟨header, hh, h⟩ := bind_eq_ok h
      obtain ⟨payload, hpl, hfin⟩ := bind_eq_ok h
      obtain ⟨rfl, hsn⟩ := calculateFee_ok _ _ _ hnf
      obtain ⟨rfl, hsl⟩ := calculateFee_ok _ _ _ hlf
      obtain ⟨e0, s0⟩ := extractPrice_fee v0 np o.baseUSDFee hp0
      obtain ⟨e1, s1⟩ := extractPrice_fee v1 lp o.baseUSDFee hp1
      simp only [GoRes.pure_eq, GoRes.ok.injEq] at hfin
      refine ⟨v0, v1, rest, hvals, by omega, by omega, s0.mp hsn, s1.mp hsl, header, payload, hfin.symm, ?_, hpl⟩
      rw [← e0, ← e1, ← hvas, ← hots]
      exact hh
    · cases h

theorem encodeUnpacked_not_panic (r : Report) (o : UnpackedOpts) (hv : valuesOk r.values)
    (hf : ∀ v ∈ r.values.take 2, feeSafeOf v o.baseUSDFee) : encodeUnpacked r o ≠ .panic := by
  intro h
  unfold encodeUnpacked at h
  split at h
  · cases h
  · split at h
    · rename_i v0 v1 rest hvals
      rcases bind_eq_panic h with h | ⟨np, hp0, h⟩
      · exact extractPrice_not_panic _ h
      · rcases bind_eq_panic h with h | ⟨lp, hp1, h⟩
        · exact extractPrice_not_panic _ h
        · have hs0 : feeSafe np o.baseUSDFee :=
            (extractPrice_fee v0 np _ hp0).2.mpr (hf v0 (by rw [hvals]; simp))
          have hs1 : feeSafe lp o.baseUSDFee :=
            (extractPrice_fee v1 lp _ hp1).2.mpr (hf v1 (by rw [hvals]; simp))
          rcases bind_eq_panic h with h | ⟨⟨vas, ots⟩, _, h⟩
          · exact extractTimestamps_not_panic r h
          · simp only [] at h
            rcases bind_eq_panic h with h | ⟨nf, _, h⟩
            · exact calculateFee_not_panic _ _ hs0 h
            · rcases bind_eq_panic h with h | ⟨lf, _, h⟩
              · exact calculateFee_not_panic _ _ hs1 h
              · rcases bind_eq_panic h with h | ⟨hd, _, h⟩
                · exact buildHeader_not_panic _ h
                · rcases bind_eq_panic h with h | ⟨pl, _, h⟩
                  · refine buildPayload_not_panic o.abi rest ?_ h
                    intro v hvm sv hsv
                    exact hv v (by rw [hvals]; simp [hvm]) sv hsv
                  · cases h
    · cases h


/-! ## packed payload (streamlined) -/

/-- common shape of `encodeUint64Packed` and of `encodePacked` on a decimal -/
def Enc1.packField (e : Enc1) (x : Dec) : GoRes Bytes :=
  if e.ty = zeroBytesSentinel then .ok []
  else do
    let v ← e.applyMultiplier x
    encodePacked v e.ty

theorem encodeUint64Packed_eq (e : Enc1) (t : Nat) : e.encodeUint64Packed t = e.packField ⟨t, 0⟩ := rfl

theorem encodePackedSV_dec (e : Enc1) (d : Dec) : e.encodePackedSV (some (.dec d)) = e.packField d := by
  unfold Enc1.encodePackedSV Enc1.packField
  split <;> rfl

theorem encodePacked_bytes (v : Int) (ty : String) (s : Bool) (b : Nat) (hp : parseType ty = some (s, b))
    (bs : Bytes) (h : encodePacked v ty = .ok bs) :
    bs.length = b / 8 ∧ (if s then toSigned b (fromBE bs) else ((fromBE bs : Nat) : Int)) = v ∧ C13.fits s b v := by
  obtain ⟨k, rfl, hk1, hk32⟩ := parse_bits ty s b hp
  unfold encodePacked at h
  rw [hp] at h
  obtain ⟨hlen, _, hval⟩ := C13.packed_bytes s k hk1 v bs h
  have hfits : C13.fits s (8 * k) v := (C13.packed_ok_iff_fits s (8 * k) v).mp ⟨bs, h⟩
  exact ⟨by omega, hval, hfits⟩

theorem encodePacked_err (v : Int) (ty : String) (h : ¬ fitsTy (parseType ty) v) :
    ∃ c, encodePacked v ty = .err c := by
  unfold encodePacked
  cases hp : parseType ty with
  | none => exact ⟨_, rfl⟩
  | some p =>
    obtain ⟨s, b⟩ := p
    rw [hp] at h
    exact ⟨_, C13.packed_err_of_not_fits s b v h⟩

theorem fieldTy_sentinel (e : Enc1) (h : e.ty = zeroBytesSentinel) : e.fieldTy = .empty := by
  unfold Enc1.fieldTy; rw [if_pos h]

theorem fieldTy_int (e : Enc1) (h : ¬ e.ty = zeroBytesSentinel) (s : Bool) (b : Nat)
    (hp : parseType e.ty = some (s, b)) : e.fieldTy = .int s b := by
  unfold Enc1.fieldTy; rw [if_neg h, hp]

theorem packField_ok (e : Enc1) (x : Dec) (bs : Bytes) (h : e.packField x = .ok bs) :
    fitsPackedField e x ∧ ∀ restTys tail, decodePackedFields (e.fieldTy :: restTys) (bs ++ tail) =
      (decodePackedFields restTys tail).map (fun p => (specPackedField e x :: p.1, p.2)) := by
  unfold Enc1.packField at h
  by_cases hs : e.ty = zeroBytesSentinel
  · rw [if_pos hs] at h
    cases h
    refine ⟨Or.inl hs, ?_⟩
    intro restTys tail
    rw [fieldTy_sentinel e hs]
    simp only [decodePackedFields, specPackedField, if_pos hs, List.nil_append]
    cases decodePackedFields restTys tail <;> rfl
  · rw [if_neg hs] at h
    obtain ⟨v, hv, h⟩ := bind_eq_ok h
    obtain ⟨rfl, _⟩ := applyMultiplier_ok e x v hv
    cases hp : parseType e.ty with
    | none => unfold encodePacked at h; rw [hp] at h; cases h
    | some p =>
      obtain ⟨s, b⟩ := p
      obtain ⟨hlen, hval, hfit⟩ := encodePacked_bytes _ _ s b hp bs h
      refine ⟨Or.inr ((fitsTy_some hp _).mpr hfit), ?_⟩
      intro restTys tail
      rw [fieldTy_int e hs s b hp]
      simp only [decodePackedFields, specPackedField, if_neg hs]
      rw [if_neg (by simp [hlen]), List.take_left' hlen, List.drop_left' hlen, hval]
      cases decodePackedFields restTys tail <;> rfl

theorem packField_not_panic (e : Enc1) (x : Dec) (hx : decOk x) : e.packField x ≠ .panic := by
  unfold Enc1.packField
  split
  · simp
  · rw [applyMultiplier_eq e x hx]; exact encodePacked_not_panic _ _

theorem packField_err (e : Enc1) (x : Dec) (hx : decOk x) (h : ¬ fitsPackedField e x) :
    ∃ c, e.packField x = .err c :=
  res_cases _ (packField_not_panic e x hx) (fun bs hbs => h (packField_ok e x bs hbs).1)


theorem packInner_ok (e : Enc1) (inner : SV) (bs : Bytes) (h : e.encodePackedSV (some inner) = .ok bs) :
    fitsPackedInner e inner ∧ ∀ restTys tail, decodePackedFields (e.fieldTy :: restTys) (bs ++ tail) =
      (decodePackedFields restTys tail).map (fun p => (specPackedInner e inner :: p.1, p.2)) := by
  cases inner with
  | dec d =>
    rw [encodePackedSV_dec] at h
    obtain ⟨hf, hd⟩ := packField_ok e d bs h
    refine ⟨?_, ?_⟩
    · rcases hf with hf | hf
      · exact Or.inl hf
      · exact Or.inr hf
    · intro restTys tail
      rw [hd restTys tail]
      simp only [specPackedField, specPackedInner]
  | quote a b c =>
    unfold Enc1.encodePackedSV at h
    by_cases hs : e.ty = zeroBytesSentinel
    · rw [if_pos hs] at h; cases h
      refine ⟨Or.inl hs, ?_⟩
      intro restTys tail
      rw [fieldTy_sentinel e hs]
      simp only [decodePackedFields, specPackedInner, if_pos hs, List.nil_append]
      cases decodePackedFields restTys tail <;> rfl
    · rw [if_neg hs] at h; cases h
  | tsv t i =>
    unfold Enc1.encodePackedSV at h
    by_cases hs : e.ty = zeroBytesSentinel
    · rw [if_pos hs] at h; cases h
      refine ⟨Or.inl hs, ?_⟩
      intro restTys tail
      rw [fieldTy_sentinel e hs]
      simp only [decodePackedFields, specPackedInner, if_pos hs, List.nil_append]
      cases decodePackedFields restTys tail <;> rfl
    · rw [if_neg hs] at h; cases h

theorem packInner_not_panic (e : Enc1) (inner : SV) (hi : svOk inner) :
    e.encodePackedSV (some inner) ≠ .panic := by
  cases inner with
  | dec d => rw [encodePackedSV_dec]; exact packField_not_panic e d hi
  | quote a b c => unfold Enc1.encodePackedSV; split <;> simp
  | tsv t i => unfold Enc1.encodePackedSV; split <;> simp

/-- an element of the streamlined payload that encodes: it fits, and its bytes decode to the specification -/
theorem abiEncodePacked_ok (a : ABIEnc) (v : Option SV) (bs : Bytes) (h : a.encodePacked v = .ok bs) :
    fitsPacked a v ∧ ∀ tail, decodePackedFields (a.encoders.map Enc1.fieldTy) (bs ++ tail) =
      some (specPacked a v, tail) := by
  unfold ABIEnc.encodePacked at h
  split at h
  · rename_i d
    split at h
    · rename_i e henc
      rw [encodePackedSV_dec] at h
      obtain ⟨hf, hd⟩ := packField_ok e d bs h
      refine ⟨by simpa only [fitsPacked, henc] using hf, ?_⟩
      intro tail
      simp only [henc, List.map, specPacked]
      rw [hd [] tail]
      rfl
    · cases h
  · rename_i t inner
    split at h
    · rename_i e0 e1 henc
      obtain ⟨ts, hts, h⟩ := bind_eq_ok h
      obtain ⟨vb, hvb, h⟩ := bind_eq_ok h
      rw [encodeUint64Packed_eq] at hts
      obtain ⟨hf0, hd0⟩ := packField_ok e0 _ ts hts
      obtain ⟨hf1, hd1⟩ := packInner_ok e1 inner vb hvb
      cases h
      refine ⟨by simp only [fitsPacked, henc]; exact ⟨hf0, hf1⟩, ?_⟩
      intro tail
      simp only [henc, List.map, specPacked, List.append_assoc]
      rw [hd0, hd1 [] tail]
      rfl
    · cases h
  · cases h

theorem abiEncodePacked_not_panic (a : ABIEnc) (v : Option SV) (hv : ∀ sv, v = some sv → svOk sv) :
    a.encodePacked v ≠ .panic := by
  intro h
  unfold ABIEnc.encodePacked at h
  split at h
  · rename_i d
    have hd : decOk d := hv _ rfl
    split at h
    · rw [encodePackedSV_dec] at h; exact packField_not_panic _ d hd h
    · cases h
  · rename_i t inner
    have hi : svOk inner := hv (.tsv t inner) rfl
    split at h
    · rename_i e0 e1 _
      rcases bind_eq_panic h with h | ⟨ts, _, h⟩
      · rw [encodeUint64Packed_eq] at h; exact packField_not_panic e0 ⟨t, 0⟩ (decOk_nat t) h
      · rcases bind_eq_panic h with h | ⟨vb, _, h⟩
        · exact packInner_not_panic e1 inner hi h
        · cases h
    · cases h
  · cases h

theorem abiEncodePacked_err (a : ABIEnc) (v : Option SV) (hv : ∀ sv, v = some sv → svOk sv)
    (h : ¬ fitsPacked a v) : ∃ c, a.encodePacked v = .err c :=
  res_cases _ (abiEncodePacked_not_panic a v hv) (fun bs hbs => h (abiEncodePacked_ok a v bs hbs).1)

theorem packValues_ok (l : List (ABIEnc × Option SV)) (bs : Bytes) (h : packValues l = .ok bs) :
    (∀ p ∈ l, fitsPacked p.1 p.2) ∧
    decodePackedValues (l.map (fun p => p.1.encoders.map Enc1.fieldTy)) bs =
      some (l.map (fun p => specPacked p.1 p.2)) := by
  induction l generalizing bs with
  | nil =>
    simp only [packValues] at h
    cases h
    exact ⟨by simp, rfl⟩
  | cons p rest ih =>
    obtain ⟨a, v⟩ := p
    simp only [packValues] at h
    obtain ⟨b, hb, h⟩ := bind_eq_ok h
    obtain ⟨bs', hrest, h⟩ := bind_eq_ok h
    cases h
    obtain ⟨hf, hdec⟩ := ih bs' hrest
    obtain ⟨hfa, hda⟩ := abiEncodePacked_ok a v b hb
    refine ⟨?_, ?_⟩
    · intro p hp
      rcases List.mem_cons.mp hp with rfl | hp
      · exact hfa
      · exact hf p hp
    · simp only [List.map, decodePackedValues]
      rw [hda bs']
      simp only [Option.bind_eq_bind, Option.bind_some]
      rw [hdec]
      rfl

theorem packValues_not_panic (l : List (ABIEnc × Option SV))
    (hv : ∀ p ∈ l, ∀ sv, p.2 = some sv → svOk sv) : packValues l ≠ .panic := by
  induction l with
  | nil => simp [packValues]
  | cons p rest ih =>
    obtain ⟨a, v⟩ := p
    have ih' := ih (fun p hp => hv p (List.mem_cons_of_mem _ hp))
    have hp := abiEncodePacked_not_panic a v (hv (a, v) (List.mem_cons_self ..))
    intro h
    simp only [packValues] at h
    rcases bind_eq_panic h with h | ⟨b, _, h⟩
    · exact hp h
    · rcases bind_eq_panic h with h | ⟨bs', _, h⟩
      · exact ih' h
      · cases h


theorem encodeStreamlined_ok (r : Report) (format : Nat) (o : StreamlinedOpts) (bs : Bytes)
    (h : encodeStreamlined r format o = .ok bs) :
    o.abi.length = r.values.length ∧ (∀ p ∈ o.abi.zip r.values, fitsPacked p.1 p.2) ∧
    ∃ payload, bs = streamlinedHeader r format o ++ payload ∧
      decodePackedValues (streamlinedLayout o.abi) payload =
        some ((o.abi.zip r.values).map (fun p => specPacked p.1 p.2)) := by
  unfold encodeStreamlined at h
  split at h
  · cases h
  · rename_i hlen
    have hlen' : o.abi.length = r.values.length := by omega
    obtain ⟨payload, hp, hfin⟩ := bind_eq_ok h
    obtain ⟨hf, hd⟩ := packValues_ok _ payload hp
    simp only [GoRes.pure_eq, GoRes.ok.injEq] at hfin
    refine ⟨hlen', hf, payload, hfin.symm, ?_⟩
    have : (o.abi.zip r.values).map (fun p => p.1.encoders.map Enc1.fieldTy) = streamlinedLayout o.abi := by
      have h1 := congrArg (List.map (fun (a : ABIEnc) => a.encoders.map Enc1.fieldTy))
        (List.map_fst_zip (l₁ := o.abi) (l₂ := r.values) (by omega))
      rw [List.map_map] at h1
      exact h1
    rw [← this]; exact hd

theorem encodeStreamlined_not_panic (r : Report) (format : Nat) (o : StreamlinedOpts) (hv : valuesOk r.values) :
    encodeStreamlined r format o ≠ .panic := by
  intro h
  unfold encodeStreamlined at h
  split at h
  · cases h
  · rcases bind_eq_panic h with h | ⟨p, _, h⟩
    · refine packValues_not_panic _ ?_ h
      intro p hp sv hsv
      exact hv p.2 (List.of_mem_zip hp).2 sv hsv
    · cases h

theorem fromBE_beBytes_lt (len n : Nat) (h : n < 2 ^ (8 * len)) : fromBE (beBytes len n) = n := by
  rw [fromBE_beBytes, pow256, Nat.mod_eq_of_lt h]

theorem abiDecodeStreamlined_feed (f : Bytes) (hf : f.length = 32) (va : Nat) (hva : va < 2 ^ 64)
    (layout : List (List FieldTy)) (payload : Bytes) (vals : List (List (Option Int)))
    (hp : decodePackedValues layout payload = some vals) :
    abiDecodeStreamlined true layout ((f ++ beBytes 8 va) ++ payload) =
      some { feedID := some f, formatChannel := none, validAfter := va, values := vals } := by
  have hl : (f ++ beBytes 8 va).length = 32 + 8 := by simp [hf, beBytes_length]
  unfold abiDecodeStreamlined
  simp only [if_true]
  rw [if_neg (by rw [List.length_append, hl]; omega), List.drop_left' hl, hp]
  simp only [Option.bind_eq_bind, Option.bind_some]
  rw [List.append_assoc, List.take_left' hf, List.drop_left' hf,
    List.take_left' (beBytes_length 8 va), fromBE_beBytes_lt 8 va (by simpa using hva)]
  rfl

theorem abiDecodeStreamlined_chan (format ch : Nat) (hfmt : format < 2 ^ 32) (hch : ch < 2 ^ 32)
    (va : Nat) (hva : va < 2 ^ 64)
    (layout : List (List FieldTy)) (payload : Bytes) (vals : List (List (Option Int)))
    (hp : decodePackedValues layout payload = some vals) :
    abiDecodeStreamlined false layout (((beBytes 4 format ++ beBytes 4 ch) ++ beBytes 8 va) ++ payload) =
      some { feedID := none, formatChannel := some (format, ch), validAfter := va, values := vals } := by
  have hl : ((beBytes 4 format ++ beBytes 4 ch) ++ beBytes 8 va).length = 8 + 8 := by simp [beBytes_length]
  have hl8 : (beBytes 4 format ++ beBytes 4 ch).length = 8 := by simp [beBytes_length]
  unfold abiDecodeStreamlined
  simp only [Bool.false_eq_true, if_false]
  rw [if_neg (by rw [List.length_append, hl]; omega), List.drop_left' hl, hp]
  simp only [Option.bind_eq_bind, Option.bind_some]
  have e1 : ((beBytes 4 format ++ beBytes 4 ch) ++ beBytes 8 va) ++ payload =
      (beBytes 4 format ++ beBytes 4 ch) ++ (beBytes 8 va ++ payload) := by simp only [List.append_assoc]
  have e2 : ((beBytes 4 format ++ beBytes 4 ch) ++ beBytes 8 va) ++ payload =
      beBytes 4 format ++ (beBytes 4 ch ++ (beBytes 8 va ++ payload)) := by simp only [List.append_assoc]
  rw [show List.drop 8 (((beBytes 4 format ++ beBytes 4 ch) ++ beBytes 8 va) ++ payload) = beBytes 8 va ++ payload
        from by rw [e1]; exact List.drop_left' hl8,
      List.take_left' (beBytes_length 8 va),
      show List.take 4 (((beBytes 4 format ++ beBytes 4 ch) ++ beBytes 8 va) ++ payload) = beBytes 4 format
        from by rw [e2]; exact List.take_left' (beBytes_length 4 format),
      show List.drop 4 (((beBytes 4 format ++ beBytes 4 ch) ++ beBytes 8 va) ++ payload) =
          beBytes 4 ch ++ (beBytes 8 va ++ payload)
        from by rw [e2]; exact List.drop_left' (beBytes_length 4 format),
      List.take_left' (beBytes_length 4 ch),
      fromBE_beBytes_lt 8 va (by simpa using hva), fromBE_beBytes_lt 4 format (by simpa using hfmt),
      fromBE_beBytes_lt 4 ch (by simpa using hch)]
  rfl


end DSV.EVM
