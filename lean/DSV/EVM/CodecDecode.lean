import DSV.EVM.Codec
/-!
# Readers for the declared layouts of the three EVM report formats

These are *strict* readers written against the Solidity ABI specification, not against the
encoder: a word whose value is outside its declared type (`uint32`, `uint192`, `int192`, `intN`)
does not decode.  They are the `abiDecode` of property C12 (re-exported in `DSV.Props.C12`) and
are also run by the model driver on every successfully encoded report, next to the independent
reader of the Go harness.
-/
namespace DSV.EVM
open DSV

/-- exactly `n` 32-byte words -/
def splitWords : Nat → Bytes → Option (List Bytes)
  | 0, bs => if bs.isEmpty then some [] else none
  | n + 1, bs =>
    if bs.length < 32 then none
    else (splitWords n (bs.drop 32)).map (fun ws => bs.take 32 :: ws)

/-- a `uint<bits>` in a 32-byte word: the high bits must be clear -/
def wordUint (bits : Nat) (w : Bytes) : Option Nat :=
  if fromBE w < 2 ^ bits then some (fromBE w) else none

/-- an `int<bits>` in a 32-byte word: the 256-bit two's complement value must lie in the type's range -/
def wordInt (bits : Nat) (w : Bytes) : Option Int :=
  let v := toSigned 256 (fromBE w)
  if -((2 : Int) ^ (bits - 1)) ≤ v ∧ v ≤ (2 : Int) ^ (bits - 1) - 1 then some v else none

/-- a word under the Solidity integer type `(signed, bits)` -/
def wordTyped (ty : Bool × Nat) (w : Bytes) : Option Int :=
  if ty.1 then wordInt ty.2 w else (wordUint ty.2 w).map Int.ofNat

/-! ## v3 schema (premium legacy) -/

structure V3Decoded where
  feedID    : Bytes
  validFrom : Nat
  timestamp : Nat
  nativeFee : Nat
  linkFee   : Nat
  expiresAt : Nat
  benchmark : Int
  bid       : Int
  ask       : Int
  deriving Repr, DecidableEq

/-- `(bytes32, uint32, uint32, uint192, uint192, uint32, int192, int192, int192)` -/
def abiDecodeV3 (bs : Bytes) : Option V3Decoded :=
  match splitWords 9 bs with
  | some [w0, w1, w2, w3, w4, w5, w6, w7, w8] => do
    let validFrom ← wordUint 32 w1
    let timestamp ← wordUint 32 w2
    let nativeFee ← wordUint 192 w3
    let linkFee ← wordUint 192 w4
    let expiresAt ← wordUint 32 w5
    let benchmark ← wordInt 192 w6
    let bid ← wordInt 192 w7
    let ask ← wordInt 192 w8
    pure { feedID := w0, validFrom, timestamp, nativeFee, linkFee, expiresAt, benchmark, bid, ask }
  | _ => none

/-! ## base schema + padded payload (ABI-encode-unpacked) -/

structure UnpackedDecoded where
  feedID    : Bytes
  validFrom : Nat
  timestamp : Nat
  nativeFee : Nat
  linkFee   : Nat
  expiresAt : Nat
  values    : List (List Int)
  deriving Repr, DecidableEq

/-- one 32-byte word per declared type -/
def decodePaddedFields : List (Option (Bool × Nat)) → Bytes → Option (List Int × Bytes)
  | [], bs => some ([], bs)
  | none :: _, _ => none
  | some ty :: rest, bs =>
    if bs.length < 32 then none
    else do
      let v ← wordTyped ty (bs.take 32)
      let (vs, r) ← decodePaddedFields rest (bs.drop 32)
      pure (v :: vs, r)

/-- the payload: for each ABI element its one or two words; nothing may be left over -/
def decodePaddedValues : List (List (Option (Bool × Nat))) → Bytes → Option (List (List Int))
  | [], bs => if bs.isEmpty then some [] else none
  | tys :: rest, bs => do
    let (vs, r) ← decodePaddedFields tys bs
    let vss ← decodePaddedValues rest r
    pure (vs :: vss)

/-- `(bytes32, uint32, uint32, uint192, uint192, uint32)` followed by the payload words -/
def abiDecodeUnpacked (layout : List (List (Option (Bool × Nat)))) (bs : Bytes) : Option UnpackedDecoded :=
  if bs.length < 192 then none
  else match splitWords 6 (bs.take 192) with
    | some [w0, w1, w2, w3, w4, w5] => do
      let validFrom ← wordUint 32 w1
      let timestamp ← wordUint 32 w2
      let nativeFee ← wordUint 192 w3
      let linkFee ← wordUint 192 w4
      let expiresAt ← wordUint 32 w5
      let values ← decodePaddedValues layout (bs.drop 192)
      pure { feedID := w0, validFrom, timestamp, nativeFee, linkFee, expiresAt, values }
    | _ => none

/-- the layout an opts struct declares for the payload -/
def unpackedLayout (abi : List ABIEnc) : List (List (Option (Bool × Nat))) :=
  abi.map (fun a => a.encoders.map (fun e => parseType e.ty))

/-! ## streamlined (packed) -/

inductive FieldTy where
  | int (signed : Bool) (bits : Nat)
  | empty      -- the `bytes0` sentinel: occupies no bytes
  | invalid
  deriving Repr, DecidableEq

def Enc1.fieldTy (e : Enc1) : FieldTy :=
  if e.ty = zeroBytesSentinel then .empty
  else match parseType e.ty with
    | some (s, b) => .int s b
    | none => .invalid

def streamlinedLayout (abi : List ABIEnc) : List (List FieldTy) :=
  abi.map (fun a => a.encoders.map Enc1.fieldTy)

/-- `bits/8` bytes per integer field, nothing for `bytes0` -/
def decodePackedFields : List FieldTy → Bytes → Option (List (Option Int) × Bytes)
  | [], bs => some ([], bs)
  | .invalid :: _, _ => none
  | .empty :: rest, bs => do
    let (vs, r) ← decodePackedFields rest bs
    pure (none :: vs, r)
  | .int s bits :: rest, bs =>
    if bs.length < bits / 8 then none
    else do
      let u := fromBE (bs.take (bits / 8))
      let v : Int := if s then toSigned bits u else (u : Int)
      let (vs, r) ← decodePackedFields rest (bs.drop (bits / 8))
      pure (some v :: vs, r)

def decodePackedValues : List (List FieldTy) → Bytes → Option (List (List (Option Int)))
  | [], bs => if bs.isEmpty then some [] else none
  | tys :: rest, bs => do
    let (vs, r) ← decodePackedFields tys bs
    let vss ← decodePackedValues rest r
    pure (vs :: vss)

structure StreamlinedDecoded where
  feedID        : Option Bytes          -- when the opts carry a feed id
  formatChannel : Option (Nat × Nat)    -- otherwise (report format, channel id)
  validAfter    : Nat
  values        : List (List (Option Int))
  deriving Repr, DecidableEq

/-- `bytes32 feedID | (uint32 format, uint32 channelID)`, `uint64 validAfterNanoseconds`, packed values -/
def abiDecodeStreamlined (hasFeedID : Bool) (layout : List (List FieldTy)) (bs : Bytes) :
    Option StreamlinedDecoded :=
  let hl := if hasFeedID then 32 else 8
  if bs.length < hl + 8 then none
  else do
    let values ← decodePackedValues layout (bs.drop (hl + 8))
    let va := fromBE ((bs.drop hl).take 8)
    if hasFeedID then
      pure { feedID := some (bs.take 32), formatChannel := none, validAfter := va, values }
    else
      pure { feedID := none, formatChannel := some (fromBE (bs.take 4), fromBE ((bs.drop 4).take 4)),
             validAfter := va, values }

end DSV.EVM
