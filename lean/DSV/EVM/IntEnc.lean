import DSV.Go.Basic
import DSV.Go.Bytes
/-!
# `EncodePackedBigInt` / `EncodePaddedBigInt` (`llo/reportcodecs/evm/report_codec_common.go`)
-/
namespace DSV.EVM
open DSV

/-- the bit widths accepted by `typeRegex` -/
def widths : List Nat := (List.range 32).map (fun i => 8 * (i + 1))

def digitChar (n : Nat) : Char := Char.ofNat (48 + n)

/-- decimal digits of a number below 1000 (all widths are) -/
def digits3 (n : Nat) : List Char :=
  if n < 10 then [digitChar n]
  else if n < 100 then [digitChar (n / 10), digitChar (n % 10)]
  else [digitChar (n / 100), digitChar (n / 10 % 10), digitChar (n % 10)]

def findWidth (signed : Bool) (r : List Char) : Option (Bool × Nat) :=
  (widths.find? (fun w => digits3 w == r)).map (fun w => (signed, w))

/-- `typeRegex.FindStringSubmatch` on the characters of the type string:
    `^(u?int)(8|16|…|256)$`.  Returns (signed, bits). -/
def parseTypeChars (cs : List Char) : Option (Bool × Nat) :=
  match cs with
  | 'u' :: 'i' :: 'n' :: 't' :: r => findWidth false r
  | 'i' :: 'n' :: 't' :: r => findWidth true r
  | _ => none

def parseType (s : String) : Option (Bool × Nat) := parseTypeChars s.toList

/-- the type name `intN` / `uintN` as characters -/
def typeChars (signed : Bool) (bits : Nat) : List Char :=
  (if signed then ['i', 'n', 't'] else ['u', 'i', 'n', 't']) ++ digits3 bits

/-- `EncodePackedBigInt(value, typeStr)` -/
def encodePackedT (v : Int) (ty : Option (Bool × Nat)) : GoRes (List UInt8) :=
  match ty with
  | none => .err "invalid-type"
  | some (false, bits) =>
    if v < 0 then .err "out-of-range"
    else if v ≥ (2 : Int) ^ bits then .err "out-of-range"
    else .ok (beBytes (bits / 8) v.toNat)
  | some (true, bits) =>
    if v < -((2 : Int) ^ (bits - 1)) ∨ v > (2 : Int) ^ (bits - 1) - 1 then .err "out-of-range"
    else .ok (beBytes (bits / 8) (v % (2 : Int) ^ bits).toNat)

def encodePacked (v : Int) (t : String) : GoRes (List UInt8) := encodePackedT v (parseType t)

/-- `EncodePaddedBigInt(v, t)` -/
def encodePaddedT (v : Int) (ty : Option (Bool × Nat)) : GoRes (List UInt8) :=
  match encodePackedT v ty with
  | .ok b =>
    if b.length > 32 then .err "too-large"
    else if v < 0 then .ok (List.replicate (32 - b.length) 0xff ++ b)
    else .ok (List.replicate (32 - b.length) 0 ++ b)
  | .err e => .err e
  | .panic => .panic

def encodePadded (v : Int) (t : String) : GoRes (List UInt8) := encodePaddedT v (parseType t)

end DSV.EVM
