import DSV.Go.Basic
import DSV.Go.Bytes
import DSV.Go.Dec
import DSV.LLO.Types
import DSV.EVM.IntEnc
/-!
# The three EVM report codecs (`llo/reportcodecs/evm`)

Line-by-line models of

* `report_codec_common.go`   : `ExtractTimestamps`, `singleABIEncoder`, `ABIEncoder.EncodePacked/EncodePadded`
* `fees.go`                  : `CalculateFee`
* `report_codec_evm_streamlined.go`        : `Encode`, `Verify`
* `report_codec_evm_abi_encode_unpacked.go`: `Encode`, `buildHeader`, `buildPayload`, `Verify`
* `report_codec_premium_legacy.go` + `v3/report_codec.go` + `v3/types.go` :
  `Encode`, `ExtractReportValues`, `extractPrice`, `BuildReport`, `Verify`
* go-ethereum `abi.Arguments.Pack` for static tuples of `bytes32` / `uintN` / `intN`:
  one 32-byte word per argument holding the value `mod 2^256` (`packNum` → `math.U256Bytes`);
  the library performs **no** range check below 256 bits.

The JSON text of `ChannelDefinition.Opts` is a dependency (`encoding/json`, `decimal.UnmarshalJSON`,
`common.Hash.UnmarshalText`, `ubig.Big.UnmarshalText`): the functions below take the *parsed* opts struct.

A nil interface value in `report.Values` is `none`.  Typed nil pointers (`(*llo.Decimal)(nil)` …) cannot
be produced by the plugin (values are looked up in the decoded `StreamAggregates` map) and are outside
this model; the harness exercises them implementation-only.

Error classes are the small strings compared by the correspondence check; an `errors.Join` of several
errors is classified by its first line, i.e. by the first failing check in source order.
-/
namespace DSV.EVM
open DSV DSV.LLO

abbrev Bytes := List UInt8

/-! ## `abi.Arguments.Pack` on static tuples -/

/-- `math.U256Bytes(v)` : `v mod 2^256` as a 32-byte big-endian word (two's complement for negatives).
    No range check for narrower types. -/
def abiWord (v : Int) : Bytes := beBytes 32 (v % (2 : Int) ^ 256).toNat

/-! ## `report_codec_common.go` -/

/-- `ExtractTimestamps` : (validAfterSeconds, observationTimestampSeconds) -/
def extractTimestamps (r : Report) : GoRes (Nat × Nat) :=
  let vas := r.validAfter / 1000000000
  let ots := r.obsTs / 1000000000
  if vas > 4294967295 then .err "va-too-large"
  else if ots > 4294967295 then .err "ts-too-large"
  else .ok (vas, ots)

/-- `singleABIEncoder{Type, Multiplier}`; `mult = none` is a nil `*ubig.Big` -/
structure Enc1 where
  ty   : String
  mult : Option Int
  deriving Repr, DecidableEq, Inhabited

/-- `ABIEncoder{encoders}` -/
structure ABIEnc where
  encoders : List Enc1
  deriving Repr, DecidableEq, Inhabited

/-- `ZeroBytesSentinel` -/
def zeroBytesSentinel : String := "bytes0"

/-- `getNormalizedMultiplier` : `decimal.NewFromInt(1)` or `decimal.NewFromBigInt(m, 0)` -/
def Enc1.normMult (a : Enc1) : Dec := ⟨a.mult.getD 1, 0⟩

/-- `applyMultiplier` : `d.Mul(multiplier).BigInt()` (`Mul` panics on int32 exponent overflow) -/
def Enc1.applyMultiplier (a : Enc1) (d : Dec) : GoRes Int := do
  let p ← d.mul a.normMult
  pure p.bigInt

/-- `encodeDecimalStreamValuePadded` on a non-nil `*llo.Decimal` -/
def Enc1.encodeDecPadded (a : Enc1) (d : Dec) : GoRes Bytes := do
  let v ← a.applyMultiplier d
  encodePadded v a.ty

/-- `encodeUint64Padded` -/
def Enc1.encodeUint64Padded (a : Enc1) (v : Nat) : GoRes Bytes := do
  let x ← a.applyMultiplier ⟨v, 0⟩
  encodePadded x a.ty

/-- `encodeUint64Packed` -/
def Enc1.encodeUint64Packed (a : Enc1) (v : Nat) : GoRes Bytes :=
  if a.ty = zeroBytesSentinel then .ok []
  else do
    let x ← a.applyMultiplier ⟨v, 0⟩
    encodePacked x a.ty

/-- `singleABIEncoder.encodePacked(sv)` -/
def Enc1.encodePackedSV (a : Enc1) (sv : Option SV) : GoRes Bytes :=
  if a.ty = zeroBytesSentinel then .ok []
  else match sv with
    | some (.dec d) => do
      let v ← a.applyMultiplier d
      encodePacked v a.ty
    | _ => .err "unsupported-type"

/-- `ABIEncoder.EncodePacked` -/
def ABIEnc.encodePacked (a : ABIEnc) (sv : Option SV) : GoRes Bytes :=
  match sv with
  | some (.dec d) =>
    match a.encoders with
    | [e] => e.encodePackedSV (some (.dec d))
    | _ => .err "encoder-count"
  | some (.tsv t inner) =>
    match a.encoders with
    | [e0, e1] => do
      let ts ← e0.encodeUint64Packed t
      let v ← e1.encodePackedSV (some inner)
      pure (ts ++ v)
    | _ => .err "encoder-count"
  | _ => .err "unsupported-type"

/-- `ABIEncoder.EncodePadded` -/
def ABIEnc.encodePadded (a : ABIEnc) (sv : Option SV) : GoRes Bytes :=
  match sv with
  | some (.dec d) =>
    match a.encoders with
    | [e] => e.encodeDecPadded d
    | _ => .err "encoder-count"
  | some (.tsv t inner) =>
    match a.encoders with
    | [e0, e1] => do
      let ts ← e0.encodeUint64Padded t
      match inner with
      | .dec d => do
        let v ← e1.encodeDecPadded d
        pure (ts ++ v)
      | _ => .err "unsupported-type"
    | _ => .err "encoder-count"
  | _ => .err "unsupported-type"

/-! ## `fees.go` -/

/-- `FeeScalingFactor = decimal.NewFromInt(1e18)` -/
def feeScalingFactor : Dec := ⟨1000000000000000000, 0⟩

/-- `Precision` -/
def feePrecision : Int := 18

/-- `CalculateFee(tokenPriceInUSD, baseUSDFee)`.
    `DivRound` carries the library precondition of `QuoRem` (known finding K4). -/
def calculateFee (price base : Dec) : GoRes Int :=
  if base.coef = 0 ∨ base.coef < 0 ∨ price.coef = 0 ∨ price.coef < 0 then .ok 0
  else do
    let fee ← base.divRound price feePrecision
    let fee ← fee.mul feeScalingFactor
    pure fee.bigInt

/-- `extractPrice` : `decimal.Zero` is `New(0, 1)` -/
def extractPrice (v : Option SV) : GoRes Dec :=
  match v with
  | none => .ok ⟨0, 1⟩
  | some (.dec d) => .ok d
  | some (.quote _ bm _) => .ok bm
  | some (.tsv _ _) => .err "bad-price-type"

/-! ## streamlined -/

/-- parsed `ReportFormatEVMStreamlinedOpts` -/
structure StreamlinedOpts where
  feedID : Option Bytes
  abi    : List ABIEnc
  deriving Repr, DecidableEq, Inhabited

/-- the loop `for i, encoder := range opts.ABI { b, err := encoder.EncodePacked(r.Values[i]); … }` :
    the first failing index returns -/
def packValues : List (ABIEnc × Option SV) → GoRes Bytes
  | [] => .ok []
  | (e, v) :: rest => do
    let b ← e.encodePacked v
    let bs ← packValues rest
    pure (b ++ bs)

/-- header of the streamlined payload: feed id, or packed `uint32(format) ++ uint32(channelID)`;
    then the packed `uint64` validAfter nanoseconds -/
def streamlinedHeader (r : Report) (format : Nat) (o : StreamlinedOpts) : Bytes :=
  (match o.feedID with
   | none => beBytes 4 format ++ beBytes 4 r.channelID
   | some f => f) ++ beBytes 8 r.validAfter

/-- `ReportCodecEVMStreamlined.Encode` -/
def encodeStreamlined (r : Report) (format : Nat) (o : StreamlinedOpts) : GoRes Bytes :=
  if o.abi.length ≠ r.values.length then .err "length-mismatch"
  else do
    let payload ← packValues (o.abi.zip r.values)
    pure (streamlinedHeader r format o ++ payload)

/-- `ReportCodecEVMStreamlined.Verify` -/
def verifyStreamlined (o : StreamlinedOpts) (nStreams : Nat) : GoRes Unit :=
  if o.abi.length ≠ nStreams then .err "abi-length" else .ok ()

/-! ## ABI-encode-unpacked -/

/-- parsed `ReportFormatEVMABIEncodeOpts` -/
structure UnpackedOpts where
  baseUSDFee : Dec
  window     : Nat
  feedID     : Bytes
  abi        : List ABIEnc
  deriving Repr, DecidableEq, Inhabited

def maxUint192 : Int := (2 : Int) ^ 192 - 1
def maxInt192 : Int := (2 : Int) ^ 191 - 1
def minInt192 : Int := -((2 : Int) ^ 191)

/-- the nil / negative / too-large check of one fee (fees are never nil here) -/
def feeCheck (fee : Int) : Option String :=
  if fee < 0 then some "fee-negative"
  else if fee > maxUint192 then some "uint192-range"
  else none

/-- `BaseReportFields` -/
structure BaseFields where
  feedID    : Bytes
  validFrom : Nat
  timestamp : Nat
  nativeFee : Int
  linkFee   : Int
  expiresAt : Nat

/-- `buildHeader` : link fee is checked first, then native fee; then `BaseSchema.Pack` -/
def buildHeader (rf : BaseFields) : GoRes Bytes :=
  match (feeCheck rf.linkFee).or (feeCheck rf.nativeFee) with
  | some c => .err c
  | none => .ok (rf.feedID ++ abiWord rf.validFrom ++ abiWord rf.timestamp ++ abiWord rf.nativeFee
                  ++ abiWord rf.linkFee ++ abiWord rf.expiresAt)

/-- loop of `buildPayload`: an error at one index is joined and the loop *continues* (so a later
    panic still happens); the class is that of the first failing index -/
def buildPayloadLoop : List (ABIEnc × Option SV) → GoRes Bytes
  | [] => .ok []
  | (e, v) :: rest =>
    match e.encodePadded v with
    | .panic => .panic
    | .ok b =>
      match buildPayloadLoop rest with
      | .ok bs => .ok (b ++ bs)
      | .err c => .err c
      | .panic => .panic
    | .err c =>
      match buildPayloadLoop rest with
      | .panic => .panic
      | _ => .err c

/-- `buildPayload(encoders, values)` -/
def buildPayload (encoders : List ABIEnc) (values : List (Option SV)) : GoRes Bytes :=
  if encoders.length ≠ values.length then .err "length-mismatch"
  else buildPayloadLoop (encoders.zip values)

/-- `ReportCodecEVMABIEncodeUnpacked.Encode`.  `validAfterSeconds + 1` and
    `observationTimestampSeconds + opts.ExpirationWindow` are `uint32` additions: they wrap. -/
def encodeUnpacked (r : Report) (o : UnpackedOpts) : GoRes Bytes :=
  if r.specimen then .err "specimen"
  else match r.values with
    | v0 :: v1 :: rest => do
      let nativePrice ← extractPrice v0
      let linkPrice ← extractPrice v1
      let (vas, ots) ← extractTimestamps r
      let nativeFee ← calculateFee nativePrice o.baseUSDFee
      let linkFee ← calculateFee linkPrice o.baseUSDFee
      let header ← buildHeader
        { feedID := o.feedID, validFrom := (vas + 1) % 2 ^ 32, timestamp := ots,
          nativeFee := nativeFee, linkFee := linkFee, expiresAt := (ots + o.window) % 2 ^ 32 }
      let payload ← buildPayload o.abi rest
      pure (header ++ payload)
    | _ => .err "values-count"

/-- `ReportCodecEVMABIEncodeUnpacked.Verify` -/
def verifyUnpacked (o : UnpackedOpts) (nStreams : Nat) : GoRes Unit :=
  if o.baseUSDFee.coef < 0 then .err "negative-fee"
  else if o.feedID = List.replicate 32 0 then .err "zero-feed-id"
  else if nStreams < 3 then .err "streams-count"
  else if o.abi.length ≠ nStreams - 2 then .err "abi-length"
  else .ok ()

/-! ## premium legacy (v3 schema) -/

/-- parsed `ReportFormatEVMPremiumLegacyOpts`; empty opts bytes decode to the zero struct -/
structure PremiumOpts where
  baseUSDFee : Dec
  window     : Nat
  feedID     : Bytes
  multiplier : Option Int
  deriving Repr, DecidableEq, Inhabited

/-- `v3.ReportFields` -/
structure V3Fields where
  validFrom : Nat
  timestamp : Nat
  nativeFee : Int
  linkFee   : Int
  expiresAt : Nat
  benchmark : Int
  bid       : Int
  ask       : Int

/-- `checkInt192` -/
def checkInt192 (v : Int) : Option String :=
  if v < minInt192 ∨ v > maxInt192 then some "int192-range" else none

/-- `v3.ReportCodec.BuildReport` : checks in source order benchmark, bid, ask, link fee, native fee;
    then `Schema.Pack` -/
def buildReportV3 (feedID : Bytes) (rf : V3Fields) : GoRes Bytes :=
  match ((((checkInt192 rf.benchmark).or (checkInt192 rf.bid)).or (checkInt192 rf.ask)).or
          (feeCheck rf.linkFee)).or (feeCheck rf.nativeFee) with
  | some c => .err c
  | none => .ok (feedID ++ abiWord rf.validFrom ++ abiWord rf.timestamp ++ abiWord rf.nativeFee
                  ++ abiWord rf.linkFee ++ abiWord rf.expiresAt ++ abiWord rf.benchmark
                  ++ abiWord rf.bid ++ abiWord rf.ask)

/-- `ExtractReportValues` : (nativePrice, linkPrice, bid, benchmark, ask) -/
def extractReportValues (r : Report) : GoRes (Dec × Dec × Dec × Dec × Dec) :=
  match r.values with
  | [v0, v1, v2] => do
    let nativePrice ← extractPrice v0
    let linkPrice ← extractPrice v1
    match v2 with
    | some (.quote bid bm ask) => pure (nativePrice, linkPrice, bid, bm, ask)
    | _ => .err "quote-type"
  | _ => .err "values-count"

/-- `quote.X.Mul(multiplier).BigInt()` -/
def scaleBy (d : Dec) (m : Int) : GoRes Int := do
  let p ← d.mul ⟨m, 0⟩
  pure p.bigInt

/-- `ReportCodecPremiumLegacy.Encode` -/
def encodePremium (r : Report) (o : PremiumOpts) : GoRes Bytes :=
  if r.specimen then .err "specimen"
  else do
    let (nativePrice, linkPrice, bid, bm, ask) ← extractReportValues r
    let multiplier ← (match o.multiplier with
      | none => GoRes.ok (1 : Int)
      | some m => if m = 0 then .err "zero-multiplier" else .ok m)
    let (vas, ots) ← extractTimestamps r
    let nativeFee ← calculateFee nativePrice o.baseUSDFee
    let linkFee ← calculateFee linkPrice o.baseUSDFee
    let benchmark ← scaleBy bm multiplier
    let bidI ← scaleBy bid multiplier
    let askI ← scaleBy ask multiplier
    buildReportV3 o.feedID
      { validFrom := (vas + 1) % 2 ^ 32, timestamp := ots, nativeFee := nativeFee, linkFee := linkFee,
        expiresAt := (ots + o.window) % 2 ^ 32, benchmark := benchmark, bid := bidI, ask := askI }

/-- `ReportCodecPremiumLegacy.Verify` -/
def verifyPremium (o : PremiumOpts) (nStreams : Nat) : GoRes Unit :=
  if o.baseUSDFee.coef < 0 then .err "negative-fee"
  else if o.feedID = List.replicate 32 0 then .err "zero-feed-id"
  else if nStreams ≠ 3 then .err "streams-count"
  else .ok ()

end DSV.EVM
