#!/usr/bin/env python3
"""Regenerates /verif/MANIFEST.json from the per-property table below (kept in one place so the
manifest is always schema-valid)."""
import json, os
V = os.path.dirname(os.path.dirname(os.path.abspath(__file__)))
ids = [json.loads(l)["id"] for l in open(os.path.join(V, "properties.jsonl"))]
claims = {}
for i in ids:
    f = os.path.join(V, "claims", i + ".json")
    if os.path.exists(f):
        claims[i] = json.load(open(f))
na_reasons = json.load(open(os.path.join(V, "claims", "not_applicable.json")))
props = {"claims": claims,
         "not_applicable": [{"property_id": i, "reason": na_reasons.get(i, na_reasons["default"])} for i in ids if i not in claims],
         "hook_commits": na_reasons.get("hook_commits", []),
         "notes": na_reasons.get("notes", "")}
checks = []
for pid, c in sorted(props["claims"].items()):
    checks.append({
        "property_id": pid,
        "quick_cmd": f"/verif/bin/check {pid} --tier quick",
        "thorough_cmd": f"/verif/bin/check {pid} --tier thorough",
        "evidence_file": f"/verif/evidence/{pid}.json",
        "replay_cmd_template": f"/verif/bin/check {pid} --replay {{path}}",
        "engine": "lean4-proof+correspondence",
        "level_claimed": {"category": c["category"], "text": c["text"], "design_ref": c.get("design_ref", "DESIGN.md §4 " + pid)},
        "level_note": c["note"],
        "technique": c["technique"],
    })
m = {
    "version": 1,
    "setup_cmd": "/verif/bin/setup",
    "hooks": {
        "guard": "verif",
        "enable": "go build -tags verif (the harness module in /verif/.work/harness replaces the repository module by /repo's working tree)",
        "baseline_off_cmd": "cd /repo && GOFLAGS=-mod=mod GOPROXY=off go test -json -vet=off -count=1 -timeout 25m ./...",
        "source_commits": props.get("hook_commits", []),
        "add_only": True,
    },
    "engines": [
        {"name": "lean4-proof+correspondence", "path": "/verif/lean, /verif/harness, /verif/extract, /verif/bin/check",
         "serves_properties": sorted(props["claims"]),
         "kind_free_text": "Lean 4 theorems over a hand-written executable model (lake project DSV); tie to /repo = fact extractor regenerating DSV/Generated/Facts.lean + differential correspondence between the compiled Lean model driver and the real Go code run in-process by the harness; per-property monitors search for a failing input (also on results re-evaluated at the end of a run, sequentially and from 8 goroutines at once, and beside a race-instrumented run of the same case stream); source fingerprints of everything reachable from the anchor files re-open that search when the code changes"}
    ],
    "checks": checks,
    "not_applicable": props.get("not_applicable", []),
    "notes": props.get("notes", ""),
}
json.dump(m, open(os.path.join(V, "MANIFEST.json"), "w"), indent=1)
print("wrote MANIFEST.json with", len(checks), "checks,", len(m["not_applicable"]), "not_applicable")
